"""E6 (constant/template evaluator, small) + E7 (static registry model).

Interprets core_codemods/__init__.py and the modules it imports into a table
codemod id -> kind / tool / rules / detector (+ semgrep rule text) / transformer classes / docs.
Nothing is imported or executed.
"""
from __future__ import annotations

import ast
import textwrap
from dataclasses import dataclass, field
from typing import Optional

from .model import AnalysisError, ClassInfo, Module, Program, call_name, dotted_name, last_attr, unparse

COLLECTIONS_MODULE = "core_codemods"
SIMPLE_BASE = "codemodder.codemods.api.SimpleCodemod"
FIND_AND_FIX = "codemodder.codemods.base_codemod.FindAndFixCodemod"
REMEDIATION = "codemodder.codemods.base_codemod.RemediationCodemod"
LIBCST_PIPE = "codemodder.codemods.libcst_transformer.LibcstTransformerPipeline"
EXPECTED_MIN = 101


@dataclass
class Codemod:
    id: str
    name: str
    origin: str
    kind: str  # 'find-and-fix' | 'remediation'
    where: str
    module: str
    var: str
    transformers: list[str] = field(default_factory=list)  # class qnames in pipeline order
    pipeline: str = "libcst"
    detector: Optional[str] = None  # 'semgrep-rule' | class name of detector | None
    rule_text: Optional[str] = None  # semgrep rule yaml (for 'semgrep-rule')
    rule_node: Optional[ast.AST] = None
    tool_name: Optional[str] = None
    rule_ids: Optional[list[str]] = None
    requested_rules: Optional[list[str]] = None
    summary: Optional[str] = None
    has_inline_description: bool = False
    other: Optional["Codemod"] = None
    form: str = ""
    default_extensions: Optional[list[str]] = None


class Registry:
    def __init__(self, ctx):
        self.ctx = ctx
        self.prog: Program = ctx.prog
        self.codemods: list[Codemod] = []
        self.by_var: dict[tuple[str, str], Codemod] = {}
        self._building: set = set()

    # ------------------------------------------------------------- constants (E6, string subset)
    def const_str(self, mod: Module, e: ast.AST | None, depth: int = 8, env: dict | None = None) -> Optional[str]:
        if e is None or depth <= 0:
            return None
        if isinstance(e, ast.Constant):
            return e.value if isinstance(e.value, str) else (str(e.value) if isinstance(e.value, (int, float)) and not isinstance(e.value, bool) else None)
        if isinstance(e, ast.NamedExpr):
            return self.const_str(mod, e.value, depth - 1, env)
        if isinstance(e, ast.JoinedStr):
            parts = []
            for v in e.values:
                if isinstance(v, ast.Constant):
                    parts.append(str(v.value))
                elif isinstance(v, ast.FormattedValue):
                    s = self.const_str(mod, v.value, depth - 1, env)
                    if s is None:
                        return None
                    parts.append(s)
            return "".join(parts)
        if isinstance(e, ast.BinOp) and isinstance(e.op, ast.Add):
            a, b = self.const_str(mod, e.left, depth - 1, env), self.const_str(mod, e.right, depth - 1, env)
            return a + b if a is not None and b is not None else None
        if isinstance(e, ast.Name):
            if env and e.id in env:
                return self.const_str(mod, env[e.id], depth - 1, env)
            if e.id in mod.constants:
                return self.const_str(mod, mod.constants[e.id], depth - 1, env)
            # walrus-bound at module level: search the module for `(name := "...")`
            for n in ast.walk(mod.tree):
                if isinstance(n, ast.NamedExpr) and n.target.id == e.id:
                    return self.const_str(mod, n.value, depth - 1, env)
            q = self.prog.resolve_dotted(mod, e.id)
            if q:
                return self._const_qname(q, depth - 1)
            return None
        if isinstance(e, ast.Attribute):
            d = dotted_name(e)
            if d:
                q = self.prog.resolve_dotted(mod, d)
                if q:
                    return self._const_qname(q, depth - 1)
            return None
        if isinstance(e, ast.Call):
            la = last_attr(e.func)
            if isinstance(e.func, ast.Attribute) and la in ("title", "strip", "lower", "upper", "lstrip", "rstrip") and not e.args:
                s = self.const_str(mod, e.func.value, depth - 1, env)
                return getattr(s, la)() if s is not None else None
            if call_name(e) in ("textwrap.dedent", "dedent") and e.args:
                s = self.const_str(mod, e.args[0], depth - 1, env)
                return textwrap.dedent(s) if s is not None else None
            if isinstance(e.func, ast.Attribute) and la == "format":
                return None
        return None

    def _const_qname(self, q: str, depth: int) -> Optional[str]:
        owner, _, attr = q.rpartition(".")
        if owner in self.prog.modules and attr in self.prog.modules[owner].constants:
            m = self.prog.modules[owner]
            return self.const_str(m, m.constants[attr], depth)
        if owner in self.prog.classes:
            got = self.prog.lookup_attr(owner, attr)
            if got:
                return self.const_str(got[0].module, got[1], depth)
        return None

    def const_list(self, mod: Module, e: ast.AST | None, env: dict | None = None) -> Optional[list[str]]:
        if isinstance(e, ast.Name) and e.id in mod.constants:
            e = mod.constants[e.id]
        if isinstance(e, (ast.List, ast.Tuple)):
            out = []
            for x in e.elts:
                s = self.const_str(mod, x, env=env)
                if s is None:
                    return None
                out.append(s)
            return out
        return None

    # ------------------------------------------------------------- helpers
    @staticmethod
    def _kw(call: ast.Call, name: str) -> Optional[ast.expr]:
        for k in call.keywords:
            if k.arg == name:
                return k.value
        return None

    def _metadata(self, mod: Module, e: ast.AST | None) -> dict:
        out = {"name": None, "summary": None, "inline_description": False, "tool_name": None, "rule_ids": None}
        if isinstance(e, ast.Name) and e.id in mod.constants:
            e = mod.constants[e.id]
        if not (isinstance(e, ast.Call) and (last_attr(e.func) == "Metadata")):
            return out
        out["name"] = self.const_str(mod, self._kw(e, "name"))
        s = self._kw(e, "summary")
        out["summary"] = self.const_str(mod, s) if s is not None else None
        out["summary_present"] = s is not None
        d = self._kw(e, "description")
        out["inline_description"] = d is not None and not (isinstance(d, ast.Constant) and d.value is None)
        tool = self._kw(e, "tool")
        if isinstance(tool, ast.Call) and last_attr(tool.func) == "ToolMetadata":
            out["tool_name"] = self.const_str(mod, self._kw(tool, "name"))
            out["rule_ids"] = self._tool_rule_ids(mod, self._kw(tool, "rules"))
        return out

    def _tool_rule_ids(self, mod: Module, rules: ast.AST | None) -> Optional[list[str]]:
        if isinstance(rules, ast.Name) and rules.id in mod.constants:
            rules = mod.constants[rules.id]
        if not isinstance(rules, (ast.List, ast.Tuple)):
            return None
        ids = []
        for r in rules.elts:
            if isinstance(r, ast.Call) and last_attr(r.func) == "ToolRule":
                idn = self._kw(r, "id") or (r.args[0] if r.args else None)
                # walrus inside ToolRule(id=(rule_id := "...")) is local to that element
                s = self.const_str(mod, idn)
                if s is None:
                    return None
                ids.append(s)
            else:
                return None
        return ids

    def _pipeline(self, mod: Module, e: ast.AST | None) -> tuple[str, list[str]]:
        """(pipeline kind, transformer class qnames)."""
        if isinstance(e, ast.Name) and e.id in mod.constants:
            e = mod.constants[e.id]
        if isinstance(e, ast.Call):
            q = self.prog.resolve_expr_name(mod, e.func) or ""
            if q == LIBCST_PIPE or q.endswith("LibcstTransformerPipeline"):
                ts = []
                for a in e.args:
                    tq = self.prog.resolve_expr_name(mod, a)
                    ts.append(tq or unparse(a))
                return "libcst", ts
            return q.split(".")[-1], [self.prog.resolve_expr_name(mod, a) or unparse(a) for a in e.args]
        return "?", []

    def _detector(self, mod: Module, e: ast.AST | None) -> tuple[Optional[str], Optional[str], Optional[ast.AST]]:
        if e is None or (isinstance(e, ast.Constant) and e.value is None):
            return None, None, None
        if isinstance(e, ast.Call):
            n = last_attr(e.func)
            if n == "SemgrepRuleDetector":
                arg = e.args[0] if e.args else self._kw(e, "rule")
                return "semgrep-rule", self.const_str(mod, arg), arg
            return n, None, None
        return unparse(e), None, None

    def _class_kind(self, cls_q: str) -> Optional[str]:
        m = self.prog.mro(cls_q)
        if REMEDIATION in m:
            return "remediation"
        if FIND_AND_FIX in m:
            return "find-and-fix"
        return None

    def _class_origin(self, cls_q: str) -> Optional[str]:
        m = self.prog.lookup_method(cls_q, "origin")
        if m is None:
            return None
        for n in ast.walk(m.node):
            if isinstance(n, ast.Return) and isinstance(n.value, ast.Constant):
                return n.value.value
        return None

    # ------------------------------------------------------------- interpretation of one definition
    def resolve(self, mod: Module, name: str, origin_hint: str | None = None) -> Codemod:
        q = self.prog.resolve_dotted(mod, name)
        if q is None:
            raise AnalysisError(f"registry: cannot resolve codemod name {name} in {mod.name}")
        owner, _, var = q.rpartition(".")
        key = (owner, var)
        if key in self.by_var:
            return self.by_var[key]
        if key in self._building:
            raise AnalysisError(f"registry: cyclic codemod definition {q}")
        self._building.add(key)
        try:
            dmod = self.prog.modules.get(owner)
            if dmod is None:
                raise AnalysisError(f"registry: {q} is not defined in an analysed module")
            if var in dmod.classes:
                cm = self._from_simple_class(dmod.classes[var])
            elif var in dmod.constants:
                cm = self._from_assignment(dmod, var, dmod.constants[var])
            else:
                raise AnalysisError(f"registry: definition of {q} not found")
            self.by_var[key] = cm
            return cm
        finally:
            self._building.discard(key)

    def _from_simple_class(self, ci: ClassInfo) -> Codemod:
        if SIMPLE_BASE not in self.prog.mro(ci.qname):
            raise AnalysisError(f"registry: class {ci.qname} is registered but is not a SimpleCodemod")
        md_attr = self.prog.lookup_attr(ci.qname, "metadata")
        md = self._metadata(md_attr[0].module, md_attr[1]) if md_attr else {}
        base = self.prog.lookup_attr(ci.qname, "codemod_base")
        base_q = self.prog.resolve_expr_name(base[0].module, base[1]) if base else None
        kind = self._class_kind(base_q) if base_q else None
        origin = self._class_origin(base_q) if base_q else None
        dp = self.prog.lookup_attr(ci.qname, "detector_pattern")
        rule_text = self.const_str(dp[0].module, dp[1]) if dp else None
        name = md.get("name")
        if not (name and kind and origin):
            raise AnalysisError(f"registry: cannot interpret SimpleCodemod {ci.qname} (name={name}, kind={kind}, origin={origin})")
        return Codemod(
            id=f"{origin}:python/{name}", name=name, origin=origin, kind=kind, where=ci.loc(), module=ci.module.name, var=ci.name,
            transformers=[ci.qname], detector="semgrep-rule" if dp else None, rule_text=rule_text, rule_node=dp[1] if dp else None,
            tool_name=md.get("tool_name"), rule_ids=md.get("rule_ids"), summary=md.get("summary") if md.get("summary_present") else "",
            has_inline_description=bool(md.get("inline_description")), form="SimpleCodemod",
        )

    def _from_assignment(self, mod: Module, var: str, e: ast.expr) -> Codemod:
        where = f"src/{mod.relpath}:{getattr(e, 'lineno', 0)}"
        if not isinstance(e, ast.Call):
            raise AnalysisError(f"registry: {mod.name}.{var} is not a constructor call")
        fq = self.prog.resolve_expr_name(mod, e.func) or unparse(e.func)
        # X.from_core_codemod(...)
        if fq.endswith(".from_core_codemod"):
            cls_q = fq.rsplit(".", 1)[0]
            other_e = self._kw(e, "other") or (e.args[1] if len(e.args) > 1 else None)
            if isinstance(other_e, ast.Call) and not other_e.args and not other_e.keywords:
                other_e = other_e.func  # `other=SimpleCodemodClass()` : __new__ returns the wrapped codemod
            other = self.resolve(mod, dotted_name(other_e)) if other_e is not None and dotted_name(other_e) else None
            if other is None:
                raise AnalysisError(f"registry: {mod.name}.{var}: `other` codemod not resolvable")
            name = self.const_str(mod, self._kw(e, "name") or (e.args[0] if e.args else None))
            origin = self._class_origin(cls_q)
            kind = self._class_kind(cls_q)
            fcc = self.prog.lookup_method(cls_q, "from_core_codemod")
            tool_name = None
            detector = None
            if fcc is not None:
                for n in ast.walk(fcc.node):
                    if isinstance(n, ast.Call) and last_attr(n.func) == "ToolMetadata":
                        tool_name = self.const_str(fcc.module, self._kw(n, "name"))
                    if isinstance(n, ast.keyword) and n.arg == "detector" and isinstance(n.value, ast.Call):
                        detector = last_attr(n.value.func)
            if self._kw(e, "rules") is not None:
                rule_ids = self._tool_rule_ids(mod, self._kw(e, "rules"))
            else:
                rid = self.const_str(mod, self._kw(e, "rule_id"))
                rule_ids = [rid] if rid else None
            t = self._kw(e, "transformer")
            if t is not None and not (isinstance(t, ast.Constant) and t.value is None):
                pipe, ts = self._pipeline(mod, t)
            else:
                pipe, ts = other.pipeline, list(other.transformers)
            if not (name and origin and kind):
                raise AnalysisError(f"registry: cannot interpret {mod.name}.{var} (name={name}, origin={origin}, kind={kind})")
            # from_core_codemod always passes requested_rules = the tool rule ids and description = other.description
            return Codemod(
                id=f"{origin}:python/{name}", name=name, origin=origin, kind=kind, where=where, module=mod.name, var=var,
                transformers=ts, pipeline=pipe, detector=detector, tool_name=tool_name, rule_ids=rule_ids,
                requested_rules=list(rule_ids) if rule_ids is not None else None, summary=other.summary,
                has_inline_description=True, other=other, form="from_core_codemod",
            )
        # direct constructor of a BaseCodemod subclass
        if fq in self.prog.classes and self._class_kind(fq):
            md = self._metadata(mod, self._kw(e, "metadata"))
            pipe, ts = self._pipeline(mod, self._kw(e, "transformer"))
            det, rule_text, rule_node = self._detector(mod, self._kw(e, "detector"))
            origin = self._class_origin(fq)
            kind = self._class_kind(fq)
            name = md.get("name")
            if not (name and origin and kind):
                raise AnalysisError(f"registry: cannot interpret {mod.name}.{var} (name={name}, origin={origin}, kind={kind})")
            rr = self._kw(e, "requested_rules")
            requested = self.const_list(mod, rr) if rr is not None else None
            return Codemod(
                id=f"{origin}:python/{name}", name=name, origin=origin, kind=kind, where=where, module=mod.name, var=var,
                transformers=ts, pipeline=pipe, detector=det, rule_text=rule_text, rule_node=rule_node,
                tool_name=md.get("tool_name"), rule_ids=md.get("rule_ids"), requested_rules=requested,
                summary=md.get("summary") if md.get("summary_present") else "",
                has_inline_description=bool(md.get("inline_description")), form="constructor",
                default_extensions=self.const_list(mod, self._kw(e, "default_extensions")),
            )
        raise AnalysisError(f"registry: {mod.name}.{var} = {fq}(...) is not a recognised codemod definition form")

    # ------------------------------------------------------------- collections
    def build(self):
        mod = self.prog.module(COLLECTIONS_MODULE)
        n_coll = 0
        for var, e in mod.constants.items():
            if isinstance(e, ast.Call) and last_attr(e.func) == "CodemodCollection":
                n_coll += 1
                origin = self.const_str(mod, self._kw(e, "origin"))
                lst = self._kw(e, "codemods")
                if not isinstance(lst, (ast.List, ast.Tuple)):
                    raise AnalysisError(f"registry: collection {var} has a non-literal codemod list")
                for el in lst.elts:
                    d = dotted_name(el)
                    if d is None:
                        raise AnalysisError(f"registry: collection {var} contains a non-name entry {unparse(el)}")
                    cm = self.resolve(mod, d)
                    if cm.origin != origin:
                        raise AnalysisError(f"registry: {cm.id} is listed in collection {var} of origin {origin}")
                    self.codemods.append(cm)
        if n_coll < 4:
            raise AnalysisError(f"registry: only {n_coll} CodemodCollection definitions found")
        if len(self.codemods) < EXPECTED_MIN:
            raise AnalysisError(f"registry: only {len(self.codemods)} codemods interpreted, {EXPECTED_MIN} confirmed by hand")
        ids = [c.id for c in self.codemods]
        if len(set(ids)) != len(ids):
            raise AnalysisError("registry: duplicate codemod ids")
        return self

    def by_id(self, cid: str) -> Codemod:
        for c in self.codemods:
            if c.id == cid:
                return c
        raise AnalysisError(f"registry: codemod {cid} vanished")

    def transformer_classes(self, kinds=("find-and-fix", "remediation")) -> dict[str, list[Codemod]]:
        out: dict[str, list[Codemod]] = {}
        for c in self.codemods:
            if c.kind in kinds:
                for t in c.transformers:
                    out.setdefault(t, []).append(c)
        return out


def build_registry(ctx) -> Registry:
    return Registry(ctx).build()
