"""Sensitivity sweep (thorough tier, optional depth): every evaluated rule instance is perturbed at its own location and the
property's rules are re-run on the in-memory variant.

For each instance of the quick run (file:line of the construct it judged) the statement on that line gets these variants:
  * the guard that encloses it is forced to `True` / forced to `False`   (guard removed / made unreachable)
  * the statement itself is deleted (if it is an expression statement or an assignment without later uses of interest)
  * the enclosing `try` loses its handlers' bodies (-> `raise`)           (failure isolation removed)
A variant is *killed* when the property's check reports something new (finding or fail-closed analysis error).  Survivors are
listed in the evidence: they are either equivalent for the property (cosmetic guards, logging) or blind spots of the rules —
the list is what a maintainer of the checker reads.  Nothing is written to disk; nothing of /repo is executed.
"""
from __future__ import annotations

import ast
import copy
import hashlib
import re
from concurrent.futures import ProcessPoolExecutor

from .model import REPO, SRC_SUBDIR, AnalysisError

MAX_VARIANTS = 160


def _parents(tree):
    pm = {}
    for p in ast.walk(tree):
        for c in ast.iter_child_nodes(p):
            pm[id(c)] = p
    return pm


def _stmt_at(tree, line: int):
    """Innermost statement starting at / spanning the line."""
    best = None
    for n in ast.walk(tree):
        if isinstance(n, ast.stmt) and n.lineno <= line <= getattr(n, "end_lineno", n.lineno):
            if isinstance(n, (ast.FunctionDef, ast.AsyncFunctionDef, ast.ClassDef)) and n.lineno != line:
                continue
            if best is None or (n.lineno >= best.lineno and getattr(n, "end_lineno", n.lineno) <= getattr(best, "end_lineno", best.lineno)):
                best = n
    return best


def variants_for(rel: str, text: str, line: int) -> list[tuple[str, str]]:
    """(label, new source text) for the statement at `line`."""
    out = []
    try:
        tree = ast.parse(text)
    except SyntaxError:
        return out
    st = _stmt_at(tree, line)
    if st is None or isinstance(st, (ast.FunctionDef, ast.AsyncFunctionDef, ast.ClassDef, ast.Import, ast.ImportFrom)):
        return out
    pm = _parents(tree)

    def render(mutator, label):
        t2 = copy.deepcopy(tree)
        st2 = _stmt_at(t2, line)
        pm2 = _parents(t2)
        if mutator(t2, st2, pm2):
            try:
                src = ast.unparse(ast.fix_missing_locations(t2))
                ast.parse(src)
            except Exception:
                return
            out.append((label, src))

    def enclosing(node, pmx, kinds):
        cur = pmx.get(id(node))
        while cur is not None and not isinstance(cur, (ast.FunctionDef, ast.AsyncFunctionDef, ast.ClassDef, ast.Module)):
            if isinstance(cur, kinds):
                return cur
            cur = pmx.get(id(cur))
        return None

    def force(value):
        def m(t2, st2, pm2):
            g = st2 if isinstance(st2, ast.If) else enclosing(st2, pm2, (ast.If,))
            if g is None:
                return False
            g.test = ast.Constant(value=value)
            return True
        return m

    def delete(t2, st2, pm2):
        if not isinstance(st2, (ast.Expr, ast.Assign, ast.AugAssign)):
            return False
        par = pm2.get(id(st2))
        for field in ("body", "orelse", "finalbody"):
            lst = getattr(par, field, None)
            if isinstance(lst, list) and st2 in lst:
                lst[lst.index(st2)] = ast.Pass()
                return True
        return False

    def unhandle(t2, st2, pm2):
        tr = st2 if isinstance(st2, ast.Try) else enclosing(st2, pm2, (ast.Try,))
        if tr is None or not tr.handlers:
            return False
        for h in tr.handlers:
            h.body = [ast.Raise()]
        return True

    render(force(True), "guard-forced-true")
    render(force(False), "guard-forced-false")
    render(delete, "statement-deleted")
    render(unhandle, "handlers-reraise")
    return out


def _run_variant(arg):
    pid, rel, label, line, src, baseline = arg
    from .run import run_property

    try:
        code, rep = run_property(pid, "quick", overlay={rel: src}, quiet=True, write=False)
    except AnalysisError as e:
        return (rel, line, label, "killed", f"analysis-error: {str(e)[:80]}")
    except Exception as e:  # a crash of the checker on a variant is a defect of the checker
        return (rel, line, label, "crash", f"{type(e).__name__}: {str(e)[:80]}")
    _, new = rep.split_known()
    new = [f for f in new if f.key not in baseline]
    if new:
        return (rel, line, label, "killed", new[0].key[:100])
    return (rel, line, label, "survived", "")


def sweep(pid: str, instances: list[dict], baseline_keys: set[str], jobs: int = 16, budget_s: float = 90.0, unit_cost_s: float = 2.0) -> dict:
    seen = set()
    jobs_list = []
    for inst in instances:
        w = inst.get("where", "")
        m = re.match(rf"{SRC_SUBDIR}/(.+\.py):(\d+)$", w)
        if not m:
            continue
        rel, line = m.group(1), int(m.group(2))
        if (rel, line) in seen:
            continue
        seen.add((rel, line))
        p = REPO / SRC_SUBDIR / rel
        if not p.exists():
            continue
        text = p.read_text(encoding="utf-8")
        for label, src in variants_for(rel, text, line):
            jobs_list.append((pid, rel, label, line, src, baseline_keys))
    # deterministic sample when there are too many
    jobs_list.sort(key=lambda j: hashlib.md5(f"{j[1]}:{j[3]}:{j[2]}".encode()).hexdigest())
    total = len(jobs_list)
    cap = max(8, min(MAX_VARIANTS, int(budget_s * jobs / max(unit_cost_s, 0.2) / 2)))
    jobs_list = jobs_list[:cap]
    results = []
    if jobs_list:
        with ProcessPoolExecutor(max_workers=jobs) as ex:
            results = list(ex.map(_run_variant, jobs_list, chunksize=2))
    killed = [r for r in results if r[3] == "killed"]
    survived = [r for r in results if r[3] == "survived"]
    crashed = [r for r in results if r[3] == "crash"]
    return {
        "sites": len(seen),
        "variants_generated": total,
        "variants_run": len(results),
        "killed": len(killed),
        "survived": len(survived),
        "crashed": len(crashed),
        "survivors": [f"{r[0]}:{r[1]} {r[2]}" for r in sorted(survived)][:80],
        "crashes": [f"{r[0]}:{r[1]} {r[2]} {r[4]}" for r in sorted(crashed)][:20],
    }
