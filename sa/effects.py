"""Edit-effect algebra of rule-detected codemods and the fixed-image prover (C07 / C18).

Effects are read off the body of `on_result_found` (and the helpers it calls inside the class family):
  SetKw(name, value, add_if_missing)   from NewArg(...) lists given to replace_args
  AppendKw(name, value)                from add_arg_to_call
  Retarget(target, func)               from update_call_target
  SetRhs(template)                     from update_assign_rhs / with_changes(value=cst.Name("lit"))
  ReplaceArgs(n, templates)            from update_arg_target(node, [explicit list])
  RenameAttr(new)                      from with_changes(func=... attr=cst.Name("lit"))
  WrapWith()                           with-item moved into a `with` (structure change)
Anything else makes the codemod 'not modelled' (listed, not judged).
"""
from __future__ import annotations

import ast
import re
from dataclasses import dataclass, field
from typing import Optional

from .model import FuncInfo, call_name, last_attr, unparse, walk_no_nested
from .semgrep_rules import Alternative, CallPat, parse_call
from .templates import HOLE, eval_templates


@dataclass
class Effect:
    kind: str
    name: str = ""
    value: str = ""
    add_if_missing: bool = True
    where: str = ""
    extra: dict = field(default_factory=dict)

    def __repr__(self):
        if self.kind == "SetKw":
            return f"SetKw({self.name}={self.value}{'' if self.add_if_missing else ', only-if-present'})"
        if self.kind == "AppendKw":
            return f"AppendKw({self.name}={self.value})"
        if self.kind == "Retarget":
            return f"Retarget({self.value}{'.' + self.name if self.name else ''})"
        return f"{self.kind}({self.name or self.value})"


def norm_lit(s: str) -> str:
    s = s.strip()
    if len(s) >= 2 and s[0] in "'\"" and s[-1] == s[0]:
        return '"' + s[1:-1] + '"'
    return s.replace(" ", "")


def _newargs_in(ctx, fn: FuncInfo, e: ast.AST, depth: int = 6) -> list[Effect]:
    """NewArg(...) constructions reachable from expression e (list literal, local, self-helper returning a list)."""
    out: list[Effect] = []
    if depth <= 0:
        return out
    r = ctx.resolver(fn)
    if isinstance(e, ast.Name):
        for n in walk_no_nested(fn.node):
            if isinstance(n, ast.Assign) and any(isinstance(t, ast.Name) and t.id == e.id for t in n.targets):
                out += _newargs_in(ctx, fn, n.value, depth - 1)
            if isinstance(n, ast.Call) and last_attr(n.func) in ("append", "extend") and isinstance(n.func, ast.Attribute) and unparse(n.func.value) == e.id and n.args:
                out += _newargs_in(ctx, fn, n.args[0], depth - 1)
        return out
    if isinstance(e, (ast.List, ast.Tuple)):
        # `[secure, httponly, samesite_lax]`: locals bound to NewArg(...) before the list is put together
        for el in e.elts:
            inner = el.value if isinstance(el, ast.Starred) else el
            if isinstance(inner, ast.Name):
                out += _newargs_in(ctx, fn, inner, depth - 1)
    for c in ast.walk(e):
        if isinstance(c, ast.Call) and (last_attr(c.func) == "NewArg"):
            kw = {k.arg: k.value for k in c.keywords}
            name = kw.get("name") or (c.args[0] if c.args else None)
            value = kw.get("value") or (c.args[1] if len(c.args) > 1 else None)
            aim = kw.get("add_if_missing") or (c.args[2] if len(c.args) > 2 else None)
            names = eval_templates(ctx, fn, name) if name is not None else [HOLE]
            values = eval_templates(ctx, fn, value) if value is not None else [HOLE]
            add = not (isinstance(aim, ast.Constant) and aim.value is False)
            for nm in names:
                for v in values:
                    out.append(Effect("SetKw", nm, v, add, fn.loc(c)))
        elif isinstance(c, ast.Call) and isinstance(c.func, ast.Attribute) and isinstance(c.func.value, ast.Name) and c.func.value.id == "self" and c is not e or (isinstance(c, ast.Call) and c is e and isinstance(c.func, ast.Attribute) and isinstance(c.func.value, ast.Name) and c.func.value.id == "self"):
            for t in r.resolve_call(c):
                if isinstance(t, FuncInfo) and last_attr(c.func) not in ("replace_args", "update_arg_target", "make_new_arg"):
                    for rn in walk_no_nested(t.node):
                        if isinstance(rn, ast.Return) and rn.value is not None:
                            out += _newargs_in(ctx, t, rn.value, depth - 1)
    return out


def extract_effects(ctx, tm, fn: FuncInfo, depth: int = 2) -> tuple[list[Effect], list[str]]:
    """(effects, unmodelled constructs) of a result hook."""
    effects: list[Effect] = []
    unmodelled: list[str] = []
    r = ctx.resolver(fn)
    for c in walk_no_nested(fn.node):
        if not isinstance(c, ast.Call):
            continue
        la = last_attr(c.func)
        if la == "replace_args" and len(c.args) >= 2:
            effects += _newargs_in(ctx, fn, c.args[1])
        elif la == "add_arg_to_call" and len(c.args) >= 3:
            for nm in eval_templates(ctx, fn, c.args[1]):
                for v in eval_templates(ctx, fn, c.args[2]):
                    effects.append(Effect("AppendKw", nm, v, True, fn.loc(c)))
        elif la == "update_call_target" and len(c.args) >= 2:
            nf = next((k.value for k in c.keywords if k.arg == "new_func"), c.args[2] if len(c.args) > 2 else None)
            for t in eval_templates(ctx, fn, c.args[1]):
                funcs = eval_templates(ctx, fn, nf) if nf is not None else [""]
                for f in funcs:
                    effects.append(Effect("Retarget", f, t, True, fn.loc(c)))
            ra = next((k.value for k in c.keywords if k.arg == "replacement_args"), None)
            if ra is not None:
                unmodelled.append("update_call_target(replacement_args=...)")
        elif la == "update_assign_rhs" and len(c.args) >= 2:
            for t in eval_templates(ctx, fn, c.args[1]):
                effects.append(Effect("SetRhs", "", t, True, fn.loc(c)))
        elif la == "update_arg_target" and len(c.args) >= 2:
            a = r.expand(c.args[1])
            lists = [a] if isinstance(a, (ast.List, ast.Tuple)) else []
            if isinstance(a, ast.Call) and isinstance(a.func, ast.Attribute) and isinstance(a.func.value, ast.Name) and a.func.value.id == "self":
                # the new argument list is chosen by a helper of the class: each of its answers is one path's list
                th = tm.effective(tm.cls_q, a.func.attr)
                if th is not None and not th.qname.startswith("codemodder.codemods."):
                    for rn in walk_no_nested(th.node):
                        if isinstance(rn, ast.Return) and rn.value is not None:
                            rv = ctx.resolver(th).expand(rn.value) if isinstance(rn.value, ast.Name) else rn.value
                            if isinstance(rv, ast.Call) and last_attr(rv.func) == "replace_args" and len(rv.args) >= 2:
                                effects += _newargs_in(ctx, th, rv.args[1])
                            elif isinstance(rv, (ast.List, ast.Tuple)) and not any(isinstance(x, ast.Starred) for x in rv.elts):
                                tmpls = []
                                for el in rv.elts:
                                    if isinstance(el, ast.Call) and last_attr(el.func) == "make_new_arg" and el.args:
                                        tmpls += eval_templates(ctx, th, el.args[0])
                                    else:
                                        tmpls.append(HOLE)
                                effects.append(Effect("ReplaceArgs", str(len(rv.elts)), ",".join(tmpls), True, th.loc(rn)))
            if isinstance(a, ast.Name):
                # re-assigned local: every list literal assigned to it is one path's argument list
                for n in walk_no_nested(fn.node):
                    if isinstance(n, ast.Assign) and any(isinstance(t, ast.Name) and t.id == a.id for t in n.targets) and isinstance(n.value, (ast.List, ast.Tuple)):
                        lists.append(n.value)
            for a in lists:
                if any(isinstance(x, ast.Starred) for x in a.elts):
                    # [*node.args, cst.Arg(keyword=cst.Name("k"), value=...)] : appended keyword arguments
                    for el in a.elts:
                        if isinstance(el, ast.Call) and unparse(el.func) in ("cst.Arg", "Arg"):
                            kw = {k.arg: k.value for k in el.keywords}
                            kn = kw.get("keyword")
                            if isinstance(kn, ast.Call) and kn.args:
                                vals = [HOLE]
                                v = kw.get("value")
                                if isinstance(v, ast.Call) and last_attr(v.func) in ("parse_expression", "SimpleString", "Name") and (v.args or v.keywords):
                                    vals = eval_templates(ctx, fn, v.args[0] if v.args else v.keywords[0].value)
                                for nm in eval_templates(ctx, fn, kn.args[0]):
                                    for vv in vals:
                                        effects.append(Effect("AppendKw", nm, vv, True, fn.loc(c)))
                    continue
                tmpls = []
                for el in a.elts:
                    if isinstance(el, ast.Call) and last_attr(el.func) == "make_new_arg" and el.args:
                        tmpls += eval_templates(ctx, fn, el.args[0])
                    elif isinstance(el, ast.Call) and unparse(el.func).startswith("cst.") and el.args:
                        tmpls += eval_templates(ctx, fn, el.args[0])
                    else:
                        tmpls.append(HOLE)
                effects.append(Effect("ReplaceArgs", str(len(a.elts)), ",".join(tmpls), True, fn.loc(c)))
            a = None
            if isinstance(a, (ast.List, ast.Tuple)) and not any(isinstance(x, ast.Starred) for x in a.elts):
                tmpls = []
                for el in a.elts:
                    if isinstance(el, ast.Call) and last_attr(el.func) == "make_new_arg" and el.args:
                        tmpls += eval_templates(ctx, fn, el.args[0])
                    elif isinstance(el, ast.Call) and unparse(el.func).startswith("cst.") and el.args:
                        tmpls += eval_templates(ctx, fn, el.args[0])
                    else:
                        tmpls.append(HOLE)
                effects.append(Effect("ReplaceArgs", str(len(a.elts)), ",".join(tmpls), True, fn.loc(c)))
        elif la == "with_changes" and isinstance(c.func, ast.Attribute):
            kws = {k.arg: k.value for k in c.keywords}
            if "value" in kws and isinstance(kws["value"], ast.Call) and unparse(kws["value"].func) in ("cst.Name",) :
                v = kws["value"].args[0] if kws["value"].args else next((k.value for k in kws["value"].keywords if k.arg == "value"), None)
                for t in eval_templates(ctx, fn, v):
                    effects.append(Effect("SetRhs", "", t, True, fn.loc(c)))
            if "attr" in kws:
                v = r.expand(kws["attr"])
                if isinstance(v, ast.Call) and unparse(v.func) == "cst.Name":
                    a0 = v.args[0] if v.args else next((k.value for k in v.keywords if k.arg == "value"), None)
                    for t in eval_templates(ctx, fn, a0):
                        effects.append(Effect("RenameAttr", t, "", True, fn.loc(c)))
            if "func" in kws and not isinstance(kws["func"], ast.Call):
                v = r.expand(kws["func"])
                if isinstance(v, ast.Call) and unparse(v.func) == "cst.Name":
                    a0 = v.args[0] if v.args else next((k.value for k in v.keywords if k.arg == "value"), None)
                    for t in eval_templates(ctx, fn, a0):
                        effects.append(Effect("RenameAttr", t, "", True, fn.loc(c)))
            if "args" in kws and not any(x in unparse(kws["args"]) for x in ("new_args",)):
                pass
        elif isinstance(c.func, ast.Attribute) and isinstance(c.func.value, ast.Name) and c.func.value.id == "self" and depth > 0:
            t = tm.effective(tm.cls_q, la)
            if t is not None and t.qname != fn.qname and not t.qname.startswith("codemodder.codemods.libcst_transformer.") and not t.qname.startswith("codemodder.codemods.base_visitor.") and not t.qname.startswith("codemodder.codemods.utils_mixin."):
                e2, u2 = extract_effects(ctx, tm, t, depth - 1)
                effects += e2
                unmodelled += u2
    return effects, unmodelled


# ---------------------------------------------------------------------------------------------- prover
# callables whose signature bounds the arity (stdlib facts used as assumptions, echoed in evidence)
SIGNATURE_ARITY = {"ssl.SSLContext": 1}


def _concrete(text: str) -> bool:
    return "$" not in text and "..." not in text


def _callee_root(callee: str) -> str:
    return callee.split(".")[0].split("(")[0]


def defeated(alt: Alternative, effects: list[Effect]) -> Optional[str]:
    """Reason why the rewritten code cannot be reported by this alternative; None if no proof."""
    pos_calls = [parse_call(p) for p in alt.positives]
    neg_calls = [parse_call(p) for p in alt.negatives]
    set_kw = {e.name: e for e in effects if e.kind in ("SetKw", "AppendKw")}
    guaranteed_kw = {e.name: e for e in effects if (e.kind == "SetKw" and e.add_if_missing) or e.kind == "AppendKw"}
    retargets = [e for e in effects if e.kind == "Retarget"]
    replace_all = [e for e in effects if e.kind == "ReplaceArgs"]
    setrhs = [e for e in effects if e.kind == "SetRhs"]
    renames = [e for e in effects if e.kind == "RenameAttr"]

    for P in pos_calls:
        if P is None:
            continue
        # (1) callee retargeted away from the pattern's module
        if retargets and all(
            _callee_root(e.value) != _callee_root(P.callee) and not _callee_root(P.callee).startswith("$") and HOLE not in e.value.split(".")[0]
            for e in retargets
        ):
            return f"callee becomes `{retargets[0].value}.…`, which `{P.callee}(…)` cannot match"
        # (1b) attribute renamed
        last = P.callee.split(".")[-1]
        if renames and not last.startswith("$") and all(e.name != last for e in renames):
            return f"attribute `{last}` is renamed to `{renames[0].name}`"
        # (2) a keyword the pattern requires with a concrete value is set to another value
        for a in P.args:
            if a.kind == "kw" and _concrete(a.text) and a.name in set_kw:
                e = set_kw[a.name]
                if HOLE not in e.value and norm_lit(e.value) != norm_lit(a.text):
                    return f"pattern requires `{a.name}={a.text}` but the fix sets `{a.name}={e.value}`"
        # (4) zero-argument pattern vs. an edit that guarantees an argument
        if not P.args and (guaranteed_kw or any(int(e.name) > 0 for e in replace_all)):
            return "pattern matches only the zero-argument call; the fix adds an argument"
        # (5) all arguments replaced by templates that do not contain the pattern's concrete positional value
        conc_pos = [a for a in P.args if a.kind == "pos" and _concrete(a.text)]
        single_param = SIGNATURE_ARITY.get(P.callee) == 1  # a positional argument is then the only argument: ReplaceArgs path
        if conc_pos and replace_all and all(all(norm_lit(cp.text) not in [norm_lit(x) for x in e.value.split(",")] for cp in conc_pos) for e in replace_all) and (not set_kw or single_param):
            return f"arguments are replaced by `{replace_all[0].value}`, which does not contain `{conc_pos[0].text}`"
    # (3) a pattern-not is entailed by what the fix guarantees
    for N in neg_calls:
        if N is None:
            continue
        if not any(P is not None and (P.callee == N.callee) for P in pos_calls):
            continue
        ok = True
        need = 0
        for a in N.args:
            if a.kind == "ellipsis":
                continue
            if a.kind == "kw":
                need += 1
                e = guaranteed_kw.get(a.name)
                if e is None:
                    ok = False
                    break
                if _concrete(a.text) and not (HOLE not in e.value and norm_lit(e.value) == norm_lit(a.text)):
                    ok = False
                    break
            else:
                ok = False
                break
        if ok and need:
            return f"the fix guarantees what `pattern-not: {N.raw}` describes"
    # assignments: `X = <concrete>` vs SetRhs
    for p in alt.positives:
        m = re.match(r"^\s*([\w$.]+)\s*=\s*(.+)$", p.strip())
        if m and "(" not in m.group(1) and setrhs:
            rhs = m.group(2).strip()
            if "$" in rhs:
                # metavariable restricted by metavariable-pattern
                mv = re.findall(r"\$\w+", rhs)
                allowed = [x for v in mv for x in alt.metavar_patterns.get(v, [])]
                if allowed and all(all(a.strip() not in e.value.split(".")[-1:] and a.strip() != e.value for a in allowed) for e in setrhs):
                    return f"right-hand side becomes `{setrhs[0].value}`, outside the values {allowed} the rule reports"
            elif all(norm_lit(e.value) != norm_lit(rhs) for e in setrhs):
                return f"right-hand side becomes `{setrhs[0].value}`, the pattern requires `{rhs}`"
    return None
