"""E5: intra-procedural provenance — the *root value* of an expression.

root(expr) strips a fixed list of value-preserving wrappers, follows single-assignment locals,
`with open(P) as f` handles, and inlines simple helper methods (`self._parse_file()`), giving a
canonical text for "where this value comes from".
"""
from __future__ import annotations

import ast
from typing import Optional

from .model import FuncInfo, call_name, dotted_name, last_attr, unparse, walk_no_nested

# method wrappers: x.<m>(...) has the same content as x
VALUE_METHODS = {
    "splitlines", "split", "encode", "decode", "copy", "strip", "rstrip", "lstrip", "readlines", "read",
    "read_bytes", "read_text", "deep_clone", "with_changes",
}
VALUE_ATTRS = {"code", "module"}
# function wrappers: f(x, ...) has the same content as x (first argument)
VALUE_FUNCS = {
    "str", "list", "tuple", "bytes", "sorted", "deepcopy", "copy.deepcopy", "copy.copy", "tomlkit.dumps", "tomlkit.load",
    "tomlkit.parse", "libcst.parse_module", "cst.parse_module", "json.load", "json.loads", "iter",
    "codemodder.diff.split_lines",  # the repository's own line splitter: same content, as a list of lines
}
CACHE_DECOS = ("cache", "lru_cache", "cached_property")


def is_cached(fn: FuncInfo) -> bool:
    return any(d.split("(")[0].split(".")[-1] in CACHE_DECOS for d in fn.decorators())


class Prov:
    def __init__(self, ctx, fn: FuncInfo):
        self.ctx = ctx
        self.fn = fn
        self.r = ctx.resolver(fn)
        self._with_handles: dict[str, ast.expr] | None = None

    def with_handles(self) -> dict[str, ast.expr]:
        if self._with_handles is None:
            self._with_handles = {}
            for n in walk_no_nested(self.fn.node):
                if isinstance(n, (ast.With, ast.AsyncWith)):
                    for it in n.items:
                        if isinstance(it.optional_vars, ast.Name):
                            self._with_handles[it.optional_vars.id] = it.context_expr
        return self._with_handles

    def _enclosing_with_item(self, name_node: ast.Name) -> Optional[ast.expr]:
        pm = self.ctx.parents(self.fn)
        cur = pm.get(id(name_node))
        while cur is not None:
            if isinstance(cur, (ast.With, ast.AsyncWith)):
                for it in cur.items:
                    if isinstance(it.optional_vars, ast.Name) and it.optional_vars.id == name_node.id:
                        return it.context_expr
            cur = pm.get(id(cur))
        return None

    def root(self, e: ast.expr, depth: int = 16, inline: int = 2) -> ast.expr:
        """Strip wrappers / follow definitions until a non-reducible expression is reached."""
        while depth > 0:
            depth -= 1
            if isinstance(e, ast.NamedExpr):
                e = e.value
                continue
            if isinstance(e, ast.Name):
                sa = self.r.single_assignments()
                if e.id in sa:
                    e = sa[e.id]
                    continue
                wh = self.with_handles()
                if e.id in wh and self.r._assign_counts.get(e.id, 0) == 1:
                    e = wh[e.id]
                    continue
                if e.id in wh:
                    enc = self._enclosing_with_item(e)
                    if enc is not None:
                        e = enc
                        continue
                return e
            if isinstance(e, ast.Attribute) and e.attr in VALUE_ATTRS:
                e = e.value
                continue
            if isinstance(e, ast.Call):
                f = e.func
                q = self.r.callee_qname(e) if dotted_name(f) else None
                if isinstance(f, ast.Attribute) and f.attr == "join" and e.args and isinstance(f.value, ast.Constant):
                    e = e.args[0]
                    continue
                if q in VALUE_FUNCS or (q or "").split(".")[-1] in ("deepcopy", "parse_module"):
                    if e.args:
                        e = e.args[0]
                        continue
                if q in ("open", "io.open") and e.args:
                    # an open handle stands for the path it opens
                    e = e.args[0]
                    continue
                if isinstance(f, ast.Attribute) and f.attr in VALUE_METHODS:
                    e = f.value
                    continue
                # helper inlining: self._x() -> its single return expression
                if inline > 0:
                    targets = [t for t in self.r.resolve_call(e) if isinstance(t, FuncInfo)]
                    if len(targets) == 1 and not is_cached(targets[0]):
                        t = targets[0]
                        rets = [n for n in walk_no_nested(t.node) if isinstance(n, ast.Return) and n.value is not None]
                        non_none = [x for x in rets if not (isinstance(x.value, ast.Constant) and x.value.value is None)]
                        if len(non_none) == 1 and t.cls is not None and self.fn.cls is not None:
                            sub = Prov(self.ctx, t).root(non_none[0].value, depth, inline - 1)
                            # only self-rooted results are meaningful across the call boundary
                            if "self" in {n.id for n in ast.walk(sub) if isinstance(n, ast.Name)} or not any(
                                isinstance(n, ast.Name) for n in ast.walk(sub)
                            ):
                                return sub
                        elif len(non_none) == 1 and t.cls is None:
                            # module-level value helper (`read_lines(path)`): root its result inside the helper; if that is one of
                            # the helper's parameters (possibly behind an attribute chain), continue with the caller's argument
                            sub = Prov(self.ctx, t).root(non_none[0].value, depth, inline - 1)
                            base = sub
                            while isinstance(base, ast.Attribute):
                                base = base.value
                            if isinstance(base, ast.Name) and base.id in t.params():
                                from .model import bind_args

                                arg = bind_args(e, t, False).get(base.id)
                                if arg is not None:
                                    from .derive import subst

                                    e = subst(sub, {base.id: arg})
                                    inline -= 1
                                    continue
                return e
            return e
        return e

    def root_text(self, e: ast.expr) -> str:
        return unparse(self.root(e))
