"""E4: structured must-dataflow interpreter over one function body.

State = (must, may)
  must : frozenset of facts (polarity, text) that hold on EVERY path from entry
  may  : frozenset of event names that happened on SOME path from entry
A fact is a branch condition atom with its truth value, e.g. (False, 'context.dry_run');
events are rule-defined markers added when a matching call is evaluated ('EV:write').
Events are tracked both ways: (True, 'EV:x') in must => happened on all paths;
'EV:x' not in may => happened on no path.

Python's control flow is structured, so joins are set intersections at if/try/match merges,
loop heads are iterated to a fixpoint, and return/raise/break/continue are explicit exits.
"""
from __future__ import annotations

import ast
import re
from dataclasses import dataclass, field
from typing import Callable, Optional

from .model import names_in, unparse

Fact = tuple[bool, str]


# Calls whose *having answered true* matters later even if the variables they were asked about are rebound (gate predicates of
# transformer hooks: "this node passed the line filter").  A positive fact on such a call also leaves the event `EV:GATE:<name>`,
# which -- like every event -- survives assignments.  Filled by sa/hooks.py.
STICKY_CALLS: set[str] = set()
_STICKY_CACHE: dict = {}


def _sticky_event(pol: bool, txt: str) -> Optional[str]:
    if not pol or txt.startswith(("EV:", "MATCH:", "ITER:")):
        return None
    hit = _STICKY_CACHE.get(txt, 0)
    if hit != 0:
        return hit
    ev = None
    if any(nm in txt for nm in STICKY_CALLS):
        try:
            e = ast.parse(txt, mode="eval").body
            if isinstance(e, ast.Call) and isinstance(e.func, ast.Attribute) and e.func.attr in STICKY_CALLS:
                ev = f"EV:GATE:{e.func.attr}"
        except SyntaxError:
            ev = None
    _STICKY_CACHE[txt] = ev
    return ev


MAX_PARTS = 16  # trace partitioning: a state is a small set of alternatives (must, may); beyond this they are merged


class State:
    """Disjunction of at most MAX_PARTS alternatives, each a pair (must facts, may events).

    `.must` (facts common to all alternatives) and `.may` (events of any alternative) give the classic view; keeping the
    alternatives apart lets a later test discard the ones it contradicts (e.g. `x = None` in a handler followed by
    `if x is None: return None`), which a plain intersection would forget."""

    __slots__ = ("parts", "_must", "_may")

    def __init__(self, must=None, may=None, parts=None):
        if parts is None:
            parts = frozenset({(frozenset(must or ()), frozenset(may or ()))})
        self.parts = parts
        self._must = None
        self._may = None

    @property
    def must(self) -> frozenset:
        if self._must is None:
            it = iter(self.parts)
            m = next(it)[0]
            for p in it:
                m = m & p[0]
            self._must = m
        return self._must

    @property
    def may(self) -> frozenset:
        if self._may is None:
            m = frozenset()
            for p in self.parts:
                m = m | p[1]
            self._may = m
        return self._may

    def __eq__(self, other):
        return isinstance(other, State) and other.parts == self.parts

    def __hash__(self):
        return hash(self.parts)

    def add(self, facts) -> Optional["State"]:
        """Add facts; alternatives they contradict are dropped; None if none is left (branch infeasible)."""
        facts = _closure(facts)
        if STICKY_CALLS:
            facts = facts + [(True, ev) for ev in (_sticky_event(pol, txt) for pol, txt in facts) if ev]
        out = set()
        for must, may in self.parts:
            m = set(must)
            ok = True
            for pol, txt in facts:
                if (not pol, txt) in m:
                    ok = False
                    break
                m.add((pol, txt))
            if ok:
                out.add((frozenset(m), may))
        return State(parts=frozenset(out)) if out else None

    def event(self, name: str) -> "State":
        return State(parts=frozenset((must | {(True, name)}, may | {name}) for must, may in self.parts))

    def with_extra(self, must_extra=frozenset(), may_extra=frozenset()) -> "State":
        return State(parts=frozenset((must | must_extra, may | may_extra) for must, may in self.parts))

    def kill_names(self, names: set[str], cache: dict) -> "State":
        if not names:
            return self
        out = set()
        for must, may in self.parts:
            keep = []
            for f in must:
                txt = f[1]
                ns = cache.get(txt)
                if ns is None:
                    try:
                        if txt.startswith("ITER:"):
                            ns = names_in(ast.parse(txt.split(":", 2)[1], mode="eval"))
                        elif txt.startswith(("EV:", "MATCH:")):
                            ns = set()
                        else:
                            ns = names_in(ast.parse(txt, mode="eval"))
                    except SyntaxError:
                        ns = set()
                    cache[txt] = ns
                if ns & names:
                    continue
                keep.append(f)
            out.add((frozenset(keep), may))
        return State(parts=frozenset(out))

    def collapsed(self) -> "State":
        """One alternative: common facts (+ one composite disjunction where two sides differ), all events."""
        if len(self.parts) == 1:
            return self
        ps = sorted(self.parts, key=lambda p: (sorted(p[0]), sorted(p[1])))
        must, may = ps[0]
        for m2, y2 in ps[1:]:
            common = must & m2
            disj = _disjunction(must - common, m2 - common)
            must = common | disj if disj else common
            may = may | y2
        return State(must, may)


_IDENT = re.compile(r"^[A-Za-z_][A-Za-z_0-9.]*$")


def _closure(facts):
    """truthy(x) => x is not None;  x is None => falsy(x)   (x a plain name / attribute chain)"""
    out = list(facts)
    for pol, txt in list(out):
        if pol and _IDENT.match(txt):
            out.append((False, f"{txt} is None"))
        elif pol and txt.endswith(" is None") and _IDENT.match(txt[:-8]):
            out.append((False, txt[:-8]))
    return out


def join(states: list[Optional["State"]], collapse: bool = False) -> Optional["State"]:
    live = [s for s in states if s is not None]
    if not live:
        return None
    parts = set()
    for s in live:
        parts |= s.parts
    # an alternative subsumed by a weaker one with the same events adds nothing
    st = State(parts=frozenset(parts))
    if collapse or len(parts) > MAX_PARTS:
        return st.collapsed()
    return st


def _plain(fact) -> bool:
    txt = fact[1]
    return not txt.startswith(("EV:", "MATCH:", "ITER:")) and " or " not in txt and len(txt) < 80


_DISJ_CACHE: dict = {}


def _disjunction(a: frozenset, b: frozenset) -> frozenset:
    """What survives a join beyond the common facts: `(facts only on one side) or (facts only on the other)`, kept as one
    composite fact so that guards split over nested ifs / early returns stay decidable (sa/logic.py evaluates it)."""
    if not a or not b:
        return frozenset()
    key = (a, b)
    hit = _DISJ_CACHE.get(key)
    if hit is not None:
        return hit
    pa = sorted(f for f in a if _plain(f))
    pb = sorted(f for f in b if _plain(f))
    out = frozenset()
    if pa and pb and len(pa) <= 3 and len(pb) <= 3:
        def conj(fs):
            return " and ".join(("(" + t + ")") if pol else ("(not (" + t + "))") for pol, t in fs)

        sides = sorted(["(" + conj(pa) + ")", "(" + conj(pb) + ")"])
        try:
            txt = unparse(ast.parse(" or ".join(sides), mode="eval").body)
            out = frozenset({(True, txt)})
        except SyntaxError:
            out = frozenset()
    _DISJ_CACHE[key] = out
    return out


@dataclass
class Exit:
    kind: str  # 'return' | 'raise' | 'end'
    node: Optional[ast.AST]
    state: State

    @property
    def value(self) -> Optional[ast.expr]:
        return getattr(self.node, "value", None) if isinstance(self.node, ast.Return) else None


def cond_facts(expr: ast.expr, truth: bool) -> set[Fact]:
    """Facts established when `expr` evaluates to `truth` (boolean normalisation)."""
    if isinstance(expr, ast.UnaryOp) and isinstance(expr.op, ast.Not):
        return cond_facts(expr.operand, not truth)
    if isinstance(expr, ast.BoolOp):
        is_and = isinstance(expr.op, ast.And)
        if is_and == truth:  # and/True , or/False : every operand has that value
            out: set[Fact] = set()
            for v in expr.values:
                out |= cond_facts(v, truth)
            return out
        # and/False , or/True : at least one operand; facts common to all alternatives
        sets = [cond_facts(v, truth) for v in expr.values]
        out = sets[0]
        for s in sets[1:]:
            out = out & s
        out = set(out)
        # keep the disjunction itself as a composite fact: role-level rules can intersect the alternatives' roles
        out.add((truth, unparse(expr)))
        return out
    if isinstance(expr, ast.NamedExpr):
        out = cond_facts(expr.value, truth)
        out.add((truth, expr.target.id))
        return out
    if isinstance(expr, ast.Compare) and len(expr.ops) == 1:
        op = expr.ops[0]
        neg = {ast.IsNot: ast.Is, ast.NotEq: ast.Eq, ast.NotIn: ast.In}
        for k, v in neg.items():
            if isinstance(op, k):
                pos = ast.Compare(left=expr.left, ops=[v()], comparators=expr.comparators)
                return cond_facts(pos, not truth)
        out = {(truth, unparse(expr))}
        # walrus on the left: `(x := f()) is not None`
        if isinstance(expr.left, ast.NamedExpr):
            inner = ast.Compare(left=ast.Name(id=expr.left.target.id, ctx=ast.Load()), ops=expr.ops, comparators=expr.comparators)
            out |= cond_facts(inner, truth)
            if isinstance(expr.left.value, ast.Name):  # `(x := y) is None` also speaks about y
                inner2 = ast.Compare(left=expr.left.value, ops=expr.ops, comparators=expr.comparators)
                out |= cond_facts(inner2, truth)
        return out
    if isinstance(expr, ast.Constant):
        return set()
    return {(truth, unparse(expr))}


def value_facts(target: ast.AST, value: ast.expr, st: "State") -> set[Fact]:
    """Facts about a local right after `target = value` (None-ness and truthiness of literals; copied from a plain name)."""
    if not isinstance(target, ast.Name):
        return set()
    x = target.id
    if isinstance(value, ast.Constant):
        if value.value is None:
            return {(True, f"{x} is None"), (False, x)}
        return {(False, f"{x} is None"), (bool(value.value), x)}
    if isinstance(value, ast.Tuple):
        return {(False, f"{x} is None"), (bool(value.elts), x)}
    if isinstance(value, (ast.List, ast.Set, ast.Dict)):
        return {(False, f"{x} is None")}  # mutable: emptiness changes without an assignment (append/update)
    if isinstance(value, (ast.ListComp, ast.SetComp, ast.DictComp, ast.GeneratorExp, ast.JoinedStr, ast.Lambda)):
        return {(False, f"{x} is None")}
    if isinstance(value, ast.Call):
        f = value.func
        nm = f.id if isinstance(f, ast.Name) else (f.attr if isinstance(f, ast.Attribute) else "")
        if nm[:1].isupper():  # constructor call (PEP 8 class name): the result is an object, never None
            return {(False, f"{x} is None")}
        return set()
    if isinstance(value, ast.BoolOp) and isinstance(value.op, ast.Or) and len(value.values) == 2:
        # `x = A or B`: with A known falsy x is B, with A known truthy x is A (equalities a later `x == B` test can be decided by)
        a, b = value.values
        ta = unparse(a)
        if (False, ta) in st.must and isinstance(b, (ast.Name, ast.Attribute, ast.Constant)) and x not in names_in(b):
            return {(True, f"{x} == {unparse(b)}")}
        if (True, ta) in st.must and isinstance(a, (ast.Name, ast.Attribute)) and x not in names_in(a):
            return {(True, f"{x} == {ta}")}
        return set()
    if isinstance(value, ast.Name) and value.id != x:
        out = set()
        for pol, txt in st.must:
            if txt == f"{value.id} is None":
                out.add((pol, f"{x} is None"))
            elif txt == value.id:
                out.add((pol, x))
        return out
    return set()


def _non_optional_annotation(ann: ast.expr) -> bool:
    txt = unparse(ann)
    if isinstance(ann, ast.Constant) and isinstance(ann.value, str):
        txt = ann.value
    return not any(w in txt for w in ("Optional", "None", "Any", "object")) and txt not in ("", "T")


def const_truth(expr: ast.expr) -> Optional[bool]:
    if isinstance(expr, ast.Constant):
        return bool(expr.value)
    return None


class FlowAnalysis:
    """Run the interpreter over a function (or a statement list).

    event_of(call_node) -> event name or None   : marks events
    after the run:
      facts_at[id(node)] -> State at evaluation of node (all expression and statement nodes)
      exits -> list[Exit]
    """

    def __init__(
        self,
        fn_node: ast.AST,
        event_of: Callable[[ast.Call], Optional[str]] | None = None,
        entry: frozenset | set | None = None,
        body: list[ast.stmt] | None = None,
        node_event: Callable[[ast.AST], Optional[str]] | None = None,
        assume_only_once_bound: frozenset | set | None = None,
    ):
        self.fn_node = fn_node
        self.event_of = event_of
        self.node_event = node_event  # events for non-call nodes (currently: entry of an except handler)
        self.facts_at: dict[int, State] = {}
        self.exits: list[Exit] = []
        self._kill_cache: dict = {}
        # assumptions about values computed later in the function (the condition a template alternative arises under): their names are
        # bound once, so the binding itself must not erase what is assumed about the value it will have
        for _pol, _txt in (assume_only_once_bound or ()):
            self._kill_cache[_txt] = set()
        self._loop_stack: list[dict] = []
        self._try_stack: list[list[Optional[State]]] = []
        st = State(frozenset(entry or ()), frozenset())
        stmts = body if body is not None else getattr(fn_node, "body", [])
        end = self._block(stmts, st)
        if end is not None:
            self.exits.append(Exit("end", None, end))

    # ---------------------------------------------------------------- queries
    def state_at(self, node: ast.AST) -> Optional[State]:
        return self.facts_at.get(id(node))

    def must_at(self, node: ast.AST) -> frozenset:
        s = self.facts_at.get(id(node))
        return s.must if s is not None else frozenset()

    def reachable(self, node: ast.AST) -> bool:
        return id(node) in self.facts_at

    # ---------------------------------------------------------------- recording
    def _rec(self, node: ast.AST, st: State):
        old = self.facts_at.get(id(node))
        self.facts_at[id(node)] = st if old is None else join([old, st])
        if self._try_stack:
            for frame in self._try_stack:
                frame.append(st)

    # ---------------------------------------------------------------- expressions
    def _expr(self, e: ast.AST | None, st: Optional[State]) -> Optional[State]:
        """Evaluate expression e in state st (record facts; apply events); return state after."""
        if e is None or st is None:
            return st
        if not isinstance(e, ast.Call):
            self._rec(e, st)
        if isinstance(e, ast.BoolOp):
            is_and = isinstance(e.op, ast.And)
            cur: Optional[State] = st
            outs = []
            for v in e.values:
                if cur is None:
                    break
                after = self._expr(v, cur)
                if after is None:
                    cur = None
                    break
                # short-circuit exit with this operand deciding
                outs.append(after)
                cur = after.add(cond_facts(v, is_and))
            # state after the BoolOp: join of short-circuit exits (imprecise about facts on purpose)
            return join(outs) if outs else None
        if isinstance(e, ast.IfExp):
            t = self._expr(e.test, st)
            if t is None:
                return None
            a = self._expr(e.body, t.add(cond_facts(e.test, True)))
            b = self._expr(e.orelse, t.add(cond_facts(e.test, False)))
            return join([a, b])
        if isinstance(e, (ast.ListComp, ast.SetComp, ast.GeneratorExp, ast.DictComp)):
            cur = st
            for gen in e.generators:
                cur = self._expr(gen.iter, cur)
                if cur is None:
                    return None
                cur = cur.kill_names(names_in(gen.target), self._kill_cache)
                for c in gen.ifs:
                    cur = self._expr(c, cur)
                    if cur is None:
                        return None
                    cur = cur.add(cond_facts(c, True))
                    if cur is None:
                        return st
            if isinstance(e, ast.DictComp):
                self._expr(e.key, cur)
                self._expr(e.value, cur)
            else:
                self._expr(e.elt, cur)
            # the body may run zero times: state after = state before (+ may-events from inside)
            inner = cur
            return st.with_extra(may_extra=inner.may) if inner is not None else st
        if isinstance(e, ast.Lambda):
            # body evaluated later; record with current facts but do not propagate
            self._expr(e.body, st)
            return st
        if isinstance(e, ast.NamedExpr):
            after = self._expr(e.value, st)
            if after is None:
                return None
            return after.kill_names({e.target.id}, self._kill_cache)
        if isinstance(e, ast.Call):
            cur = self._expr(e.func, st)
            for a in e.args:
                cur = self._expr(a.value if isinstance(a, ast.Starred) else a, cur)
            for k in e.keywords:
                cur = self._expr(k.value, cur)
            if cur is None:
                return None
            self._rec(e, cur)  # facts at the moment of the call (arguments already evaluated)
            if self.event_of is not None:
                ev = self.event_of(e)
                if ev:
                    for name in ([ev] if isinstance(ev, str) else ev):
                        cur = cur.event(name)
            return cur
        cur = st
        for child in ast.iter_child_nodes(e):
            if isinstance(child, (ast.expr_context, ast.operator, ast.unaryop, ast.cmpop, ast.boolop)):
                continue
            if isinstance(child, ast.comprehension):
                continue
            if isinstance(child, ast.keyword):
                cur = self._expr(child.value, cur)
                continue
            if isinstance(child, ast.FormattedValue) or isinstance(child, ast.expr):
                cur = self._expr(child, cur)
            if cur is None:
                return None
        return cur

    # ---------------------------------------------------------------- statements
    def _block(self, stmts: list[ast.stmt], st: Optional[State]) -> Optional[State]:
        for s in stmts:
            if st is None:
                return None
            st = self._stmt(s, st)
        return st

    def _assign_kill(self, targets: list[ast.AST], st: State) -> State:
        ns: set[str] = set()
        for t in targets:
            if isinstance(t, ast.Name):
                ns.add(t.id)
            elif isinstance(t, (ast.Tuple, ast.List, ast.Starred)):
                ns |= names_in(t)
        return st.kill_names(ns, self._kill_cache)

    def _stmt(self, s: ast.stmt, st: State) -> Optional[State]:
        self._rec(s, st)
        if isinstance(s, ast.Expr):
            return self._expr(s.value, st)
        if isinstance(s, ast.Assign):
            cur = self._expr(s.value, st)
            if cur is None:
                return None
            for t in s.targets:
                if not isinstance(t, ast.Name):
                    cur = self._expr(t, cur)
            if cur is None:
                return None
            vf = value_facts(s.targets[0], s.value, cur) if len(s.targets) == 1 else set()
            cur = self._assign_kill(s.targets, cur)
            return cur.add(vf) if vf else cur
        if isinstance(s, ast.AnnAssign):
            cur = self._expr(s.value, st) if s.value is not None else st
            if cur is None:
                return None
            vf = value_facts(s.target, s.value, cur) if s.value is not None else set()
            if s.value is not None and isinstance(s.target, ast.Name) and _non_optional_annotation(s.annotation):
                vf = set(vf) | {(False, f"{s.target.id} is None")}  # declared non-Optional: taken at its word
            cur = self._assign_kill([s.target], cur)
            return cur.add(vf) if vf else cur
        if isinstance(s, ast.AugAssign):
            cur = self._expr(s.value, st)
            if cur is not None and not isinstance(s.target, ast.Name):
                cur = self._expr(s.target, cur)
            return self._assign_kill([s.target], cur) if cur else None
        if isinstance(s, ast.Delete):
            return self._assign_kill(list(s.targets), st)
        if isinstance(s, ast.Return):
            cur = self._expr(s.value, st) if s.value is not None else st
            if cur is not None:
                self.exits.append(Exit("return", s, cur))
            return None
        if isinstance(s, ast.Raise):
            cur = self._expr(s.exc, st) if s.exc is not None else st
            if cur is not None:
                self.exits.append(Exit("raise", s, cur))
                # a raise inside try may be caught: handler entry sees this state (recorded via _rec)
            return None
        if isinstance(s, ast.Assert):
            cur = self._expr(s.test, st)
            return cur.add(cond_facts(s.test, True)) if cur else None
        if isinstance(s, ast.If):
            cur = self._expr(s.test, st)
            if cur is None:
                return None
            ct = const_truth(s.test)
            t_state = cur.add(cond_facts(s.test, True)) if ct is not False else None
            f_state = cur.add(cond_facts(s.test, False)) if ct is not True else None
            a = self._block(s.body, t_state)
            b = self._block(s.orelse, f_state)
            return join([a, b])
        if isinstance(s, (ast.For, ast.AsyncFor)):
            cur = self._expr(s.iter, st)
            if cur is None:
                return None
            return self._loop(s, cur, test=None, target=s.target)
        if isinstance(s, ast.While):
            return self._loop(s, st, test=s.test, target=None)
        if isinstance(s, (ast.With, ast.AsyncWith)):
            cur: Optional[State] = st
            for it in s.items:
                cur = self._expr(it.context_expr, cur)
                if cur is None:
                    return None
                if it.optional_vars is not None:
                    cur = self._assign_kill([it.optional_vars], cur)
            return self._block(s.body, cur)
        if isinstance(s, ast.Try) or s.__class__.__name__ == "TryStar":
            return self._try(s, st)
        if isinstance(s, ast.Match):
            cur = self._expr(s.subject, st)
            if cur is None:
                return None
            outs = []
            exhaustive = False
            fall: Optional[State] = cur
            for case in s.cases:
                cs = fall
                if cs is None:
                    break
                cs = cs.kill_names(_pattern_names(case.pattern), self._kill_cache)
                pat_fact = (True, f"MATCH:{unparse(s.subject)}:{unparse(case.pattern)}")
                if case.guard is not None:
                    g = self._expr(case.guard, cs)
                    cs2 = g.add(cond_facts(case.guard, True)) if g else None
                else:
                    cs2 = cs
                if cs2 is not None:
                    cs2 = cs2.add({pat_fact})
                outs.append(self._block(case.body, cs2))
                if case.guard is None and _irrefutable(case.pattern):
                    exhaustive = True
                    break
            if not exhaustive:
                outs.append(cur)
            return join(outs)
        if isinstance(s, (ast.Break, ast.Continue)):
            if self._loop_stack:
                self._loop_stack[-1]["break" if isinstance(s, ast.Break) else "continue"].append(st)
            return None
        if isinstance(s, (ast.FunctionDef, ast.AsyncFunctionDef, ast.ClassDef)):
            return st.kill_names({s.name}, self._kill_cache)
        if isinstance(s, (ast.Import, ast.ImportFrom, ast.Pass, ast.Global, ast.Nonlocal)):
            return st
        # unknown statement kind: evaluate child expressions conservatively
        cur = st
        for child in ast.iter_child_nodes(s):
            if isinstance(child, ast.expr):
                cur = self._expr(child, cur)
        return cur

    def _loop(self, s, st: State, test, target) -> Optional[State]:
        head: Optional[State] = st
        frame = {"break": [], "continue": []}
        for _ in range(6):
            frame = {"break": [], "continue": []}
            self._loop_stack.append(frame)
            h = head
            if test is not None:
                h = self._expr(test, h)
                body_in = h.add(cond_facts(test, True)) if h is not None and const_truth(test) is not False else None
            else:
                body_in = h
            if target is not None and body_in is not None:
                body_in = self._assign_kill([target], body_in)
                # iteration fact: inside the body, `target` is an element of `iter`
                body_in = body_in.add({(True, f"ITER:{unparse(target)}:{unparse(s.iter)}")})
                # the body only runs when the iterated collection is non-empty (an iterator object is always truthy)
                if body_in is not None and isinstance(s.iter, (ast.Name, ast.Attribute)) and not names_in(target) & names_in(s.iter):
                    body_in = body_in.add({(True, unparse(s.iter))})
            end = self._block(s.body, body_in)
            self._loop_stack.pop()
            new_head = join([st, end] + frame["continue"], collapse=True)
            if new_head == head:
                break
            head = new_head
        # normal exit (condition false / iterator exhausted) runs orelse
        if test is not None:
            h = self._expr(test, head)
            exit_state = (
                h.add(cond_facts(test, False)) if h is not None and const_truth(test) is not True else None
            )
        else:
            exit_state = head
        exit_state = self._block(s.orelse, exit_state) if s.orelse else exit_state
        return join([exit_state] + frame["break"])

    def _try(self, s, st: State) -> Optional[State]:
        frame: list[Optional[State]] = [st]
        self._try_stack.append(frame)
        n_exits_before = len(self.exits)
        body_end = self._block(s.body, st)
        self._try_stack.pop()
        # any point of the body may raise: handler entry = join of all states seen in the body
        h_in = join(frame, collapse=True)
        outs = []
        if s.orelse:
            outs.append(self._block(s.orelse, body_end))
        else:
            outs.append(body_end)
        for h in s.handlers:
            hs = h_in
            if hs is not None and h.name:
                hs = hs.kill_names({h.name}, self._kill_cache)
            if hs is not None:
                self._rec(h, hs)
                if h.type is not None:
                    self._expr(h.type, hs)
                if self.node_event is not None:
                    evn = self.node_event(h)
                    if evn:
                        hs = hs.event(evn)
            outs.append(self._block(h.body, hs))
        after = join(outs)
        if s.finalbody:
            # finally also runs on the exits taken inside the try; analyse it with the weakest state
            fin_in = join([after, h_in])
            fin_out = self._block(s.finalbody, fin_in)
            if after is None:
                return None
            if fin_out is None:
                return None
            return after.with_extra(fin_out.must - (fin_in.must if fin_in else frozenset()), fin_out.may)
        return after


def _irrefutable(p: ast.pattern) -> bool:
    if isinstance(p, ast.MatchAs):
        return p.pattern is None or _irrefutable(p.pattern)
    if isinstance(p, ast.MatchOr):
        return any(_irrefutable(x) for x in p.patterns)
    return False


def _pattern_names(p: ast.AST) -> set[str]:
    out = set()
    for n in ast.walk(p):
        if isinstance(n, (ast.MatchAs, ast.MatchStar)) and n.name:
            out.add(n.name)
        if isinstance(n, ast.MatchMapping) and n.rest:
            out.add(n.rest)
    return out


def fact_exprs(facts: frozenset) -> list[tuple[bool, ast.expr]]:
    """Parse fact texts back to expressions (events / MATCH facts skipped)."""
    out = []
    for pol, txt in facts:
        if txt.startswith(("EV:", "MATCH:", "ITER:")):
            continue
        try:
            out.append((pol, ast.parse(txt, mode="eval").body))
        except SyntaxError:
            continue
    return out


def has_event(state: State | None, name: str) -> bool:
    return state is not None and (True, name) in state.must


def may_event(state: State | None, name: str) -> bool:
    return state is not None and name in state.may
