"""Spelling-independent derivations: calls followed through forwarding helpers, and element pipelines of pattern lists."""
from __future__ import annotations

import ast
import copy
from typing import Optional

from .flow import FlowAnalysis, cond_facts
from .model import AnalysisError, FuncInfo, bind_args, last_attr, unparse, walk_no_nested


def subst(expr: ast.expr, mapping: dict[str, ast.expr]) -> ast.expr:
    class T(ast.NodeTransformer):
        def visit_Name(self, n):
            if n.id in mapping and isinstance(n.ctx, ast.Load):
                return copy.deepcopy(mapping[n.id])
            return n

    return ast.fix_missing_locations(T().visit(copy.deepcopy(expr)))


def expand_predicate(ctx, fn: FuncInfo, e: ast.expr, depth: int = 3) -> ast.expr:
    """Calls to repository functions/methods whose body is a single `return <expr>` are replaced by that expression in the caller's
    terms (also inside visitor classes, whose methods the inliner leaves alone); `not`/and/or are traversed."""
    if depth <= 0:
        return e
    if isinstance(e, ast.UnaryOp) and isinstance(e.op, ast.Not):
        return ast.UnaryOp(op=ast.Not(), operand=expand_predicate(ctx, fn, e.operand, depth))
    if isinstance(e, ast.BoolOp):
        return ast.BoolOp(op=e.op, values=[expand_predicate(ctx, fn, v, depth) for v in e.values])
    if isinstance(e, ast.Call) and not any(isinstance(a, ast.Starred) for a in e.args) and not any(k.arg is None for k in e.keywords):
        try:
            ts = ctx.resolver(fn).resolve_call(e)
        except Exception:
            return e
        if len(ts) == 1 and isinstance(ts[0], FuncInfo) and isinstance(ts[0].node, ast.FunctionDef):
            h = ts[0]
            body = [st for st in h.node.body if not (isinstance(st, ast.Expr) and isinstance(st.value, ast.Constant) and isinstance(st.value.value, str))]
            if len(body) == 1 and isinstance(body[0], ast.Return) and body[0].value is not None and not (h.node.args.vararg or h.node.args.kwarg):
                static = any(isinstance(d, ast.Name) and d.id == "staticmethod" for d in h.node.decorator_list)
                bound = h.cls is not None and not static
                try:
                    from .model import bind_args
                    m = bind_args(e, h, bound)
                except Exception:
                    return e
                params = h.params()[1:] if bound else h.params()
                if all(p in m for p in params):
                    if bound and isinstance(e.func, ast.Attribute):
                        m = dict(m)
                        m[h.params()[0]] = e.func.value
                    return expand_predicate(ctx, fn, subst(body[0].value, m), depth - 1)
    return e


def _iter_base(e: ast.expr) -> ast.expr:
    """the collection an iteration expression walks element by element: enumerate(xs) / list(xs) / reversed(xs) / zip(xs, ...) / xs[...]"""
    while True:
        if isinstance(e, ast.Call) and isinstance(e.func, ast.Name) and e.func.id in ("enumerate", "list", "tuple", "iter", "reversed", "sorted") and e.args:
            e = e.args[0]
        elif isinstance(e, ast.Call) and isinstance(e.func, ast.Name) and e.func.id == "zip" and e.args:
            e = e.args[0]
        else:
            return e


def one_per_element(ctx, fn: FuncInfo, e: ast.expr, param: str, depth: int = 4) -> bool:
    """`e` holds exactly one element for each element of the parameter `param`: a comprehension / map over it without filter, or a list that
    starts empty and gets exactly one append on every path of one loop over it."""
    from .flow import FlowAnalysis, has_event

    if depth <= 0 or e is None:
        return False
    if isinstance(e, ast.Call) and isinstance(e.func, ast.Name) and e.func.id in ("list", "tuple") and len(e.args) == 1:
        return one_per_element(ctx, fn, e.args[0], param, depth)
    if isinstance(e, ast.Call) and isinstance(e.func, ast.Name) and e.func.id == "map" and len(e.args) == 2:
        b = _iter_base(e.args[1])
        return isinstance(b, ast.Name) and b.id == param
    if isinstance(e, (ast.ListComp, ast.GeneratorExp)) and len(e.generators) == 1 and not e.generators[0].ifs:
        b = _iter_base(e.generators[0].iter)
        return isinstance(b, ast.Name) and b.id == param
    if isinstance(e, ast.Name) and e.id != param:
        inits = [a for a in walk_no_nested(fn.node) if isinstance(a, (ast.Assign, ast.AnnAssign)) and a.value is not None
                 and any(isinstance(t, ast.Name) and t.id == e.id for t in (a.targets if isinstance(a, ast.Assign) else [a.target]))]
        if len(inits) != 1:
            return False
        v = inits[0].value
        if not (isinstance(v, (ast.List, ast.Tuple)) and not v.elts):
            return one_per_element(ctx, fn, v, param, depth - 1)
        loops = [l for l in walk_no_nested(fn.node) if isinstance(l, ast.For) and any(
            isinstance(c, ast.Call) and isinstance(c.func, ast.Attribute) and isinstance(c.func.value, ast.Name) and c.func.value.id == e.id for c in ast.walk(l))]
        if len(loops) != 1:
            return False
        lp = loops[0]
        b = _iter_base(lp.iter)
        if not (isinstance(b, ast.Name) and b.id == param):
            return False
        others = [c for c in walk_no_nested(fn.node) if isinstance(c, ast.Call) and isinstance(c.func, ast.Attribute) and isinstance(c.func.value, ast.Name)
                  and c.func.value.id == e.id and c.func.attr != "append"]
        if others or any(isinstance(x, (ast.Break, ast.Continue)) for x in ast.walk(lp)):
            return False
        apps = {id(c) for c in ast.walk(lp) if isinstance(c, ast.Call) and isinstance(c.func, ast.Attribute) and c.func.attr == "append"
                and isinstance(c.func.value, ast.Name) and c.func.value.id == e.id}
        if len(apps) < 1:
            return False
        fa = FlowAnalysis(lp, lambda c, _i=apps: "EV:app" if id(c) in _i else None, body=lp.body)
        ends = [x.state for x in fa.exits if x.kind == "end"]
        # exactly one: every path has the event, and no path can have it twice (one append site, not inside an inner loop)
        inner_loop = any(isinstance(x, (ast.For, ast.While)) for st in lp.body for x in ast.walk(st))
        return bool(ends) and all(has_event(s_, "EV:app") for s_ in ends) and len(apps) == 1 and not inner_loop
    return False


def deep_expand(ctx, fn: FuncInfo, e: ast.expr, depth: int = 3) -> ast.expr:
    """`e` with every single-assignment local (not a parameter, not a loop variable) replaced by the expression it was bound to."""
    if e is None or depth <= 0:
        return e
    sa = ctx.resolver(fn).single_assignments()
    params = set(fn.params())

    class T(ast.NodeTransformer):
        def visit_Name(self, n):
            if isinstance(n.ctx, ast.Load) and n.id in sa and n.id not in params and not isinstance(sa[n.id], ast.Name) or (
                    isinstance(n.ctx, ast.Load) and n.id in sa and n.id not in params and isinstance(sa[n.id], ast.Name) and sa[n.id].id != n.id):
                return deep_expand(ctx, fn, copy.deepcopy(sa[n.id]), depth - 1)
            return n

    return ast.fix_missing_locations(T().visit(copy.deepcopy(e)))


def calls_through(ctx, fn: FuncInfo, target_qname: str, depth: int = 2, _map: dict | None = None) -> list[tuple[ast.Call, list[str]]]:
    """Calls to target reachable from fn, directly or via repo helpers that fn calls; arguments are rewritten into fn's own
    terms by substituting each helper's parameters with the caller's argument expressions (single-assignment locals expanded)."""
    out = []
    r = ctx.resolver(fn)
    for n in walk_no_nested(fn.node):
        if not isinstance(n, ast.Call):
            continue
        q = r.callee_qname(n)
        if q == target_qname:
            c = copy.deepcopy(n)
            c.args = [r.expand(a) for a in n.args]
            c.keywords = [ast.keyword(arg=k.arg, value=r.expand(k.value)) for k in n.keywords]
            if _map:
                c = subst(c, _map)
            out.append((c, [fn.qname]))
        elif depth > 0:
            for t in r.resolve_call(n):
                if not isinstance(t, FuncInfo) or t.qname == fn.qname:
                    continue
                bound = isinstance(n.func, ast.Attribute) and t.cls is not None and "staticmethod" not in t.decorators()
                try:
                    b = bind_args(n, t, bound)
                except Exception:
                    continue
                m = {k: r.expand(v) for k, v in b.items()}
                if _map:
                    m = {k: subst(v, _map) for k, v in m.items()}
                # defaults of unbound parameters
                a = t.node.args
                pos = a.posonlyargs + a.args
                for p, d in zip(pos[len(pos) - len(a.defaults):], a.defaults):
                    m.setdefault(p.arg, d)
                for p, d in zip(a.kwonlyargs, a.kw_defaults):
                    if d is not None:
                        m.setdefault(p.arg, d)
                if isinstance(n.func, ast.Attribute) and isinstance(n.func.value, ast.Name) and n.func.value.id == "self":
                    m.pop("self", None)
                for c, chain in calls_through(ctx, t, target_qname, depth - 1, m):
                    out.append((c, [fn.qname] + chain))
    return out


# ---------------------------------------------------------------- element pipelines

def _is_colon(e) -> bool:
    return isinstance(e, ast.Constant) and e.value == ":"


def strip_kind(e: ast.expr, var: str) -> bool:
    """`var.split(':'...)[0]` / `var.partition(':')[0]` (and the r-variants, equal on well-formed `path:line`)."""
    if isinstance(e, ast.Subscript) and isinstance(e.slice, ast.Constant) and e.slice.value == 0 and isinstance(e.value, ast.Call):
        c = e.value
        if isinstance(c.func, ast.Attribute) and c.func.attr in ("split", "partition", "rsplit", "rpartition") and unparse(c.func.value) == var:
            if c.args and _is_colon(c.args[0]):
                if c.func.attr == "rsplit":
                    return len(c.args) == 2 and isinstance(c.args[1], ast.Constant) and c.args[1].value == 1
                return True
            if any(k.arg == "sep" and _is_colon(k.value) for k in c.keywords):
                return True
    return False


def drops_colon(conds: list[ast.expr], var: str) -> bool:
    facts = set()
    for c in conds:
        facts |= cond_facts(c, True)
    for pol, txt in facts:
        try:
            e = ast.parse(txt, mode="eval").body
        except SyntaxError:
            continue
        if isinstance(e, ast.Compare) and len(e.ops) == 1:
            l, op, rgt = e.left, e.ops[0], e.comparators[0]
            if _is_colon(l) and unparse(rgt) == var:
                if (isinstance(op, ast.In) and not pol) or (isinstance(op, ast.NotIn) and pol):
                    return True
            if isinstance(l, ast.Call) and isinstance(l.func, ast.Attribute) and unparse(l.func.value) == var and l.args and _is_colon(l.args[0]):
                if l.func.attr == "count" and isinstance(rgt, ast.Constant) and rgt.value == 0 and ((isinstance(op, ast.Eq) and pol) or (isinstance(op, (ast.NotEq, ast.Gt)) and not pol)):
                    return True
                if l.func.attr == "find" and isinstance(rgt, ast.Constant) and ((rgt.value == -1 and isinstance(op, ast.Eq) and pol) or (rgt.value == 0 and isinstance(op, ast.Lt) and pol)):
                    return True
        if isinstance(e, ast.Call) and isinstance(e.func, ast.Attribute) and e.func.attr == "count" and unparse(e.func.value) == var and e.args and _is_colon(e.args[0]) and not pol:
            return True
    return False


class Pipeline:
    """Alternatives (guard facts, kind) describing how the strings reaching a matcher derive from a pattern-list parameter.
    kind: 'raw' (unchanged) | 'stripped' (':line' suffix removed) | 'dropped' (elements containing ':' removed) | 'unknown:<why>'"""

    def __init__(self, ctx, fn: FuncInfo, param: str):
        self.ctx, self.fn, self.param = ctx, fn, param
        self.flow = FlowAnalysis(fn.node)
        self.parents = {}
        for p in ast.walk(fn.node):
            for c in ast.iter_child_nodes(p):
                self.parents[c] = p
        self.assigns: dict[str, list[ast.AST]] = {}
        for n in walk_no_nested(fn.node):
            if isinstance(n, (ast.Assign, ast.AnnAssign)) and n.value is not None:
                for t in (n.targets if isinstance(n, ast.Assign) else [n.target]):
                    if isinstance(t, ast.Name):
                        self.assigns.setdefault(t.id, []).append(n)

    @staticmethod
    def compose(first: str, then: str) -> str:
        if first.startswith("unknown"):
            return first
        if first == "raw":
            return then
        return first  # strip-then-drop = strip; drop-then-strip = drop

    def _enclosing_generator(self, name: ast.Name):
        cur = name
        while cur in self.parents:
            cur = self.parents[cur]
            if isinstance(cur, (ast.ListComp, ast.GeneratorExp, ast.SetComp)):
                for g in cur.generators:
                    if isinstance(g.target, ast.Name) and g.target.id == name.id:
                        return cur, g
            if isinstance(cur, ast.For) and isinstance(cur.target, ast.Name) and cur.target.id == name.id:
                return cur, cur
        return None, None

    def elems(self, e: ast.expr, facts: frozenset, within: ast.AST | None = None, depth: int = 8) -> list[tuple[frozenset, str]]:
        """Alternatives for the *elements* of list-valued expression e."""
        if depth <= 0:
            return [(facts, "unknown:depth")]
        if isinstance(e, ast.IfExp):
            return (self.elems(e.body, facts | cond_facts(e.test, True), within, depth - 1)
                    + self.elems(e.orelse, facts | cond_facts(e.test, False), within, depth - 1))
        if isinstance(e, ast.BoolOp) and isinstance(e.op, ast.Or):
            real = [v for v in e.values if not (isinstance(v, (ast.List, ast.Tuple)) and not v.elts)]
            if len(real) == 1:
                return self.elems(real[0], facts, within, depth - 1)
        if isinstance(e, (ast.List, ast.Tuple)) and not e.elts:
            return []
        if isinstance(e, ast.Call) and isinstance(e.func, ast.Name) and e.func.id in ("list", "tuple", "sorted", "set", "iter") and len(e.args) == 1:
            return self.elems(e.args[0], facts, within, depth - 1)
        if isinstance(e, ast.Call) and isinstance(e.func, ast.Name) and e.func.id == "filter" and len(e.args) == 2 and isinstance(e.args[0], ast.Lambda):
            lam = e.args[0]
            v = lam.args.args[0].arg
            here = "dropped" if drops_colon([lam.body], v) else "unknown:filter"
            return [(f, self.compose(k, here)) for f, k in self.elems(e.args[1], facts, within, depth - 1)]
        if isinstance(e, ast.Call) and isinstance(e.func, ast.Name) and e.func.id == "map" and len(e.args) == 2 and isinstance(e.args[0], ast.Lambda):
            lam = e.args[0]
            v = lam.args.args[0].arg
            here = "stripped" if strip_kind(lam.body, v) else "unknown:map"
            return [(f, self.compose(k, here)) for f, k in self.elems(e.args[1], facts, within, depth - 1)]
        if isinstance(e, (ast.ListComp, ast.GeneratorExp, ast.SetComp)) and len(e.generators) == 1:
            g = e.generators[0]
            if not isinstance(g.target, ast.Name):
                return [(facts, "unknown:target")]
            v = g.target.id
            dropped = drops_colon(g.ifs, v)
            if isinstance(e.elt, ast.Name) and e.elt.id == v:
                here = "dropped" if dropped else ("raw" if not g.ifs else "unknown:filter")
            elif strip_kind(e.elt, v):
                here = "dropped" if dropped else ("stripped" if not g.ifs else "unknown:filter")
            else:
                here = self._elt_helper(e.elt, v)
                if dropped:
                    here = "dropped"
            return [(f, self.compose(k, here)) for f, k in self.elems(g.iter, facts, within, depth - 1)]
        if isinstance(e, ast.Name):
            if e.id == self.param and not self._defs_before(e, within):
                return [(facts, "raw")]
            defs = self._defs_before(e, within)
            if defs:
                out = []
                for d in defs:
                    out += self.elems(d.value, facts | self.flow.must_at(d), d, depth - 1)
                return out
        return [(facts, f"unknown:{unparse(e)[:40]}")]

    def _elt_helper(self, elt: ast.expr, var: str) -> str:
        if isinstance(elt, ast.Call) and len(elt.args) == 1 and unparse(elt.args[0]) == var:
            r = self.ctx.resolver(self.fn)
            for t in r.resolve_call(elt):
                if isinstance(t, FuncInfo):
                    rets = [n.value for n in walk_no_nested(t.node) if isinstance(n, ast.Return) and n.value is not None]
                    ps = t.positional_params()
                    if len(rets) == 1 and ps and strip_kind(rets[0], ps[-1] if t.cls else ps[0]):
                        return "stripped"
        return f"unknown:elt {unparse(elt)[:40]}"

    def _defs_before(self, name: ast.Name, within: ast.AST | None) -> list[ast.AST]:
        """Assignments to the name that can reach this use: lexically earlier ones (the one whose value contains the use excluded)."""
        use_line = getattr(name, "lineno", 10**9)
        out = []
        ctx_facts = self.flow.must_at(within) if within is not None else self.flow.must_at(name)
        for d in self.assigns.get(name.id, []):
            if d is within:
                continue
            if any((not pol, txt) in ctx_facts for pol, txt in self.flow.must_at(d)):
                continue  # defined on a branch that excludes the use
            if any(x is name for x in ast.walk(d.value)):
                continue
            if d.lineno <= use_line or within is not None:
                if within is not None and d.lineno >= within.lineno:
                    continue
                out.append(d)
        return out

    def matcher_arg(self, arg: ast.expr) -> list[tuple[frozenset, str]]:
        """Alternatives for one string reaching a matcher call argument."""
        if isinstance(arg, ast.Name):
            holder, g = self._enclosing_generator(arg)
            if g is not None:
                base_facts = self.flow.must_at(holder)
                return self.elems(g.iter, frozenset(base_facts))
        if isinstance(arg, ast.Subscript) or isinstance(arg, ast.Call):
            # e.g. fnmatch(name, pat.split(':')[0]) with pat from a loop
            for n in ast.walk(arg):
                if isinstance(n, ast.Name):
                    holder, g = self._enclosing_generator(n)
                    if g is not None:
                        here = "stripped" if strip_kind(arg, n.id) else f"unknown:{unparse(arg)[:40]}"
                        base_facts = self.flow.must_at(holder)
                        return [(f, self.compose(k, here)) for f, k in self.elems(g.iter, frozenset(base_facts))]
        return [(frozenset(), f"unknown:{unparse(arg)[:40]}")]


# ---------------------------------------------------------------- element sources of list-valued expressions

class ElemSources:
    """Where do the elements of a list-valued expression come from, and which facts hold for each element kept?

    sources(e) -> list of (leaf iterable expression, facts (polarity, text with the element written as `$E`))
    Understands comprehensions, conditional expressions, list()/sorted() wrappers, single-assignment locals and lists built by
    `L = []` followed by `L.append(item)` / `L.extend(items)` in loops.  A leaf is whatever cannot be reduced further.
    """

    def __init__(self, ctx, fn: FuncInfo, order_matters: bool = False):
        self.ctx, self.fn = ctx, fn
        self.order_matters = order_matters  # then set()/sorted() are not looked through: they become leaves
        self.r = ctx.resolver(fn)
        self.flow = ctx.flow(fn)
        self.parents = ctx.parents(fn)

    @staticmethod
    def _norm(facts, var: str) -> frozenset:
        out = set()
        for pol, txt in facts:
            if txt.startswith(("EV:", "MATCH:", "ITER:")):
                continue
            try:
                e = ast.parse(txt, mode="eval").body
            except SyntaxError:
                continue
            if var not in {x.id for x in ast.walk(e) if isinstance(x, ast.Name)}:
                continue

            class T(ast.NodeTransformer):
                def visit_Call(self, c):
                    self.generic_visit(c)
                    # Path(x) / pathlib.Path(x) / str(x) of the element is the element for predicate purposes
                    if isinstance(c.func, (ast.Name, ast.Attribute)) and (last_attr(c.func) in ("Path", "PurePath")) and len(c.args) == 1 and isinstance(c.args[0], ast.Name) and c.args[0].id == "$E":
                        return c.args[0]
                    return c

                def visit_Name(self, n):
                    return ast.copy_location(ast.Name(id="$E", ctx=n.ctx), n) if n.id == var else n

            e2 = T().visit(T().visit(e))
            out.add((pol, unparse(e2)))
        return frozenset(out)

    def _enclosing_loop_for(self, node: ast.AST, var: str):
        cur = self.parents.get(id(node))
        while cur is not None:
            if isinstance(cur, ast.For) and isinstance(cur.target, ast.Name) and cur.target.id == var:
                return cur
            cur = self.parents.get(id(cur))
        return None

    def sources(self, e: ast.expr, depth: int = 8) -> list[tuple[ast.expr, frozenset]]:
        if depth <= 0 or e is None:
            return [(e, frozenset())]
        if isinstance(e, ast.NamedExpr):
            return self.sources(e.value, depth)
        if isinstance(e, (ast.List, ast.Tuple)):
            if not e.elts:
                return []
            if all(isinstance(x, ast.Starred) for x in e.elts):
                out = []
                for x in e.elts:
                    out += self.sources(x.value, depth - 1)
                return out
            return [(e, frozenset())]
        if isinstance(e, ast.IfExp):
            return self.sources(e.body, depth - 1) + self.sources(e.orelse, depth - 1)
        if isinstance(e, ast.BoolOp) and isinstance(e.op, ast.Or):
            out = []
            for v in e.values:
                out += self.sources(v, depth - 1)
            return out
        if isinstance(e, ast.Call) and isinstance(e.func, ast.Name) and e.func.id in (("list", "tuple", "iter") if self.order_matters else ("list", "tuple", "sorted", "set", "iter")) and len(e.args) >= 1:
            return self.sources(e.args[0], depth - 1)
        if isinstance(e, ast.BinOp) and isinstance(e.op, ast.Add):
            return self.sources(e.left, depth - 1) + self.sources(e.right, depth - 1)
        if isinstance(e, ast.Call) and (last_attr(e.func) or "") in ("filter", "filterfalse") and isinstance(e.func, (ast.Name, ast.Attribute)) and len(e.args) == 2 and not e.keywords:
            # filter(F, XS) == (x for x in XS if F(x));  filter(None, XS) == (x for x in XS if x);  itertools.filterfalse(F, XS) keeps the others
            pred, xs = e.args
            var = "elem__f"
            if (last_attr(e.func) or "") == "filterfalse":
                if isinstance(pred, ast.Attribute) and isinstance(pred.value, ast.Name) and pred.value.id in ("Path", "PurePath"):
                    # unbound method `Path.is_symlink` applied to the element
                    t_ = ast.Call(func=ast.Attribute(value=ast.Name(id=var, ctx=ast.Load()), attr=pred.attr, ctx=ast.Load()), args=[], keywords=[])
                elif isinstance(pred, ast.Lambda) and len(pred.args.args) == 1:
                    t_ = subst(pred.body, {pred.args.args[0].arg: ast.Name(id=var, ctx=ast.Load())})
                else:
                    t_ = expand_predicate(self.ctx, self.fn, ast.Call(func=pred, args=[ast.Name(id=var, ctx=ast.Load())], keywords=[]))
                here = self._norm(cond_facts(t_, False), var)
                return [(leaf, f | here) for leaf, f in self.sources(xs, depth - 1)]
            if isinstance(pred, ast.Attribute) and isinstance(pred.value, ast.Name) and pred.value.id in ("Path", "PurePath"):
                t_ = ast.Call(func=ast.Attribute(value=ast.Name(id=var, ctx=ast.Load()), attr=pred.attr, ctx=ast.Load()), args=[], keywords=[])
                here = self._norm(cond_facts(t_, True), var)
                return [(leaf, f | here) for leaf, f in self.sources(xs, depth - 1)]
            if isinstance(pred, ast.Constant) and pred.value is None:
                test: ast.expr = ast.Name(id=var, ctx=ast.Load())
            elif isinstance(pred, ast.Lambda) and len(pred.args.args) == 1:
                test = subst(pred.body, {pred.args.args[0].arg: ast.Name(id=var, ctx=ast.Load())})
            else:
                test = expand_predicate(self.ctx, self.fn, ast.Call(func=pred, args=[ast.Name(id=var, ctx=ast.Load())], keywords=[]))
            here = self._norm(cond_facts(test, True), var)
            return [(leaf, f | here) for leaf, f in self.sources(xs, depth - 1)]
        if isinstance(e, (ast.ListComp, ast.GeneratorExp, ast.SetComp)):
            if len(e.generators) == 1 and isinstance(e.generators[0].target, ast.Name):
                g = e.generators[0]
                v = g.target.id
                if isinstance(e.elt, ast.Name) and e.elt.id == v:
                    facts = set()
                    for c in g.ifs:
                        facts |= cond_facts(c, True)
                    here = self._norm(facts, v)
                    return [(leaf, f | here) for leaf, f in self.sources(g.iter, depth - 1)]
            return [(e, frozenset())]
        if isinstance(e, ast.Name):
            sa = self.r.single_assignments()
            built = self._built_list(e.id, depth)
            if built is not None:
                return built
            if e.id in sa and e.id not in self.fn.params():
                return self.sources(sa[e.id], depth - 1)
            return [(e, frozenset())]
        return [(e, frozenset())]

    def _built_list(self, name: str, depth: int):
        """`name = []` (once) and then only append/extend calls: union of what is appended."""
        inits = [n for n in walk_no_nested(self.fn.node) if isinstance(n, (ast.Assign, ast.AnnAssign)) and n.value is not None
                 and any(isinstance(t, ast.Name) and t.id == name for t in (n.targets if isinstance(n, ast.Assign) else [n.target]))]
        if len(inits) != 1 or not (isinstance(inits[0].value, (ast.List, ast.Tuple)) and not inits[0].value.elts
                                   or isinstance(inits[0].value, ast.Call) and call_name_of(inits[0].value) == "list" and not inits[0].value.args):
            return None
        out = []
        found = False
        for n in walk_no_nested(self.fn.node):
            if isinstance(n, ast.Call) and isinstance(n.func, ast.Attribute) and isinstance(n.func.value, ast.Name) and n.func.value.id == name:
                if n.func.attr == "append" and n.args:
                    found = True
                    a = n.args[0]
                    loop = self._enclosing_loop_for(n, a.id) if isinstance(a, ast.Name) else None
                    if loop is None:
                        out.append((ast.List(elts=[a], ctx=ast.Load()), frozenset()))
                        continue
                    here = self._norm(self.flow.must_at(n), a.id)
                    out += [(leaf, f | here) for leaf, f in self.sources(loop.iter, depth - 1)]
                elif n.func.attr == "extend" and n.args:
                    found = True
                    out += self.sources(n.args[0], depth - 1)
                elif n.func.attr in ("insert", "__iadd__"):
                    return None
            elif isinstance(n, ast.AugAssign) and isinstance(n.target, ast.Name) and n.target.id == name:
                found = True
                out += self.sources(n.value, depth - 1)
        return out if found else None


def call_name_of(c: ast.Call):
    return c.func.id if isinstance(c.func, ast.Name) else None
