#!/venv/bin/python
"""Entry point: /venv/bin/python sa/run.py <ID> --tier quick|thorough [--replay <path>]

exit 0 = every armed rule held (known findings printed); 1 = VIOLATION; 2 = ANALYSIS-ERROR.
"""
from __future__ import annotations

import argparse
import importlib
import json
import os
import sys
import traceback
from pathlib import Path

HERE = Path(__file__).resolve().parent
sys.path.insert(0, str(HERE.parent))

from sa.engine import Ctx  # noqa: E402
from sa.model import AnalysisError  # noqa: E402
from sa.report import Report  # noqa: E402

PROPS = [f"C{i:02d}" for i in range(1, 21)]


def run_property(pid: str, tier: str, overlay=None, quiet=False, write=True, ctx=None) -> tuple[int, Report]:
    mod = importlib.import_module(f"sa.rules.{pid.lower()}")
    ctx = ctx or Ctx(overlay)
    rep = Report(pid, tier, quiet=quiet)
    mod.check(ctx, rep)
    rep.units = ctx.units()
    st_error = None
    if tier == "thorough" and write:
        from sa import selftest

        try:
            rep.selftest = selftest.run_for(pid, quiet=quiet, baseline_keys=[f.key for f in rep.findings])
        except AnalysisError as e:
            # the verdict on the tree itself comes first: a violation found by the rules is reported (exit 1) even when the checker's
            # self-test does not pass on this tree (its variants are written against the unmodified sources)
            st_error = e
            rep.selftest = {"failed": str(e)[:2000]}
    code = rep.finish(write=write)
    if st_error is not None:
        if code == 0:
            raise st_error
        print(f"note: checker self-test did not pass on this tree: {str(st_error)[:300]}")
    return code, rep


def main(argv=None) -> int:
    ap = argparse.ArgumentParser()
    ap.add_argument("prop")
    ap.add_argument("--tier", default=os.environ.get("VERIF_TIER", "quick"), choices=["quick", "thorough"])
    ap.add_argument("--replay")
    args = ap.parse_args(argv)
    pid = args.prop.upper()
    try:
        if pid not in PROPS:
            raise AnalysisError(f"unknown property {pid}")
        if args.replay:
            want = json.loads(Path(args.replay).read_text())
            code, rep = run_property(pid, "quick", quiet=True, write=False)
            hit = [f for f in rep.findings if f.key == want.get("key")]
            for f in hit:
                print(f"{f.where}: {f.rule} {f.construct} [{f.detail}]: {f.message}")
                print(f"VIOLATION property={pid} replay={args.replay}")
            if not hit:
                print(f"replay: instance {want.get('key')} no longer violates on the current tree")
            return 1 if hit else 0
        code, _ = run_property(pid, args.tier)
        return code
    except AnalysisError as e:
        print(f"ANALYSIS-ERROR property={pid}: {e}")
        return 2
    except Exception:
        print(f"ANALYSIS-ERROR property={pid}: internal failure")
        traceback.print_exc()
        return 2


if __name__ == "__main__":
    sys.exit(main())
