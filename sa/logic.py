"""Tiny three-valued evaluator for branch facts over chosen atoms (used to decide guards independently of their spelling)."""
from __future__ import annotations

import ast
from itertools import product
from typing import Callable, Optional

from .model import unparse


def eval3(e: ast.expr, atom: Callable[[ast.expr], Optional[str]], env: dict[str, bool]) -> Optional[bool]:
    """True / False / None (unknown) of expression e when the atoms named by `atom` take the values in env."""
    a = atom(e)
    if isinstance(a, ast.AST):  # the atom function rewrote the expression (e.g. expanded a local)
        return eval3(a, atom, env)
    if a is not None:
        neg = a.startswith("!")
        v = env.get(a.lstrip("!"))
        return None if v is None else (not v if neg else v)
    if isinstance(e, ast.UnaryOp) and isinstance(e.op, ast.Not):
        v = eval3(e.operand, atom, env)
        return None if v is None else not v
    if isinstance(e, ast.BoolOp):
        vals = [eval3(v, atom, env) for v in e.values]
        if isinstance(e.op, ast.And):
            if any(v is False for v in vals):
                return False
            return True if all(v is True for v in vals) else None
        if any(v is True for v in vals):
            return True
        return False if all(v is False for v in vals) else None
    if isinstance(e, ast.NamedExpr):
        return eval3(e.value, atom, env)
    if isinstance(e, ast.Constant):
        return bool(e.value)
    if isinstance(e, ast.Call) and isinstance(e.func, ast.Name) and e.func.id == "bool" and len(e.args) == 1:
        return eval3(e.args[0], atom, env)
    if isinstance(e, ast.Compare) and len(e.ops) == 1 and isinstance(e.ops[0], (ast.Eq, ast.NotEq, ast.Is, ast.IsNot)):
        # comparison of two truth values (e.g. `bool(a) != bool(b)`, `(x == 'p') == wanted`): only when both sides are
        # boolean-valued expressions, so that truthiness and value coincide
        l, r_ = e.left, e.comparators[0]
        if _boolean_valued(l, atom) and _boolean_valued(r_, atom):
            a, b = eval3(l, atom, env), eval3(r_, atom, env)
            if a is None or b is None:
                return None
            return (a == b) if isinstance(e.ops[0], (ast.Eq, ast.Is)) else (a != b)
    return None


def _boolean_valued(e: ast.expr, atom) -> bool:
    """The expression's value is a bool (not merely truthy/falsy)."""
    if isinstance(e, ast.Constant):
        return isinstance(e.value, bool)
    if isinstance(e, ast.UnaryOp) and isinstance(e.op, ast.Not):
        return True
    if isinstance(e, ast.Compare):
        return True
    if isinstance(e, ast.Call) and isinstance(e.func, ast.Name) and e.func.id in ("bool", "any", "all", "isinstance"):
        return True
    if isinstance(e, ast.Name):
        a = atom(e)
        if isinstance(a, ast.AST):
            return _boolean_valued(a, atom)
    if isinstance(e, ast.BoolOp):
        return all(_boolean_valued(v, atom) for v in e.values)
    return False


def consistent_assignments(facts, atom: Callable[[ast.expr], Optional[str]], names: list[str]) -> list[dict[str, bool]]:
    """Assignments of the named atoms under which no fact is definitely violated."""
    out = []
    parsed = []
    for pol, txt in facts:
        if txt.startswith(("EV:", "MATCH:", "ITER:")):
            continue
        try:
            parsed.append((pol, ast.parse(txt, mode="eval").body))
        except SyntaxError:
            continue
    for combo in product([True, False], repeat=len(names)):
        env = dict(zip(names, combo))
        ok = True
        for pol, e in parsed:
            v = eval3(e, atom, env)
            if v is not None and v != pol:
                ok = False
                break
        if ok:
            out.append(env)
    return out


def consistent_assignments_state(state, atom, names: list[str]) -> list[dict[str, bool]]:
    """Same, for a trace-partitioned flow state: an assignment is possible if some alternative of the state allows it."""
    out: list[dict[str, bool]] = []
    if state is None:
        return out
    for must, _may in state.parts:
        for env in consistent_assignments(must, atom, names):
            if env not in out:
                out.append(env)
    return out
