"""Tiny three-valued evaluator for branch facts over chosen atoms (used to decide guards independently of their spelling)."""
from __future__ import annotations

import ast
from itertools import product
from typing import Callable, Optional

from .model import unparse


def eval3(e: ast.expr, atom: Callable[[ast.expr], Optional[str]], env: dict[str, bool]) -> Optional[bool]:
    """True / False / None (unknown) of expression e when the atoms named by `atom` take the values in env."""
    a = atom(e)
    if isinstance(a, ast.AST):  # the atom function rewrote the expression (e.g. expanded a local)
        return eval3(a, atom, env)
    if a is not None:
        neg = a.startswith("!")
        v = env.get(a.lstrip("!"))
        return None if v is None else (not v if neg else v)
    if isinstance(e, ast.UnaryOp) and isinstance(e.op, ast.Not):
        v = eval3(e.operand, atom, env)
        return None if v is None else not v
    if isinstance(e, ast.BoolOp):
        vals = [eval3(v, atom, env) for v in e.values]
        if isinstance(e.op, ast.And):
            if any(v is False for v in vals):
                return False
            return True if all(v is True for v in vals) else None
        if any(v is True for v in vals):
            return True
        return False if all(v is False for v in vals) else None
    if isinstance(e, ast.NamedExpr):
        return eval3(e.value, atom, env)
    if isinstance(e, ast.Constant):
        return bool(e.value)
    return None


def consistent_assignments(facts, atom: Callable[[ast.expr], Optional[str]], names: list[str]) -> list[dict[str, bool]]:
    """Assignments of the named atoms under which no fact is definitely violated."""
    out = []
    parsed = []
    for pol, txt in facts:
        if txt.startswith(("EV:", "MATCH:", "ITER:")):
            continue
        try:
            parsed.append((pol, ast.parse(txt, mode="eval").body))
        except SyntaxError:
            continue
    for combo in product([True, False], repeat=len(names)):
        env = dict(zip(names, combo))
        ok = True
        for pol, e in parsed:
            v = eval3(e, atom, env)
            if v is not None and v != pol:
                ok = False
                break
        if ok:
            out.append(env)
    return out


def consistent_assignments_state(state, atom, names: list[str]) -> list[dict[str, bool]]:
    """Same, for a trace-partitioned flow state: an assignment is possible if some alternative of the state allows it."""
    out: list[dict[str, bool]] = []
    if state is None:
        return out
    for must, _may in state.parts:
        for env in consistent_assignments(must, atom, names):
            if env not in out:
                out.append(env)
    return out
