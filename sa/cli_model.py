"""The command line as the repository defines it: every `add_argument` the parser construction performs, whichever way it is spelt.

`options(ctx)` interprets codemodder.cli.parse_args statically: loops over literal tuples / lists (or upper-case module constants) are
unrolled, f-strings over the loop variables are folded, module-level helper functions of codemodder.cli that receive the parser (or a
group) are entered with their parameters bound (`**kwargs` forwarded), and every add_argument call reached is recorded with its flag
strings, its keyword expressions (in the caller's terms) and the receiver it is made on.  Nothing is executed.
"""
from __future__ import annotations

import ast
import copy
from dataclasses import dataclass, field
from typing import Optional

from .model import AnalysisError, FuncInfo, last_attr, unparse

CLI = "codemodder.cli"


@dataclass
class Option:
    flags: list[str]
    kw: dict[str, ast.expr]
    recv: str  # receiver expression text in the scope of parse_args (after substitution), e.g. `parser`, `codemod_args_group`
    node: ast.Call
    fn: FuncInfo
    dest: str = ""
    extra: dict = field(default_factory=dict)


def _fold(e: ast.expr, env: dict) -> ast.expr:
    """substitute environment names and fold f-strings / string constants"""
    class S(ast.NodeTransformer):
        def visit_Name(self, n):
            if isinstance(n.ctx, ast.Load) and n.id in env and isinstance(env[n.id], ast.AST):
                return copy.deepcopy(env[n.id])
            return n

        def visit_JoinedStr(self, j):
            self.generic_visit(j)
            parts = []
            for v in j.values:
                if isinstance(v, ast.Constant) and isinstance(v.value, str):
                    parts.append(v.value)
                elif isinstance(v, ast.FormattedValue) and isinstance(v.value, ast.Constant) and v.format_spec is None and v.conversion == -1:
                    parts.append(str(v.value.value))
                else:
                    return j
            return ast.copy_location(ast.Constant(value="".join(parts)), j)

    return ast.fix_missing_locations(S().visit(copy.deepcopy(e)))


def _rows(ctx, mod, it: ast.expr, env: dict):
    it = _fold(it, env)
    if isinstance(it, ast.Name) and it.id in mod.constants:
        it = mod.constants[it.id]
    if isinstance(it, (ast.Tuple, ast.List)):
        return it.elts
    if isinstance(it, ast.Dict) and all(k is not None for k in it.keys):
        return list(it.keys)
    if isinstance(it, ast.Call) and isinstance(it.func, ast.Attribute) and it.func.attr == "items" and not it.args:
        d = _fold(it.func.value, env)
        if isinstance(d, ast.Name) and d.id in mod.constants:
            d = mod.constants[d.id]
        if isinstance(d, ast.Dict) and all(k is not None for k in d.keys):
            return [ast.Tuple(elts=[k, v], ctx=ast.Load()) for k, v in zip(d.keys, d.values)]
    return None


def _bind_target(tgt: ast.expr, row: ast.expr, env: dict) -> bool:
    if isinstance(tgt, ast.Name):
        env[tgt.id] = row
        return True
    if isinstance(tgt, (ast.Tuple, ast.List)) and isinstance(row, (ast.Tuple, ast.List)) and len(tgt.elts) == len(row.elts):
        return all(_bind_target(t, r, env) for t, r in zip(tgt.elts, row.elts))
    return False


def options(ctx) -> list[Option]:
    cached = getattr(ctx, "_cli_options", None)
    if cached is not None:
        return cached
    prog = ctx.prog
    mod = prog.module(CLI)
    out: list[Option] = []
    budget = [4000]

    def run_block(fn: FuncInfo, stmts, env: dict, depth: int):
        for st in stmts:
            budget[0] -= 1
            if budget[0] < 0:
                raise AnalysisError("codemodder.cli: parser construction too large to interpret")
            if isinstance(st, (ast.FunctionDef, ast.AsyncFunctionDef, ast.ClassDef)):
                continue
            if isinstance(st, ast.For):
                rows = _rows(ctx, mod, st.iter, env)
                if rows is not None:
                    for row in rows:
                        e2 = dict(env)
                        if _bind_target(st.target, _fold(row, env), e2):
                            run_block(fn, st.body, e2, depth)
                    continue
                run_block(fn, st.body, env, depth)
                continue
            if isinstance(st, ast.Assign) and len(st.targets) == 1 and isinstance(st.targets[0], ast.Name):
                # remember simple aliases (group = parser.add_mutually_exclusive_group(); flag = f"--x-{v}")
                v = _fold(st.value, env)
                scan_calls(fn, st.value, env, depth)
                if isinstance(v, (ast.Constant, ast.Name, ast.Attribute, ast.JoinedStr, ast.Dict, ast.List, ast.Tuple)):
                    env[st.targets[0].id] = v
                continue
            for fld in ("body", "orelse", "finalbody"):
                sub = getattr(st, fld, None)
                if isinstance(sub, list) and sub and isinstance(sub[0], ast.stmt):
                    run_block(fn, sub, env, depth)
            if isinstance(st, ast.Try):
                for h in st.handlers:
                    run_block(fn, h.body, env, depth)
            for e in ast.iter_child_nodes(st):
                if isinstance(e, ast.expr):
                    scan_calls(fn, e, env, depth)

    def scan_calls(fn: FuncInfo, e: ast.expr, env: dict, depth: int):
        for c in ast.walk(e):
            if not isinstance(c, ast.Call):
                continue
            if isinstance(c.func, ast.Attribute) and c.func.attr == "add_argument":
                flags = []
                for a in c.args:
                    fa = _fold(a, env)
                    if isinstance(fa, ast.Constant) and isinstance(fa.value, str):
                        flags.append(fa.value)
                    elif isinstance(fa, ast.Starred):
                        fv = _fold(fa.value, env)
                        if isinstance(fv, (ast.Tuple, ast.List)):
                            flags += [x.value for x in fv.elts if isinstance(x, ast.Constant) and isinstance(x.value, str)]
                kw: dict[str, ast.expr] = {}
                for k in c.keywords:
                    if k.arg is None:
                        d = _fold(k.value, env)
                        fwd = env.get("**" + (k.value.id if isinstance(k.value, ast.Name) else ""))
                        if isinstance(fwd, dict):
                            kw.update(fwd)
                        elif isinstance(d, ast.Dict):
                            for dk, dv in zip(d.keys, d.values):
                                if isinstance(dk, ast.Constant) and isinstance(dk.value, str):
                                    kw[dk.value] = dv
                    else:
                        kw[k.arg] = _fold(k.value, env)
                if flags:
                    dest = kw["dest"].value if isinstance(kw.get("dest"), ast.Constant) else next((f for f in flags if f.startswith("--")), flags[0]).lstrip("-").replace("-", "_")
                    out.append(Option(flags, kw, unparse(_fold(c.func.value, env)), c, fn, dest))
                continue
            # a helper of codemodder.cli that takes part in building the parser
            if depth > 0 and isinstance(c.func, ast.Name) and c.func.id in mod.functions:
                h = mod.functions[c.func.id]
                if h.qname == fn.qname or not any(isinstance(x, ast.Attribute) and x.attr in ("add_argument", "add_mutually_exclusive_group", "add_argument_group") for x in ast.walk(h.node)):
                    continue
                a = h.node.args
                params = [x.arg for x in a.posonlyargs + a.args]
                e2: dict = {}
                for p_, v in zip(params, c.args):
                    e2[p_] = _fold(v, env)
                extra: dict[str, ast.expr] = {}
                for k in c.keywords:
                    if k.arg is None:
                        continue
                    if k.arg in params or k.arg in [x.arg for x in a.kwonlyargs]:
                        e2[k.arg] = _fold(k.value, env)
                    else:
                        extra[k.arg] = _fold(k.value, env)
                defaults = dict(zip(params[len(params) - len(a.defaults):], a.defaults))
                for p_, d in list(defaults.items()) + [(x.arg, dv) for x, dv in zip(a.kwonlyargs, a.kw_defaults) if dv is not None]:
                    e2.setdefault(p_, d)
                if a.kwarg is not None:
                    e2["**" + a.kwarg.arg] = extra
                run_block(h, h.node.body, e2, depth - 1)

    pa = prog.func(CLI + ".parse_args")
    run_block(pa, pa.node.body, {}, 3)
    if len(out) < 10:
        raise AnalysisError(f"codemodder.cli: only {len(out)} add_argument calls could be interpreted")
    ctx._cli_options = out
    return out


def option(ctx, flag: str) -> Optional[Option]:
    return next((o for o in options(ctx) if flag in o.flags), None)
