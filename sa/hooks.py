"""Transformer model: hooks, change effects, gate facts (role-based), helper entry facts, gated collections.

Used by C06 (result gate), C13 (line gate), C18 and others.

Roles:  RESULT  a result-based test holds (filter_by_result / node_is_selected)
        LINE    the line include/exclude filter holds
        SELECTED = RESULT and LINE through node_is_selected
        IN_RESULT_FOUND  code only reached from LibcstResultTransformer._new_or_updated_node

Idioms of the repository that are modelled (each found by reading, see DESIGN.md 5/C06):
  * helper-called-under-gate: a method inherits the roles common to all of its call sites in the class family
  * helper visitors driven under a gate: hooks of a visitor class inherit the roles of the `tree.visit(h)` /
    `H(..).transform_module(..)` sites that drive it
  * gated collections: an attribute or local that is only ever extended under roles R gives R to code that tests it
    for truth / membership or iterates it; constructor parameters stored in `self.A` carry the roles of the argument
  * worklist filtering: `for k, v in C.items(): C[k] = [t for t in v if pred(t)]` gives C the roles of `pred`
  * boolean predicates: `if self._is_x(node):` gives the roles common to all truthy returns of `_is_x`
"""
from __future__ import annotations

import ast
from dataclasses import dataclass
from typing import Optional

from .flow import FlowAnalysis
from .model import AnalysisError, FuncInfo, bind_args, call_name, dotted_name, last_attr, unparse, walk_no_nested

LRT = "codemodder.codemods.libcst_transformer.LibcstResultTransformer"
UTILS = "codemodder.codemods.base_visitor.UtilsMixin"
FRAMEWORK_PREFIXES = (
    "codemodder.codemods.libcst_transformer.",
    "codemodder.codemods.base_visitor.",
    "codemodder.codemods.api.",
    "core_codemods.api.",
    "codemodder.codemods.base_transformer.",
)
REPORT_CALLS = {"report_change", "report_change_for_line", "add_change", "add_change_from_position"}
GATE_CALLS = {
    "node_is_selected": frozenset({"SELECTED", "RESULT", "LINE"}),
    "filter_by_result": frozenset({"RESULT"}),
    "filter_by_path_includes_or_excludes": frozenset({"LINE"}),
}
ALL_ROLES = frozenset({"SELECTED", "RESULT", "LINE", "IN_RESULT_FOUND"})
from . import flow as _flow  # noqa: E402

_flow.STICKY_CALLS |= set(GATE_CALLS)
EMPTY_INITS = ("[]", "{}", "set()", "dict()", "list()", "()", "None", "defaultdict(list)", "defaultdict(set)", "False", "''", '""', "0")
EXTEND_METHODS = {"append", "add", "extend", "update", "insert", "setdefault", "appendleft"}
WRAPPER_FUNCS = ("list", "sorted", "set", "tuple", "reversed", "enumerate", "iter", "frozenset", "dict")
WRAPPER_METHODS = ("keys", "values", "items", "copy")
DRIVE_METHODS = ("visit", "visit_batched", "transform_module", "transform_module_impl")


def is_framework(q: str) -> bool:
    return q.startswith(FRAMEWORK_PREFIXES)


@dataclass
class Effect:
    cls: str
    method: FuncInfo
    node: ast.AST
    kind: str  # 'report' | 'return-change' | 'changes-append'
    roles: frozenset
    text: str


class TransformerModel:
    def __init__(self, ctx, cls_q: str):
        self.ctx = ctx
        self.prog = ctx.prog
        self.cls_q = cls_q
        if cls_q not in self.prog.classes:
            raise AnalysisError(f"transformer class vanished: {cls_q}")
        self.classes = list(self.prog.mro_classes(cls_q))
        self.methods: dict[str, FuncInfo] = {}
        for c in self.classes:
            for name, m in c.methods.items():
                self.methods.setdefault(name, m)
        self.own: dict[str, FuncInfo] = {n: m for n, m in self.methods.items() if not is_framework(m.qname)}
        self.helpers: list[str] = self._helper_classes()
        self._all: list[tuple[str, FuncInfo]] | None = None
        self.entry: dict[str, frozenset] = {}
        self.gated: dict[tuple[str, str], frozenset] = {}
        self._pred_cache: dict[str, set[str]] = {}
        self._prepared = False

    # ---------------------------------------------------------------- structure
    def _helper_classes(self) -> list[str]:
        out: list[str] = []
        todo = [m for m in self.methods.values() if not is_framework(m.qname)]
        seen_m = set()
        while todo:
            m = todo.pop()
            if m.qname in seen_m:
                continue
            seen_m.add(m.qname)
            r = self.ctx.resolver(m)
            for n in walk_no_nested(m.node):
                if isinstance(n, ast.Call):
                    q = r.callee_qname(n) if dotted_name(n.func) else None
                    if q is None and isinstance(n.func, ast.Attribute):
                        q = r.type_of(n)
                        if q is not None:
                            # a class-valued attribute may be overridden in subclasses of the transformer
                            for c in self.classes:
                                if n.func.attr in c.attrs:
                                    qq = self.prog.resolve_expr_name(c.module, c.attrs[n.func.attr])
                                    if qq in self.prog.classes:
                                        q = qq
                                    break
                    if q in self.prog.classes and q not in out and q != self.cls_q and not is_framework(q):
                        mro = self.prog.mro(q)
                        if UTILS in mro or any(x.startswith("libcst") for x in mro):
                            out.append(q)
                            for c in self.prog.mro_classes(q):
                                if not is_framework(c.qname):
                                    todo.extend(c.methods.values())
            for f2 in self.prog.functions.values():
                if f2.parent is m and f2.qname not in seen_m:
                    todo.append(f2)
        return out

    def all_methods(self) -> list[tuple[str, FuncInfo]]:
        """(owner class, function) for own methods, helper visitors' methods, and their nested functions."""
        if self._all is not None:
            return self._all
        out = [(self.cls_q, m) for m in self.own.values()]
        for h in self.helpers:
            seen = set()
            for c in self.prog.mro_classes(h):
                if is_framework(c.qname):
                    continue
                for name, m in c.methods.items():
                    if name not in seen:
                        seen.add(name)
                        out.append((h, m))
        known = {m.qname for _, m in out}
        grew = True
        while grew:
            grew = False
            for owner, m in list(out):
                for q2, f2 in self.prog.functions.items():
                    if f2.parent is m and q2 not in known:
                        known.add(q2)
                        out.append((owner, f2))
                        grew = True
        self._all = out
        return out

    def flow(self, m: FuncInfo) -> FlowAnalysis:
        return self.ctx.flow(m)

    @staticmethod
    def is_hook(name: str) -> bool:
        return name.startswith(("leave_", "visit_")) or name in ("on_leave", "on_visit", "transform_module_impl", "transform_module")

    def effective(self, owner: str, name: str) -> Optional[FuncInfo]:
        return self.methods.get(name) if owner == self.cls_q else self.prog.lookup_method(owner, name)

    # ---------------------------------------------------------------- roles from facts
    def roles_from_facts(self, owner: str, m: FuncInfo, must: frozenset) -> frozenset:
        roles: set[str] = set()
        for pol, txt in must:
            if txt.startswith("ITER:"):
                _, _tgt, it = txt.split(":", 2)
                try:
                    ite = ast.parse(it, mode="eval").body
                except SyntaxError:
                    continue
                roles |= self.value_roles(owner, m, ite, 10**9)
                continue
            if txt.startswith("EV:GATE:") and pol:
                roles |= set(GATE_CALLS.get(txt[len("EV:GATE:"):], ()))  # the gate answered true earlier on this path
                continue
            if txt.startswith(("EV:", "MATCH:")):
                continue
            if not pol:
                # `E is not None` where E was taken out of a gated collection: the element is one of the gated ones
                if txt.endswith(" is None"):
                    try:
                        cmp_ = ast.parse(txt, mode="eval").body
                    except SyntaxError:
                        continue
                    if isinstance(cmp_, ast.Compare):
                        roles |= self.element_roles(owner, m, cmp_.left, 10**9)
                continue
            try:
                e = ast.parse(txt, mode="eval").body
            except SyntaxError:
                continue
            roles |= self.truthy_roles(owner, m, e)
        return frozenset(roles)

    def truthy_roles(self, owner: str, m: FuncInfo, e: ast.expr, depth: int = 4) -> set[str]:
        """Roles established when expression e is truthy."""
        out: set[str] = set()
        if depth <= 0:
            return out
        if isinstance(e, ast.BoolOp):
            parts = [self.truthy_roles(owner, m, v, depth) for v in e.values]
            if isinstance(e.op, ast.Or):
                return set.intersection(*parts) if parts else out
            return set.union(*parts) if parts else out
        if isinstance(e, ast.NamedExpr):
            return self.truthy_roles(owner, m, e.value, depth - 1)
        if isinstance(e, ast.Call):
            la = last_attr(e.func)
            if isinstance(e.func, ast.Attribute) and la in GATE_CALLS:
                return set(GATE_CALLS[la])
            if isinstance(e.func, ast.Attribute) and isinstance(e.func.value, ast.Name) and e.func.value.id == "self":
                t = self.effective(owner, la)
                if t is not None and not is_framework(t.qname):
                    return set(self.predicate_roles(owner, t))
                return out
            if isinstance(e.func, ast.Name):
                if e.func.id in ("any",) and e.args and isinstance(e.args[0], (ast.GeneratorExp, ast.ListComp)):
                    for gen in e.args[0].generators:
                        out |= self.value_roles(owner, m, gen.iter, 10**9)
                    return out
                if e.func.id in ("bool", "len") and e.args:
                    return self.truthy_roles(owner, m, e.args[0], depth - 1)
                for t in self.ctx.resolver(m).resolve_call(e):
                    if isinstance(t, FuncInfo) and t.parent is not None:
                        return set(self.predicate_roles(owner, t))
                v = self.ctx.resolver(m).single_assignments().get(e.func.id)
                if isinstance(v, ast.Lambda):
                    return self.truthy_roles(owner, m, v.body, depth - 1)
                return out
            if la in ("get", "pop", "popleft") and isinstance(e.func, ast.Attribute):
                return self.value_roles(owner, m, e.func.value, 10**9)
            return out
        if isinstance(e, ast.Compare) and len(e.ops) == 1 and isinstance(e.ops[0], ast.In):
            return self.value_roles(owner, m, e.comparators[0], 10**9)
        if isinstance(e, ast.Subscript):
            return self.value_roles(owner, m, e.value, 10**9)
        if isinstance(e, (ast.Attribute, ast.Name)):
            out |= self.value_roles(owner, m, e, 10**9)
            if isinstance(e, ast.Name):
                v = self.ctx.resolver(m).single_assignments().get(e.id)
                if v is not None and not isinstance(v, (ast.List, ast.Dict, ast.Set, ast.Constant)):
                    out |= self.truthy_roles(owner, m, v, depth - 1)
        return out

    def predicate_roles(self, owner: str, pm: FuncInfo) -> set[str]:
        """Roles common to every truthy return of a boolean helper."""
        if pm.qname in self._pred_cache:
            return self._pred_cache[pm.qname]
        self._pred_cache[pm.qname] = set()
        fa = self.flow(pm)
        sets = []
        for ex in fa.exits:
            if ex.kind != "return" or ex.value is None:
                continue
            v = ex.value
            if isinstance(v, ast.Constant) and not v.value:
                continue
            if isinstance(v, (ast.List, ast.Tuple, ast.Set)) and not v.elts or isinstance(v, ast.Dict) and not v.keys:
                continue  # an empty container is a falsy answer too (`return []` on the path that declines)
            roles = set(self.roles_from_facts(owner, pm, ex.state.must)) | self.truthy_roles(owner, pm, v)
            sets.append(roles)
        res = set.intersection(*sets) if sets else set()
        self._pred_cache[pm.qname] = res
        return res

    # ---------------------------------------------------------------- collections
    def coll_key(self, owner: str, m: FuncInfo, e: ast.expr, depth: int = 4) -> Optional[tuple[str, str]]:
        if depth <= 0:
            return None
        if isinstance(e, ast.Call) and isinstance(e.func, ast.Attribute) and e.func.attr in WRAPPER_METHODS:
            return self.coll_key(owner, m, e.func.value, depth - 1)
        if isinstance(e, ast.Call) and call_name(e) in WRAPPER_FUNCS and e.args:
            return self.coll_key(owner, m, e.args[0], depth - 1)
        if isinstance(e, ast.Subscript):
            return self.coll_key(owner, m, e.value, depth - 1)
        if isinstance(e, ast.Name):
            r = self.ctx.resolver(m)
            v = r.single_assignments().get(e.id)
            if isinstance(v, (ast.Attribute, ast.Name)) or (isinstance(v, ast.Call) and (call_name(v) in WRAPPER_FUNCS or last_attr(v.func) in WRAPPER_METHODS)):
                k = self.coll_key(owner, m, v, depth - 1)
                if k is not None:
                    return k
            if e.id in ("self", "cls") or e.id in m.params():
                return None
            if e.id in r._assign_counts:
                return ("L:" + m.qname, e.id)
            p = m.parent
            while p is not None:
                rp = self.ctx.resolver(p)
                rp.single_assignments()
                if e.id in rp._assign_counts:
                    return ("L:" + p.qname, e.id)
                p = p.parent
            return None
        if isinstance(e, ast.Attribute):
            if isinstance(e.value, ast.Name) and e.value.id == "self":
                return (owner, e.attr)
            t = self.ctx.resolver(m).type_of(e.value)
            if t and t in self.prog.classes:
                return (t, e.attr)
        return None

    def collection_roles(self, key: Optional[tuple[str, str]]) -> set[str]:
        if key is None:
            return set()
        if key in self.gated:
            return set(self.gated[key])
        if not key[0].startswith("L:"):
            for (c, a), roles in self.gated.items():
                if a == key[1] and not c.startswith("L:") and (c in self.prog.mro(key[0]) or key[0] in self.prog.mro(c)):
                    return set(roles)
        return set()

    def _filter_roles(self, owner: str, m: FuncInfo, comp: ast.AST) -> set[str]:
        """Roles of the `if` clauses of a comprehension / filter() call (what every kept element satisfies)."""
        out: set[str] = set()
        if isinstance(comp, (ast.ListComp, ast.SetComp, ast.GeneratorExp, ast.DictComp)):
            for g in comp.generators:
                for c in g.ifs:
                    out |= self.truthy_roles(owner, m, c)
                out |= self.value_roles(owner, m, g.iter, 10**9)
        elif isinstance(comp, ast.Call) and call_name(comp) == "filter" and len(comp.args) == 2:
            f = comp.args[0]
            if isinstance(f, ast.Lambda):
                out |= self.truthy_roles(owner, m, f.body)
            else:
                fake = ast.Call(func=f, args=[], keywords=[])
                out |= self.truthy_roles(owner, m, fake)
            out |= self.value_roles(owner, m, comp.args[1], 10**9)
        return out

    def value_roles(self, owner: str, m: FuncInfo, e: ast.expr, before_line: int, depth: int = 3) -> set[str]:
        """Roles that every element of the collection-valued expression e satisfies (at a site before `before_line`)."""
        if depth <= 0 or e is None:
            return set()
        if isinstance(e, (ast.ListComp, ast.SetComp, ast.GeneratorExp, ast.DictComp)) or (isinstance(e, ast.Call) and call_name(e) == "filter"):
            return self._filter_roles(owner, m, e)
        if isinstance(e, ast.Call) and call_name(e) in WRAPPER_FUNCS and e.args:
            return self.value_roles(owner, m, e.args[0], before_line, depth - 1)
        if isinstance(e, ast.Call) and isinstance(e.func, ast.Attribute) and e.func.attr in WRAPPER_METHODS:
            return self.value_roles(owner, m, e.func.value, before_line, depth - 1)
        out: set[str] = set()
        txt = unparse(e)
        for n in walk_no_nested(m.node):
            if isinstance(n, ast.For) and n.lineno < before_line and isinstance(n.iter, ast.Call) and last_attr(n.iter.func) == "items" and unparse(n.iter.func.value) == txt:
                ok_t = isinstance(n.target, ast.Tuple) and len(n.target.elts) == 2 and all(isinstance(x, ast.Name) for x in n.target.elts)
                if not ok_t:
                    continue
                kv, tv = n.target.elts[0].id, n.target.elts[1].id
                for st in n.body:
                    if (
                        isinstance(st, ast.Assign)
                        and isinstance(st.targets[0], ast.Subscript)
                        and unparse(st.targets[0].value) == txt
                        and isinstance(st.targets[0].slice, ast.Name)
                        and st.targets[0].slice.id == kv
                        and isinstance(st.value, (ast.ListComp, ast.SetComp))
                        and isinstance(st.value.generators[0].iter, ast.Name)
                        and st.value.generators[0].iter.id == tv
                    ):
                        for c in st.value.generators[0].ifs:
                            out |= self.truthy_roles(owner, m, c)
        if out:
            return out
        if isinstance(e, ast.Name):
            v = self.ctx.resolver(m).single_assignments().get(e.id)
            if isinstance(v, (ast.ListComp, ast.SetComp, ast.GeneratorExp, ast.DictComp)) or (isinstance(v, ast.Call) and call_name(v) == "filter"):
                return self._filter_roles(owner, m, v)
        return self.collection_roles(self.coll_key(owner, m, e))

    def element_roles(self, owner: str, m: FuncInfo, e: ast.expr, before_line: int, depth: int = 3) -> set[str]:
        """Roles of a single element expression taken out of a gated collection (pop / get / subscript / next)."""
        if depth <= 0 or e is None:
            return set()
        if isinstance(e, ast.NamedExpr):
            return self.element_roles(owner, m, e.value, before_line, depth)
        if isinstance(e, ast.IfExp):
            alts = [a for a in (e.body, e.orelse) if not (isinstance(a, ast.Constant) and a.value is None)]
            sets = [self.element_roles(owner, m, a, before_line, depth - 1) for a in alts]
            return set.intersection(*sets) if sets else set()
        if isinstance(e, ast.Call) and isinstance(e.func, ast.Attribute) and e.func.attr in ("pop", "get", "popleft", "popitem"):
            return self.value_roles(owner, m, e.func.value, before_line, depth - 1)
        if isinstance(e, ast.Subscript):
            return self.value_roles(owner, m, e.value, before_line, depth - 1)
        return set()

    # ---------------------------------------------------------------- the fixpoint
    def _sites(self) -> dict[str, list[tuple[str, FuncInfo, ast.Call]]]:
        methods = self.all_methods()
        by_q = {m.qname: (owner, m) for owner, m in methods}
        sites: dict[str, list[tuple[str, FuncInfo, ast.Call]]] = {}
        for owner, m in methods:
            r = self.ctx.resolver(m)
            for n in walk_no_nested(m.node):
                if not isinstance(n, ast.Call):
                    continue
                if isinstance(n.func, ast.Attribute):
                    recv, la = n.func.value, n.func.attr
                    if la in DRIVE_METHODS:
                        vis = n.args[0] if la in ("visit", "visit_batched") and n.args else recv
                        ht = r.type_of(vis)
                        if ht and ht in self.prog.classes and not (isinstance(vis, ast.Name) and vis.id == "self"):
                            for c in self.prog.mro_classes(ht):
                                if is_framework(c.qname):
                                    continue
                                for name, hm in c.methods.items():
                                    if self.is_hook(name) and hm.qname in by_q:
                                        sites.setdefault(hm.qname, []).append((owner, m, n))
                    tq = None
                    if isinstance(recv, ast.Name) and recv.id == "self":
                        cand = self.effective(owner, la)
                        tq = cand.qname if cand is not None else None
                    elif isinstance(recv, ast.Call) and isinstance(recv.func, ast.Name) and recv.func.id == "super":
                        cand = self.prog.lookup_method(owner, la, after=m.cls.qname if m.cls else None)
                        tq = cand.qname if cand is not None else None
                    elif la not in DRIVE_METHODS:
                        t = r.type_of(recv)
                        if t and t in self.prog.classes:
                            cand = self.prog.lookup_method(t, la)
                            tq = cand.qname if cand is not None else None
                    if tq in by_q:
                        sites.setdefault(tq, []).append((owner, m, n))
                elif isinstance(n.func, ast.Name):
                    for t in r.resolve_call(n):
                        if isinstance(t, FuncInfo) and t.qname in by_q:
                            sites.setdefault(t.qname, []).append((owner, m, n))
        return sites

    def site_roles(self, owner: str, m: FuncInfo, node: ast.AST) -> frozenset:
        fa = self.flow(m)
        local = self.roles_from_facts(owner, m, fa.must_at(node))
        return frozenset(set(local) | set(self.entry.get(m.qname, frozenset())))

    def _compute_gated(self) -> dict[tuple[str, str], frozenset]:
        stores: dict[tuple[str, str], list[set[str]]] = {}

        def store(key, roles):
            if key is not None:
                stores.setdefault(key, []).append(set(roles))

        for owner, m in self.all_methods():
            fa = self.flow(m)
            r = self.ctx.resolver(m)
            sa = r.single_assignments()
            for n in walk_no_nested(m.node):
                if not fa.reachable(n) and isinstance(n, (ast.stmt, ast.Call)):
                    continue
                if isinstance(n, ast.Call) and isinstance(n.func, ast.Attribute) and n.func.attr in EXTEND_METHODS:
                    key = self.coll_key(owner, m, n.func.value)
                    extra: set[str] = set()
                    if n.func.attr in ("extend", "update") and n.args:
                        extra = self.value_roles(owner, m, n.args[0], n.lineno)
                    elif n.func.attr in ("append", "add", "appendleft") and n.args:
                        # an element moved over from another gated collection (`stack.append(queue.pop() if queue else None)`):
                        # it keeps that collection's roles; a None placeholder carries no obligation (consumers test `is not None`)
                        extra = self.element_roles(owner, m, n.args[0], n.lineno)
                    store(key, set(self.site_roles(owner, m, n)) | extra)
                elif isinstance(n, (ast.Assign, ast.AugAssign, ast.AnnAssign)):
                    targets = n.targets if isinstance(n, ast.Assign) else [n.target]
                    val = n.value
                    if val is None:
                        continue
                    for tg in targets:
                        elts = tg.elts if isinstance(tg, (ast.Tuple, ast.List)) else [tg]
                        for t1 in elts:
                            if isinstance(t1, ast.Subscript):
                                vr = self._filter_roles(owner, m, val) if isinstance(val, (ast.ListComp, ast.SetComp)) else set()
                                store(self.coll_key(owner, m, t1.value), set(self.site_roles(owner, m, n)) | vr)
                            elif isinstance(t1, (ast.Attribute, ast.Name)):
                                if unparse(val).replace(" ", "") in EMPTY_INITS:
                                    continue
                                if isinstance(t1, ast.Attribute) and m.name == "__init__" and isinstance(val, ast.Name) and val.id in m.params():
                                    continue  # constructor parameter: handled at the construction sites
                                vr = self.value_roles(owner, m, val, n.lineno) if not isinstance(tg, (ast.Tuple, ast.List)) else set()
                                if isinstance(t1, ast.Name):
                                    if t1.id in sa and not isinstance(n, ast.AugAssign) and not vr and not self.site_roles(owner, m, n):
                                        continue  # plain single-assigned local without roles: not a collection of interest
                                    key = ("L:" + m.qname, t1.id)
                                else:
                                    key = self.coll_key(owner, m, t1)
                                store(key, set(self.site_roles(owner, m, n)) | vr)
            # constructor parameters stored as attributes: the argument's roles travel with them
            for n in walk_no_nested(m.node):
                if isinstance(n, ast.Call) and fa.reachable(n):
                    q = r.callee_qname(n) if dotted_name(n.func) else None
                    if q in self.prog.classes and q in self.helpers:
                        init = self.prog.lookup_method(q, "__init__")
                        if init is None or is_framework(init.qname):
                            continue
                        b = bind_args(n, init, True)
                        for st in walk_no_nested(init.node):
                            if isinstance(st, ast.Assign) and isinstance(st.targets[0], ast.Attribute) and isinstance(st.targets[0].value, ast.Name) and st.targets[0].value.id == "self":
                                v = st.value
                                if isinstance(v, ast.BoolOp):
                                    v = v.values[0]
                                if isinstance(v, ast.Name) and v.id in b:
                                    store((q, st.targets[0].attr), self.value_roles(owner, m, b[v.id], n.lineno))
        out = {k: frozenset(set.intersection(*v)) for k, v in stores.items()}
        return {k: v for k, v in out.items() if v}

    def prepare(self):
        if self._prepared:
            return self
        methods = self.all_methods()
        by_q = {m.qname: (owner, m) for owner, m in methods}
        sites = self._sites()

        def externally_driven(owner: str, m: FuncInfo) -> bool:
            return m.name.startswith("__") or (self.is_hook(m.name) and owner == self.cls_q)

        def initial() -> dict[str, frozenset]:
            e: dict[str, frozenset] = {}
            for owner, m in methods:
                if m.name == "on_result_found" and owner == self.cls_q:
                    e[m.qname] = ALL_ROLES
                elif externally_driven(owner, m) or m.qname not in sites:
                    e[m.qname] = frozenset()
                else:
                    e[m.qname] = ALL_ROLES  # optimistic; lowered by the fixpoint
            return e

        self.gated = {}
        for _outer in range(4):
            self.entry = initial()
            self._pred_cache = {}
            for _ in range(10):
                changed = False
                for q, ss in sites.items():
                    owner_q, mq = by_q[q]
                    if externally_driven(owner_q, mq) or (mq.name == "on_result_found" and owner_q == self.cls_q):
                        continue
                    acc: Optional[set[str]] = None
                    for owner, m, call in ss:
                        fa = self.flow(m)
                        if not fa.reachable(call):
                            continue
                        roles = set(self.roles_from_facts(owner, m, fa.must_at(call))) | set(self.entry.get(m.qname, frozenset()))
                        acc = roles if acc is None else (acc & roles)
                    new = frozenset(acc or ())
                    if new != self.entry[q]:
                        self.entry[q] = new
                        changed = True
                if not changed:
                    break
            new_gated = self._compute_gated()
            if new_gated == self.gated:
                break
            self.gated = new_gated
        self._prepared = True
        return self

    # ---------------------------------------------------------------- effects
    def effects(self) -> list[Effect]:
        self.prepare()
        out: list[Effect] = []
        delegated: set[str] = set()
        for owner, m in self.all_methods():
            if m.name.startswith("leave_") or (m.name == "on_result_found" and owner == self.cls_q):
                delegated.add(m.qname)
        for _ in range(4):
            grew = False
            for owner, m in self.all_methods():
                if m.qname not in delegated:
                    continue
                for n in walk_no_nested(m.node):
                    if isinstance(n, ast.Return) and isinstance(n.value, ast.Call) and isinstance(n.value.func, ast.Attribute):
                        recv = n.value.func.value
                        if isinstance(recv, ast.Name) and recv.id == "self":
                            t = self.effective(owner, n.value.func.attr)
                            if t is not None and not is_framework(t.qname) and t.qname not in delegated:
                                delegated.add(t.qname)
                                grew = True
            if not grew:
                break
        for owner, m in self.all_methods():
            fa = self.flow(m)
            params = m.positional_params()
            node_params = set(params[1:3]) if len(params) >= 3 else set(params[1:])
            r = self.ctx.resolver(m)
            for n in walk_no_nested(m.node):
                if isinstance(n, ast.Call) and isinstance(n.func, ast.Attribute):
                    la = n.func.attr
                    if la in REPORT_CALLS and fa.reachable(n):
                        out.append(Effect(owner, m, n, "report", self.site_roles(owner, m, n), unparse(n)[:80]))
                    elif la in ("append", "extend") and "codemod_changes" in unparse(n.func.value) and fa.reachable(n):
                        roles = set(self.site_roles(owner, m, n))
                        if la == "extend" and n.args:
                            roles |= self.value_roles(owner, m, n.args[0], n.lineno)
                        out.append(Effect(owner, m, n, "changes-append", frozenset(roles), unparse(n)[:80]))
                if isinstance(n, ast.Return) and m.qname in delegated and n.value is not None and fa.reachable(n):
                    v = n.value
                    if isinstance(v, ast.Name) and v.id in node_params:
                        continue
                    if isinstance(v, ast.Name):
                        vv = r.single_assignments().get(v.id)
                        if isinstance(vv, ast.Name) and vv.id in node_params:
                            continue
                    if isinstance(v, ast.Call) and isinstance(v.func, ast.Attribute):
                        recv = v.func.value
                        if isinstance(recv, ast.Name) and recv.id == "self":
                            t = self.effective(owner, v.func.attr)
                            if (t is not None and t.qname in delegated) or v.func.attr == "_new_or_updated_node":
                                continue  # judged inside the callee
                        if isinstance(recv, ast.Call) and isinstance(recv.func, ast.Name) and recv.func.id == "super":
                            continue
                    if isinstance(v, ast.Constant) and v.value in (True, False, None) and not m.name.startswith("leave_"):
                        continue
                    out.append(Effect(owner, m, n, "return-change", self.site_roles(owner, m, n), unparse(n)[:80]))
        return out
