"""Role-based classification of expressions and calls (never text matching of statements)."""
from __future__ import annotations

import ast
from dataclasses import dataclass
from typing import Optional

from .model import FuncInfo, Program, Resolver, call_name, dotted_name, last_attr, walk_no_nested

WRITE_MODES = set("wax+")

# external callables that modify the file system (project write sinks)
FS_FUNCS = {
    "os.remove", "os.unlink", "os.rename", "os.replace", "os.renames", "os.mkdir", "os.makedirs",
    "os.rmdir", "os.removedirs", "os.truncate", "os.symlink", "os.link", "os.chmod",
    "shutil.copy", "shutil.copy2", "shutil.copyfile", "shutil.copytree", "shutil.move",
    "shutil.rmtree", "shutil.copymode", "shutil.copystat",
}
# methods that modify the file system when called on a path-like receiver
PATH_WRITE_METHODS = {
    "write_bytes", "write_text", "unlink", "rename", "replace", "mkdir", "rmdir", "touch",
    "symlink_to", "hardlink_to", "chmod",
}
TEMP_FACTORIES = {
    "tempfile.mkstemp", "tempfile.NamedTemporaryFile", "tempfile.TemporaryFile", "tempfile.mkdtemp",
    "tempfile.TemporaryDirectory", "tempfile.SpooledTemporaryFile",
    "NamedTemporaryFile", "TemporaryFile", "mkstemp",
}


@dataclass
class Sink:
    kind: str  # 'path-method' | 'open-write' | 'fs-func' | 'fdopen-write'
    call: ast.Call
    path: Optional[ast.expr]
    payload: Optional[ast.expr] = None


def _const_str(e: ast.AST | None) -> Optional[str]:
    return e.value if isinstance(e, ast.Constant) and isinstance(e.value, str) else None


def open_mode(call: ast.Call) -> Optional[str]:
    """Mode string of an open()-like call ('r' default); None if not constant."""
    mode: ast.AST | None = None
    if len(call.args) >= 2:
        mode = call.args[1]
    for kw in call.keywords:
        if kw.arg == "mode":
            mode = kw.value
    if mode is None:
        return "r"
    return _const_str(mode)


def classify_sink(call: ast.Call, r: Resolver) -> Optional[Sink]:
    """Is this call a write to the file system?"""
    f = call.func
    q = r.callee_qname(call) if dotted_name(f) else None
    if q in TEMP_FACTORIES:
        return None
    if q in ("open", "io.open", "builtins.open", "codecs.open"):
        mode = open_mode(call)
        if mode is None or (set(mode) & WRITE_MODES):
            return Sink("open-write", call, call.args[0] if call.args else None)
        return None
    if q == "os.fdopen":
        mode = open_mode(call)
        if mode is None or (set(mode) & WRITE_MODES):
            return Sink("fdopen-write", call, call.args[0] if call.args else None)
        return None
    if q in FS_FUNCS:
        return Sink("fs-func", call, call.args[0] if call.args else None)
    if isinstance(f, ast.Attribute):
        if f.attr in PATH_WRITE_METHODS:
            # `x.replace(a, b)` on strings is ubiquitous: require a path-typed / path-named receiver
            if f.attr in ("replace", "rename", "touch", "chmod"):
                t = r.type_of(f.value)
                if not (t and t.split(".")[-1] in ("Path", "PosixPath", "PurePath")):
                    return None
            return Sink(
                "path-method",
                call,
                f.value,
                call.args[0] if call.args and f.attr in ("write_bytes", "write_text") else None,
            )
        if f.attr == "open":
            # Path.open(mode)
            mode: ast.AST | None = call.args[0] if call.args else None
            for kw in call.keywords:
                if kw.arg == "mode":
                    mode = kw.value
            m = _const_str(mode) if mode is not None else "r"
            t = r.type_of(f.value)
            if t and t.split(".")[-1] in ("Path", "PosixPath") and (m is None or set(m) & WRITE_MODES):
                return Sink("open-write", call, f.value)
            # untyped receiver (`def update_code(file_path, new_code): file_path.open(mode="wb")`): a constant write mode says it all
            if t is None and m is not None and mode is not None and set(m) & WRITE_MODES and len(m) <= 3:
                return Sink("open-write", call, f.value)
    return None


def handle_writes(fn_node: ast.AST, r: Resolver) -> list[tuple[ast.Call, ast.expr, ast.expr | None]]:
    """(write call, the open() call that produced the handle, payload) for `with open(..) as f: f.write(x)`."""
    out = []
    for n in walk_no_nested(fn_node):
        if isinstance(n, (ast.With, ast.AsyncWith)):
            for it in n.items:
                if (
                    isinstance(it.context_expr, ast.Call)
                    and isinstance(it.optional_vars, ast.Name)
                    and classify_sink(it.context_expr, r) is not None
                ):
                    h = it.optional_vars.id
                    for m in ast.walk(n):
                        if isinstance(m, ast.Call):
                            if (
                                isinstance(m.func, ast.Attribute)
                                and m.func.attr in ("write", "writelines")
                                and isinstance(m.func.value, ast.Name)
                                and m.func.value.id == h
                            ):
                                out.append((m, it.context_expr, m.args[0] if m.args else None))
                            elif (call_name(m) or "").endswith(".dump") and len(m.args) >= 2 and isinstance(m.args[1], ast.Name) and m.args[1].id == h:
                                out.append((m, it.context_expr, m.args[0]))
    return out


# ---------------------------------------------------------------------- dry-run role
def is_dry_expr(e: ast.AST, r: Resolver | None = None, depth: int = 3) -> bool:
    """Expression whose value is the dry-run flag."""
    if isinstance(e, ast.Attribute) and e.attr == "dry_run":
        return True
    if isinstance(e, ast.Name):
        if e.id == "dry_run":
            return True
        if r is not None and depth:
            sa = r.single_assignments()
            if e.id in sa:
                return is_dry_expr(sa[e.id], r, depth - 1)
    if isinstance(e, ast.NamedExpr):
        return is_dry_expr(e.value, r, depth)
    return False


def dry_fact(must: frozenset, r: Resolver | None = None) -> Optional[bool]:
    """Value of the dry-run flag known on all paths: True / False / None (unknown)."""
    from .flow import fact_exprs

    val = None
    for pol, ex in fact_exprs(must):
        if is_dry_expr(ex, r):
            val = pol
    return val
