#!/venv/bin/python
"""Regenerates /verif/MANIFEST.json from the table below (kept next to the rules it describes)."""
import json
import sys
from pathlib import Path

VERIF = Path(__file__).resolve().parent.parent
BASELINE = "cd /repo && /venv/bin/python -m pytest -ra -q -p no:cacheprovider --timeout=900 --continue-on-collection-errors"

CLAIMS: dict[str, dict] = {}
NOT_BUILT = "check not built yet in this session (planned in DESIGN.md section 5); not claimed until it runs"


def claim(pid, text, note, technique, ref):
    CLAIMS[pid] = dict(text=text, note=note, technique=technique, ref=ref)


claim(
    "C04",
    "Exhaustive static argument over the call graph from codemodder.run: every file-system write sink is dominated by a "
    "`dry_run is false` branch fact (locally or in all caller chains), every dry_run parameter binding receives the flag, and "
    "the flag is read nowhere except to guard write-only blocks; so a dry run cannot write and computes the report by the same code.",
    "Decides the structural conditions only; assumes the sink table (open/Path.write_*/os/shutil) covers how the project is written, "
    "that libcst hooks do no I/O other than through resolved calls, and that I/O errors during the real write are out of scope.",
    "call-graph reachability + must-dataflow of branch facts (dominance of write sinks by the dry-run guard), argument binding check",
    "DESIGN.md 5/C04",
)

NA_REASONS: dict[str, str] = {}


def main():
    props = [json.loads(l)["id"] for l in (VERIF / "properties.jsonl").read_text().splitlines() if l.strip()]
    checks = []
    for pid in props:
        if pid not in CLAIMS:
            continue
        c = CLAIMS[pid]
        checks.append(
            {
                "property_id": pid,
                "quick_cmd": f"/venv/bin/python sa/run.py {pid} --tier quick",
                "thorough_cmd": f"/venv/bin/python sa/run.py {pid} --tier thorough",
                "evidence_file": f"evidence/{pid}.json",
                "replay_cmd_template": f"/venv/bin/python sa/run.py {pid} --replay {{path}}",
                "engine": "sa",
                "level_claimed": {"category": "other", "text": c["text"], "design_ref": c["ref"]},
                "level_note": c["note"],
                "technique": c["technique"],
            }
        )
    manifest = {
        "version": 1,
        "setup_cmd": "/venv/bin/python -c \"import ast, yaml, libcst; print('static-analysis engine needs no build')\"",
        "hooks": {
            "guard": "PIXEE_CODEMODDER_PYTHON_VERIF",
            "enable": "none: the checks are static (ast over /repo/src) and need no instrumentation of the repository",
            "baseline_off_cmd": BASELINE,
            "source_commits": [],
            "add_only": True,
        },
        "engines": [
            {
                "name": "sa",
                "path": "sa/",
                "serves_properties": [c["property_id"] for c in checks],
                "kind_free_text": "repository-specific static analyser: ast source model, MRO/call graph, structured must-dataflow of branch facts, rule modules per property",
            }
        ],
        "checks": checks,
        "notes": "All checks: /venv/bin/python sa/run.py <ID> --tier quick|thorough. Exit 0 held / 1 VIOLATION / 2 ANALYSIS-ERROR. "
        "Known findings: known_findings.json. Thorough tier adds the in-memory seeded-fault self-test of the checker.",
        "not_applicable": [
            {"property_id": pid, "reason": NA_REASONS.get(pid, NOT_BUILT)} for pid in props if pid not in CLAIMS
        ],
    }
    (VERIF / "MANIFEST.json").write_text(json.dumps(manifest, indent=1) + "\n")
    try:
        import jsonschema

        jsonschema.validate(manifest, json.loads(Path("/root/.vp/MANIFEST.schema.json").read_text()))
        print("MANIFEST.json valid;", len(checks), "checks claimed")
    except ImportError:
        print("jsonschema unavailable; manifest written unvalidated")


if __name__ == "__main__":
    sys.exit(main())
