#!/venv/bin/python
"""Regenerates /verif/MANIFEST.json from the table below (kept next to the rules it describes)."""
import json
import sys
from pathlib import Path

VERIF = Path(__file__).resolve().parent.parent
BASELINE = "cd /repo && /venv/bin/python -m pytest -ra -q -p no:cacheprovider --timeout=900 --continue-on-collection-errors"

CLAIMS: dict[str, dict] = {}
NOT_BUILT = "check not built yet in this session (planned in DESIGN.md section 5); not claimed until it runs"


def claim(pid, text, note, technique, ref):
    CLAIMS[pid] = dict(text=text, note=note, technique=technique, ref=ref)


claim(
    "C04",
    "Exhaustive static argument over the call graph from codemodder.run: every file-system write sink is dominated by a "
    "`dry_run is false` branch fact (locally or in all caller chains), every dry_run parameter binding receives the flag, and "
    "the flag is read nowhere except to guard write-only blocks; so a dry run cannot write and computes the report by the same code.",
    "Decides the structural conditions only; assumes the sink table (open/Path.write_*/os/shutil) covers how the project is written, "
    "that libcst hooks do no I/O other than through resolved calls, and that I/O errors during the real write are out of scope.",
    "call-graph reachability + must-dataflow of branch facts (dominance of write sinks by the dry-run guard), argument binding check",
    "DESIGN.md 5/C04",
)

claim(
    "C03",
    "For the 3 transformer pipelines and 4 manifest writers (enumerated from the class hierarchy): def-use provenance shows the "
    "diff's after-operand is the written payload and its before-operand is a read of the written path; an assumption-pruned "
    "must/may event analysis over every exit shows 'ChangeSet returned <=> file written (when not dry)' and 'None => nothing written'; "
    "the libcst ChangeSet is dominated by non-empty changes and diff; text-mode read-modify-write (CRLF loss) is reported.",
    "Structural necessary conditions only; libcst round-trip and difflib hunk arithmetic are trusted; the CRLF-manifest defect was repaired (fixed entries in known_findings.json).",
    "def-use provenance + path-sensitive must/may event dataflow over the 7 read-diff-write sites",
    "DESIGN.md 5/C03",
)
claim(
    "C10",
    "Every input-dependent call (read/decode/parse/transform) preceding the write in each pipeline's apply() is shown to lie under a broad "
    "handler that records the failure, returns None and cannot write; add_failure and process_results are shown (must-events on all paths) "
    "to record the file and all of its findings and to merge them for every file context; no path that recorded a failure returns a changeset; "
    "no non-zero exit status depends on file failures.",
    "Isolation of the exception and bookkeeping are decided; equality of other files' outcomes under faults is runtime behaviour and is not claimed.",
    "enumeration of input-dependent call sites + try/handler dominance + must-event dataflow",
    "DESIGN.md 5/C10",
)
claim(
    "C11",
    "Pool size provenance (--max-workers -> context -> executor), merge source (executor.map, input ordered, sorted inputs), worker isolation "
    "(no context mutator / shared-state write reachable from the per-file worker: call-graph reachability over ~330 functions) and every "
    "iteration over an unordered source (set, rglob, ...) with an order-sensitive consumer are decided for the whole program.",
    "Thread-safety inside libcst/functools and sibling-file independence of arbitrary codemods are not claimed; 1 known finding (--max-workers ignored).",
    "call-graph reachability + def-use roots + orderedness classification of every iteration",
    "DESIGN.md 5/C11",
)
claim(
    "C12",
    "The operator each result-accumulation loop dispatches to is resolved through the ResultSet MRO including the external dict base "
    "(dict.__ior__ = lossy update); merge bodies are checked for partial lookups over key unions; the readers' constructor fields and "
    "Location start/end key families are compared; add_result files every location.",
    "Equality of parsed findings with a reference extraction for arbitrary documents is not claimed.",
    "operator dispatch resolution through the MRO + structural comparison of sibling readers",
    "DESIGN.md 5/C12",
)
claim(
    "C15",
    "compile_results is decided path-by-path (exactly one Result per codemod, fields from the same codemod object/id); all 7 ChangeSet "
    "constructions use the written path relative to the target directory and are dominated by non-empty changes; the statically "
    "interpreted registry (101 codemods) supplies per-codemod obligations: tool metadata, rule ids = requested rules, summary, docs file, "
    "non-empty default change description for every transformer that relies on it.",
    "JSON-schema validity of pydantic's serialisation and line numbers lying inside the file are not claimed.",
    "must/may event dataflow in compile_results + static registry interpretation + dominance facts at ChangeSet sites",
    "DESIGN.md 5/C15",
)
claim(
    "C17",
    "match_codemods' returns are shown duplicate-free by construction (id-keyed dict), its pattern matchers escaped and full-match, the "
    "include loop order-preserving over the user's list and the registry order, the selection threaded unchanged into apply_codemods and "
    "compile_results, the CLI options mutually exclusive and de-duplicated, and the registry load loop ordered.",
    "Regex semantics over arbitrary pattern lists and registries are not claimed.",
    "construction-site analysis of the returned lists + matcher classification + def-use threading",
    "DESIGN.md 5/C17",
)
claim(
    "C19",
    "Both plugin pipelines: line bookkeeping (AST equality of Change.lineNumber and the finding-lookup line), exactly one append per input line on "
    "every loop path with only the line or its substitution appended, SAST substitution gated by line_matches_result, SAX handler CDATA flag "
    "and Optional DTD ids, plus the shared failure-isolation, dry-run and diff/write agreement rules restricted to these classes.",
    "XML infoset equality through expat/XMLGenerator and locator column arithmetic are not claimed.",
    "must/may event dataflow over loop bodies + structural SAX-handler rules",
    "DESIGN.md 5/C19",
)
claim(
    "C20",
    "Every return <int> of run(), every sys.exit/parser.exit reachable from main() and every call site of the two status functions are "
    "enumerated; each non-zero status is tied to the handler / failed test that dominates it; no status of a status function is discarded; "
    "no non-zero status is reachable after the report write without testing its result.",
    "Which argument vectors argparse rejects, and exceptions escaping run(), are not claimed.",
    "status-function call-site discipline + dominance facts at every return of run()",
    "DESIGN.md 5/C20",
)

claim(
    "C05",
    "File selection is followed statically from the CLI patterns through context.find_and_fix_paths / filter_paths into every concrete "
    "get_files_to_analyze and into executor.map; every write sink's path is traced (def-use roots) to the work item's own file or the "
    "manifest store; both project-file enumerators filter symlinks; ':line' patterns cannot exclude a file; include/exclude arguments "
    "reach parameters of the same role.",
    "Which paths match which glob (fnmatch semantics over trees x patterns) is not claimed; liveness only through the lost-update rule under C18.",
    "def-use provenance of file lists and write paths + sibling comparison + argument-role binding",
    "DESIGN.md 5/C05",
)
claim(
    "C06",
    "For the 37 remediation codemods (statically interpreted registry) every change effect of every transformer class - report/add_change "
    "calls and hook returns that replace or remove a node - is shown to be reached only under a result-based gate, using a role-based facts "
    "analysis with helper call-site meets, driven helper visitors, gated collections and predicates; _process_file's per-rule/per-file lookup "
    "and short-circuit, every Change's findings lookup and requested rules = tool rule ids are checked.",
    "Column arithmetic of match_location against real tool output is not claimed; 2 known finding keys remain (RemoveCsrfExemptTransformer has no result gate), 5 were repaired.",
    "role-based must-dataflow of gate facts over all hooks of all registered transformers (interprocedural entry facts, gated collections)",
    "DESIGN.md 5/C06",
)
claim(
    "C09",
    "Cross-talk between codemods of one run needs shared state: the per-codemod loop order (apply -> dependencies -> log, must-events), the pool "
    "lifetime, the execution context's containers (rebound per instance, only indexed by the codemod-id parameter), the FileContext "
    "construction (fresh per call, default_factory fields) and memoised functions on the transform path are decided structurally.",
    "Whether one codemod's rewrite can enable another's semgrep rule through the run-wide prefilter needs semgrep semantics and is not claimed.",
    "must-event ordering + keyed-access discipline of shared containers + object lifetime checks",
    "DESIGN.md 5/C09",
)
claim(
    "C13",
    "All 101 registered codemods: every change effect of every transformer class (71 classes plus driven helper visitors) is reached only under "
    "the line filter (role-based gate analysis); the filter's argument is a position at every call site; file_line_patterns and match_files use "
    "the same path base; every implementation of the line filter computes the same truth table (exclude-first / include / default true); positions are never requested for rebuilt nodes; "
    "line_include/line_exclude arguments bind to parameters of the same role.",
    "fnmatch semantics of pattern spellings and multi-line constructs are not claimed; 2 known finding keys remain (DjangoSessionCookieSecureOff.leave_Module appends at end of file), 16 were repaired.",
    "role-based must-dataflow of gate facts over all hooks + sibling AST comparison + argument provenance",
    "DESIGN.md 5/C13",
)
claim(
    "C14",
    "Framework part of dependency handling: first-store-wins (a may-event after recording must not reach the next iteration), add_to_file only "
    "with the non-empty result of add(), add() appends and registers only under `not has_requirement`, both notices keyed by codemod id; plus the "
    "shared write-discipline rules for the four writers (diff/write agreement, dry-run threading, newline-lossless I/O, ordered symlink-free "
    "manifest enumeration).",
    "Validity/preservation of arbitrary manifest texts under the writers' text surgery is not claimed; the CRLF defect was repaired (fixed entries).",
    "must/may event dataflow over the store loop + dominance facts + shared write-discipline rules",
    "DESIGN.md 5/C14",
)

claim(
    "C01",
    "Parseability of libcst output for arbitrary inputs is declined. Decided: the gaps of libcst's own validation that are visible in this "
    "source — every hand-built string-literal token is classified (constant / same-literal quote / foreign text in a fixed quote needs a guard), "
    "filtered import-alias lists reset the tail comma, the operator slot of rebuilt comparisons receives an operator, and every constant code "
    "template handed to parse_expression/parse_statement/NewArg/update_call_target parses.",
    "Necessary conditions only (breaking any of them yields unparseable output for some input); the lazy-logging quoting defect was repaired (fixed entry).",
    "provenance classification of leaf-token constructions + template evaluation and parsing + slot typing",
    "DESIGN.md 5/C01",
)
claim(
    "C02",
    "Every code template a transformer emits by name is recovered (constant/template evaluator with conditional alternatives and holes), its "
    "free root identifiers are computed with ast, and each is paired path-sensitively (assumption-pruned must-events; callers for helper "
    "emitters) with an import scheduled for that name; import-statement rewriting is restricted to an allow-list of owners; the operator slot "
    "of rebuilt comparisons is type-checked.",
    "Scope-aware reasoning about clean-up passes (RemoveUnusedVariables) is not claimed; cross-method pairing is a may-analysis.",
    "template evaluation + free-name computation + must/may event pairing of emission and import",
    "DESIGN.md 5/C02",
)
claim(
    "C07",
    "For the 22 codemods with a semgrep rule of their own, rule (YAML, recovered statically, read into DNF alternatives of call/assignment "
    "patterns) and edit (effect algebra read off on_result_found) are compared: per alternative the edited code contradicts the positive "
    "pattern or guarantees a pattern-not; table-driven rewrites have disjoint trigger/product names; the libcst pipeline reports no "
    "changeset for an empty diff.",
    "Codemods outside the effect algebra are listed as not modelled (harden-pyyaml, lazy-logging, jwt options dict, file-selector rule, "
    "with-item rewrite, hasattr); pattern-inside and taint sources are ignored; stdlib arity facts (ssl.SSLContext) are assumptions.",
    "semgrep-rule reader (DNF) x edit-effect algebra: unmatchability proof per alternative",
    "DESIGN.md 5/C07",
)
claim(
    "C08",
    "Observational equivalence is declined. Decided at the anchors the property names: operator constraints of all matchers in the "
    "combine-calls fold, lpar/rpar carry-over of freshly built non-atomic expressions in refactoring hooks, argument-list preservation "
    "(complete / tail / partial / dropped with dominating arity facts), and the comparison-inversion table against the truth table of the "
    "ten comparison operators incl. single-comparison-only application.",
    "Structural necessary conditions only; 2 known findings (fold across `and`, pinned by the existing tests).",
    "matcher-constraint check + constructor keyword check + argument-list classification + table comparison",
    "DESIGN.md 5/C08",
)
claim(
    "C16",
    "Docs <-> code sibling agreement: the tokens each of the 22 hardening transformers introduces by name (keyword names/values, callee "
    "templates, imports, mapping targets) must occur in the + / context lines of the codemod's own docs ```diff block and not only in its - "
    "lines; every rebuilt argument list is complete/tail or dominated by an arity fact (match pattern, len test, detector rule arity); the "
    "shared argument helpers keep unmatched arguments.",
    "Preservation of every token for arbitrary call shapes through libcst is not claimed.",
    "template token extraction vs. documentation diff + argument-list classification with dominance facts",
    "DESIGN.md 5/C16",
)
claim(
    "C18",
    "For the 22 rule-detected codemods: per rule alternative the rewritten code cannot be reported again (shared prover with C07); every "
    "syntactic kind the rule can report (call/assignment/class/with-item/file) has a hook that reaches on_result_found or a result-gated "
    "custom hook (incl. driven helper visitors); no hook rebuilds its result from the original node's children or returns the original "
    "node when a node kind the same transformer rewrites can be nested inside.",
    "Agreement of semgrep positions with libcst positions, and semgrep semantics in general, are not claimed.",
    "rule reader x effect algebra + hook-kind coverage + lost-update (original-node reuse) detection with a containment table",
    "DESIGN.md 5/C18",
)

NA_REASONS: dict[str, str] = {}



# clauses added after the fourth round of independently seeded changes (DESIGN.md 11.14); appended to the claim text of each property
EXTRA = {
    "C01": "Also: a FlattenSentinel never carries layout-only nodes into a statement list (one named exception), and no metadata lookup (scope, position) is made for a node the transformer has just built.",
    "C02": "Also: where an import is scheduled under a flag, every definition of the flag reaches the scheduling guard.",
    "C03": "Also: changesets reach the run-wide record as a list (no keyed / de-duplicating store), and a regular expression that cuts text into diff lines ends a line at LF only.",
    "C04": "Also: every child process reachable from run() is the read-only semgrep scan or is dry-run guarded.",
    "C05": "Also: path patterns reach the matcher verbatim (no string-rewriting method on a pattern from the CLI action down to filter_files), and result sets are combined only with the merging operators.",
    "C06": "Also: every match_location override constrains columns on each accepting path (named line-unit exceptions), and requested_rules is written only in constructors.",
    "C07": "Also: a leave_ hook does not pre-filter on the shape of original_node's child while deciding on the same child of updated_node, and no transformer gives up by a pass/work budget.",
    "C08": "Also: a non-atomic node is never replaced by one of its sub-expressions without taking over its parentheses; the with-extent of fix-file-resource-leak is a running maximum over all names; sql-parameterization cuts at the last quote before and the first quote after the parameter.",
    "C09": "Also: the package stores shared by all codemods of a run are read live (shared with C14).",
    "C10": "Also: the semgrep command line carries no option that turns an unparsable target into a failing exit status.",
    "C11": "Also: no per-file data is stored on an object shared by the workers (pipeline, codemod, detector), and a sort key that is a single projection of the element counts as unordered.",
    "C12": "Also: a one-shot iterator is consumed at most once on any path; a zero-based SARIF index is never tested by truthiness; dict.update is not used to combine result sets.",
    "C13": "Also: a transformer that enables repeated libcst passes does not itself add or remove statement lines.",
    "C15": "Also: the apply loop follows the sequence the report is compiled from, and ChangeSet constructions are followed through single-return helper methods.",
    "C16": "Also: no registered transformer rewrites by pattern over a subtree (libcst.matchers.replace).",
    "C17": "Also: only an empty project or an empty selection may end apply_codemods before the loop.",
    "C18": "Also: visit_Module prunes a file only by its path, never by a pre-check of its content; the codemod's own detector returns a fresh scan.",
    "C19": "Also: the XML transformer accepts an event without consulting a result location only under `self.results is None`.",
    "C20": "Also: the SARIF tool detection reads every run of every input (no swallowing handler around the loop), on which the duplicate-tool status depends.",
}

# clauses added after the fifth round (DESIGN.md 11.15)
EXTRA5 = {
    "C03": "Round 5: what the pipelines record reaches the report whole (no filtering copy in the metadata back-fill), under the path that was written, and the report models' validators only check.",
    "C04": "Round 5: each selected codemod executes once (selection keyed by codemod id) -- a second execution sees rewritten files in a real run and the originals in a dry run.",
    "C05": "Round 5: neither enumerator of project files descends into symlinked directories; a finding's file is the document's value verbatim (no decoding / normalisation).",
    "C06": "Round 5: the SARIF / DefectDojo readers add every result of the list (no per-result filter); a finding's file is taken verbatim.",
    "C07": "Round 5: the files visited derive from the selected paths, never from the detector's findings alone.",
    "C08": "Round 5: a fold of two calls compares identifiers of nodes its own matcher restricts to plain names (or deep_equals), never a lossy projection of the receivers.",
    "C09": "Round 5: memoised members read only state that nothing changes after construction; run-wide listings do not depend on content, size or time; every Finding owns its Rule object while the report-time back-fill renames rules in place.",
    "C10": "Round 5: a broad handler on the rewrite path either re-raises or lists the file as failed (marking one finding unfixed is not enough); one unreadable manifest does not end the discovery of the others.",
    "C11": "Round 5: no process-wide setting (recursion limit, cwd, environment, ...) is changed from worker threads; the findings lookup never probes the file system.",
    "C12": "Round 5: every result-file option reaches the tool map and later options add to, not replace, an entry; the readers add every result and keep file names verbatim; each Finding owns its Rule.",
    "C13": "Round 5: the findings handed to the transformer are exactly the lookup's result (no line filtering before the gates).",
    "C14": "Round 5: parser and writer of one manifest read it the same way (same library options; the writer follows names only if the parser does); one unreadable manifest does not hide the others.",
    "C15": "Round 5: report-model validators only check; a ChangeSet is not edited after construction; each Finding owns its Rule.",
    "C16": "Round 5: detector positions are never taken from a scan that pre-dates an earlier rewrite of the run.",
    "C17": "Round 5: the registry's listings are not memoised over a registry that is still being filled; the argument parser keeps argparse's default token handling.",
    "C18": "Round 5: broad handlers around rewriting code do not swallow; an import alias decides what a name resolves to; file names of findings are verbatim.",
    "C19": "Round 5: lexical SAX callbacks re-emit their parameters verbatim; a per-line helper returns the line or one substitution over the unmodified line.",
    "C20": "Round 5: the --output path is acted on only inside write_report; values taken from Optional-valued containers are tested before use; default argparse token handling.",
}


# clauses added after the sixth (codemod-focused) round and the fifth refactoring batch (DESIGN.md 11.16 / 11.17)
EXTRA6 = {
    "C01": "Round 6: an expression taken from the source is put under `*` / `**` / `await` only when its node class is known atomic or it is parenthesised.",
    "C02": "Round 6: hooks delete outright only node kinds that cannot carry a binding (or kinds a dedicated rule governs).",
    "C06": "Round 6: argument specifications consumed by replace_args are built per call (also through chooser helpers and memoised properties); gathering visitors are fresh per walk.",
    "C07": "Round 6: same argument-specification clause (a site skipped in the first run is fixed by the second).",
    "C08": "Round 6: remove-future-imports drops only names of its deprecated table; hand-built string literals of lazy-logging (R-STRLIT) and node-removal kinds shared.",
    "C13": "Round 6: no visit_* hook prunes the traversal by the user's line patterns; a plain transformer attribute that another hook's condition reads is never assigned under a line gate (found and repaired a genuine defect: fixed entry eeb141a).",
    "C09": "Round 6: a gathering visitor is built for the walk it is used for, never kept in an attribute between walks.",
    "C18": "Round 6: gathering visitors are fresh per walk.",
}


# clauses added in round 7 (two cooperating sites) and with the sixth refactoring batch / the metamorphic self-test (DESIGN.md 11.18 - 11.20)
EXTRA7 = {
    "C01": "Round 7: the parentheses of an expression taken from the source are never stripped.",
    "C03": "Round 7: the merge loop never asks an iterator for more after it raised (a generator that raised is finished); new manifest lines are placed after a terminated line (found and repaired a genuine defect in the setup.cfg writer: fixed entry 0d3dc4d).",
    "C05": "Round 7: the project listing applies kind tests only (no name- or path-based filter); nothing one codemod recorded is read while another runs.",
    "C06": "Round 7: the findings lookup answers for exactly one line and once per result.",
    "C08": "Round 7: detector positions are never taken from a scan that pre-dates an earlier rewrite.",
    "C10": "Round 7: no iterator is resumed after it raised; what an earlier codemod recorded is not read while a later one runs.",
    "C11": "Round 7: every Finding owns its Rule (sibling-file independence of the report); semgrep gets the selected files, not the directory; loops over identity-hashed node sets do not record change entries (found and repaired a genuine defect in unused-imports: fixed entry a7a5b29).",
    "C12": "Round 7: value-based de-duplication in the result path only while results are compared by all fields; the project listing applies kind tests only.",
    "C13": "Round 7: path patterns reach file_line_patterns verbatim.",
    "C14": "Round 7: a guarded text-mode manifest read also catches decoding errors; no computed-key store over a parsed manifest entry; new lines go after a terminated line (fixed entry 0d3dc4d).",
    "C15": "Round 7: the regex pipelines record a change exactly for the lines they edited.",
    "C16": "Round 7: per-file findings reach the transformer unfiltered; the text parsed is the text written back.",
    "C17": "Round 7: the parsed command line is read-only in run() (no option list is pruned in place by a helper before the eligibility mode is derived from it); the project listing applies kind tests only.",
    "C18": "Round 7: nothing an earlier codemod recorded about a file is read while a later one runs.",
    "C19": "Round 7: the findings lookup answers once per result.",
    "C20": "Round 7: a one-shot iterator is consumed once (the existence loop sees every result file); a guarded manifest read also catches decoding errors; --max-workers reaches the pool only validated or clamped.",
}


def main():
    props = [json.loads(l)["id"] for l in (VERIF / "properties.jsonl").read_text().splitlines() if l.strip()]
    checks = []
    for pid in props:
        if pid not in CLAIMS:
            continue
        c = CLAIMS[pid]
        checks.append(
            {
                "property_id": pid,
                "quick_cmd": f"/venv/bin/python sa/run.py {pid} --tier quick",
                "thorough_cmd": f"/venv/bin/python sa/run.py {pid} --tier thorough",
                "evidence_file": f"evidence/{pid}.json",
                "replay_cmd_template": f"/venv/bin/python sa/run.py {pid} --replay {{path}}",
                "engine": "sa",
                "level_claimed": {"category": "other", "text": c["text"] + (" " + EXTRA[pid] if pid in EXTRA else "") + (" " + EXTRA5[pid] if pid in EXTRA5 else "") + (" " + EXTRA6[pid] if pid in EXTRA6 else "") + (" " + EXTRA7[pid] if pid in EXTRA7 else ""), "design_ref": c["ref"]},
                "level_note": c["note"],
                "technique": c["technique"],
            }
        )
    manifest = {
        "version": 1,
        "setup_cmd": "/venv/bin/python -c \"import ast, yaml, libcst; print('static-analysis engine needs no build')\"",
        "hooks": {
            "guard": "PIXEE_CODEMODDER_PYTHON_VERIF",
            "enable": "none: the checks are static (ast over /repo/src) and need no instrumentation of the repository",
            "baseline_off_cmd": BASELINE,
            "source_commits": [],
            "add_only": True,
        },
        "engines": [
            {
                "name": "sa",
                "path": "sa/",
                "serves_properties": [c["property_id"] for c in checks],
                "kind_free_text": "repository-specific static analyser: ast source model, MRO/call graph, structured must-dataflow of branch facts, rule modules per property",
            }
        ],
        "checks": checks,
        "notes": "All checks: /venv/bin/python sa/run.py <ID> --tier quick|thorough. Exit 0 held / 1 VIOLATION / 2 ANALYSIS-ERROR. "
        "Known findings: known_findings.json. Thorough tier adds the in-memory self-test of the checker: seeded faults that the named rule must report, benign variants that must stay silent, and eight behaviour-preserving rewrites of the whole tree (sa/metamorph.py) under which the findings must not change.",
        "not_applicable": [
            {"property_id": pid, "reason": NA_REASONS.get(pid, NOT_BUILT)} for pid in props if pid not in CLAIMS
        ],
    }
    (VERIF / "MANIFEST.json").write_text(json.dumps(manifest, indent=1) + "\n")
    try:
        import jsonschema

        jsonschema.validate(manifest, json.loads(Path("/root/.vp/MANIFEST.schema.json").read_text()))
        print("MANIFEST.json valid;", len(checks), "checks claimed")
    except ImportError:
        print("jsonschema unavailable; manifest written unvalidated")


if __name__ == "__main__":
    sys.exit(main())
