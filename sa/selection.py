"""Description of a *selection*: the collection a function returns, as insertions of elements drawn from sources under facts.

Used for CodemodRegistry.match_codemods (C17).  The returned collection may be written as `list(D.values())` of a dict filled in
loops, as a list filled by append, or as a filtering comprehension; the description is the same:

    Selection(kind, insertions=[Insertion(value, key, parts, loops, source)], ...)

and the rules talk about insertions (keyed by id? under which facts? iterating what, in which order?) instead of spelling.
"""
from __future__ import annotations

import ast
from dataclasses import dataclass, field
from typing import Optional

from .flow import cond_facts
from .model import FuncInfo, last_attr, unparse, walk_no_nested


@dataclass
class Insertion:
    node: ast.AST  # the statement / comprehension that inserts
    value: ast.expr  # inserted element expression
    key: Optional[ast.expr]  # dict key (dict-built selections)
    parts: list[frozenset]  # alternatives of must-facts under which the insertion happens
    loops: list[ast.AST] = field(default_factory=list)  # enclosing For loops / comprehension generators, outermost first
    source: Optional["Selection"] = None  # where the element comes from when it is a loop variable over a collection


@dataclass
class Selection:
    kind: str  # 'dictvals' | 'list' | 'comp' | 'source' | 'unknown'
    expr: ast.expr
    insertions: list[Insertion] = field(default_factory=list)
    name: Optional[str] = None
    wrappers: list[str] = field(default_factory=list)  # list/tuple/sorted/set/reversed applied on the way out
    why_unknown: str = ""


class Describer:
    def __init__(self, ctx, fn: FuncInfo):
        self.ctx, self.fn = ctx, fn
        self.r = ctx.resolver(fn)
        self.flow = ctx.flow(fn)
        self.pm = ctx.parents(fn)

    # ------------------------------------------------------------ helpers
    def _loops_of(self, node: ast.AST) -> list[ast.AST]:
        out = []
        cur = self.pm.get(id(node))
        while cur is not None and cur is not self.fn.node:
            if isinstance(cur, (ast.For, ast.AsyncFor)):
                out.append(cur)
            cur = self.pm.get(id(cur))
        return list(reversed(out))

    def _parts_at(self, node: ast.AST) -> list[frozenset]:
        st = self.flow.state_at(node)
        if st is None:
            return []
        return [must for must, _may in st.parts]

    def _loop_binding(self, name: str, loops: list[ast.AST]):
        for lp in reversed(loops):
            if isinstance(lp, ast.For) and isinstance(lp.target, ast.Name) and lp.target.id == name:
                return lp
        return None

    def _value_source(self, value: ast.expr, loops: list[ast.AST], depth: int) -> Optional[Selection]:
        if isinstance(value, ast.Name):
            lp = self._loop_binding(value.id, loops)
            if lp is not None:
                return self.describe(lp.iter, depth - 1)
        return None

    # ------------------------------------------------------------ main
    def describe(self, e: ast.expr, depth: int = 8) -> Selection:
        wrappers: list[str] = []
        orig = e
        while True:
            if depth <= 0:
                return Selection("unknown", orig, why_unknown="too deep")
            if isinstance(e, ast.NamedExpr):
                e = e.value
                continue
            if isinstance(e, ast.Call) and isinstance(e.func, ast.Name) and e.func.id in ("list", "tuple", "sorted", "set", "frozenset", "reversed", "iter") and len(e.args) >= 1:
                wrappers.append(e.func.id)
                e = e.args[0]
                continue
            if isinstance(e, (ast.List, ast.Tuple)) and len(e.elts) == 1 and isinstance(e.elts[0], ast.Starred):
                wrappers.append("list")
                e = e.elts[0].value
                continue
            break
        sel = self._describe_core(e, depth)
        sel.wrappers = wrappers + sel.wrappers
        return sel

    def _describe_core(self, e: ast.expr, depth: int) -> Selection:
        # registry list / dict values on self: a source
        if isinstance(e, ast.Attribute) and isinstance(e.value, ast.Name) and e.value.id == "self":
            return Selection("source", e, name=e.attr)
        if isinstance(e, ast.Call) and isinstance(e.func, ast.Attribute) and e.func.attr in ("values", "keys", "items") and not e.args:
            recv = e.func.value
            if isinstance(recv, ast.Attribute) and isinstance(recv.value, ast.Name) and recv.value.id == "self":
                return Selection("source", e, name=recv.attr + "." + e.func.attr)
            if isinstance(recv, ast.Name) and e.func.attr == "values":
                return self._dict_built(recv.id, e, depth)
        if isinstance(e, (ast.ListComp, ast.GeneratorExp)):
            if len(e.generators) == 1 and isinstance(e.generators[0].target, ast.Name) and isinstance(e.elt, ast.Name) and e.elt.id == e.generators[0].target.id:
                g = e.generators[0]
                facts = set()
                for c in g.ifs:
                    facts |= cond_facts(c, True)
                outer = self._parts_at(e) or [frozenset()]
                ins = Insertion(e, e.elt, None, [p | frozenset(facts) for p in outer], self._loops_of(e) + [g], self.describe(g.iter, depth - 1))
                return Selection("comp", e, [ins])
            return Selection("unknown", e, why_unknown="comprehension that is not a plain filter of one collection")
        if isinstance(e, ast.Name):
            built = self._list_built(e.id, e, depth)
            if built is not None:
                return built
            sa = self.r.single_assignments()
            if e.id in sa and e.id not in self.fn.params():
                return self.describe(sa[e.id], depth - 1)
            if e.id in self.fn.params():
                return Selection("source", e, name="param:" + e.id)
            # a parameter normalised in place (`x = x or []`) is still that parameter
            vals = [n.value for n in walk_no_nested(self.fn.node) if isinstance(n, ast.Assign) and any(isinstance(t, ast.Name) and t.id == e.id for t in n.targets)]
            return Selection("unknown", e, why_unknown=f"local `{e.id}` with {len(vals)} definitions")
        return Selection("unknown", e, why_unknown=f"`{unparse(e)[:50]}`")

    def _is_empty_container(self, v: ast.expr, kinds=("dict", "list")) -> bool:
        if isinstance(v, ast.Dict) and not v.keys and "dict" in kinds:
            return True
        if isinstance(v, (ast.List, ast.Tuple)) and not v.elts and "list" in kinds:
            return True
        if isinstance(v, ast.Call) and isinstance(v.func, ast.Name) and v.func.id in kinds and not v.args and not v.keywords:
            return True
        return False

    def _inits(self, name: str):
        return [n for n in walk_no_nested(self.fn.node) if isinstance(n, (ast.Assign, ast.AnnAssign)) and n.value is not None
                and any(isinstance(t, ast.Name) and t.id == name for t in (n.targets if isinstance(n, ast.Assign) else [n.target]))]

    def _dict_built(self, name: str, e: ast.expr, depth: int) -> Selection:
        inits = self._inits(name)
        if len(inits) != 1 or not self._is_empty_container(inits[0].value, ("dict",)):
            return Selection("unknown", e, why_unknown=f"dict `{name}` is not initialised empty exactly once")
        sel = Selection("dictvals", e, name=name)
        for n in walk_no_nested(self.fn.node):
            key = val = None
            if isinstance(n, ast.Assign) and len(n.targets) == 1 and isinstance(n.targets[0], ast.Subscript) and isinstance(n.targets[0].value, ast.Name) and n.targets[0].value.id == name:
                key, val = n.targets[0].slice, n.value
            elif isinstance(n, ast.Call) and isinstance(n.func, ast.Attribute) and isinstance(n.func.value, ast.Name) and n.func.value.id == name:
                if n.func.attr == "setdefault" and len(n.args) == 2:
                    key, val = n.args
                elif n.func.attr in ("update", "__setitem__", "pop", "popitem", "clear"):
                    return Selection("unknown", e, why_unknown=f"dict `{name}` is modified through .{n.func.attr}()")
            if key is None:
                continue
            loops = self._loops_of(n)
            sel.insertions.append(Insertion(n, val, key, self._parts_at(n), loops, self._value_source(val, loops, depth)))
        return sel

    def _list_built(self, name: str, e: ast.expr, depth: int) -> Optional[Selection]:
        inits = self._inits(name)
        if len(inits) != 1 or not self._is_empty_container(inits[0].value, ("list",)):
            return None
        sel = Selection("list", e, name=name)
        found = False
        for n in walk_no_nested(self.fn.node):
            if isinstance(n, ast.Call) and isinstance(n.func, ast.Attribute) and isinstance(n.func.value, ast.Name) and n.func.value.id == name:
                loops = self._loops_of(n)
                if n.func.attr == "append" and n.args:
                    found = True
                    sel.insertions.append(Insertion(n, n.args[0], None, self._parts_at(n), loops, self._value_source(n.args[0], loops, depth)))
                elif n.func.attr in ("extend", "insert"):
                    found = True
                    arg = n.args[-1] if n.args else None
                    sel.insertions.append(Insertion(n, arg, None, self._parts_at(n), loops, self.describe(arg, depth - 1) if arg is not None and n.func.attr == "extend" else None))
                elif n.func.attr in ("remove", "pop", "clear", "reverse", "sort"):
                    sel.wrappers.append(n.func.attr)
            elif isinstance(n, ast.AugAssign) and isinstance(n.target, ast.Name) and n.target.id == name:
                found = True
                sel.insertions.append(Insertion(n, n.value, None, self._parts_at(n), self._loops_of(n), self.describe(n.value, depth - 1)))
        return sel if found else None


def leaf_source(sel: Optional[Selection]) -> Optional[Selection]:
    """Follow filtering comprehensions down to the collection they scan."""
    seen = 0
    while sel is not None and sel.kind == "comp" and seen < 6:
        sel = sel.insertions[0].source
        seen += 1
    return sel


def chain_facts(ins: Insertion) -> list[frozenset]:
    """Facts that hold for an inserted element: those at the insertion plus the filters of the comprehensions it was drawn through
    (element variables renamed to the insertion's value variable)."""
    parts = list(ins.parts) or [frozenset()]
    src = ins.source
    var = ins.value.id if isinstance(ins.value, ast.Name) else None
    hops = 0
    while src is not None and src.kind == "comp" and hops < 6:
        inner = src.insertions[0]
        ivar = inner.value.id if isinstance(inner.value, ast.Name) else None
        extra = set()
        for p in inner.parts:
            for pol, txt in p:
                if ivar and var and ivar != var:
                    try:
                        t = ast.parse(txt, mode="eval").body
                    except SyntaxError:
                        continue

                    class R(ast.NodeTransformer):
                        def visit_Name(self, n):
                            return ast.copy_location(ast.Name(id=var, ctx=n.ctx), n) if n.id == ivar else n

                    txt = unparse(R().visit(t))
                extra.add((pol, txt))
            break  # comprehension filters form a single alternative
        parts = [p | frozenset(extra) for p in parts]
        src = inner.source
        hops += 1
    return parts
