"""Metamorphic self-test of the checker: mechanised behaviour-preserving rewrites of the *whole* source tree (in memory).

Each transformation maps a Python source text to an equivalent program.  The thorough tier re-analyses the tree rewritten by each
of them and demands exactly the findings of the unmodified tree: a difference means some rule looks at spelling (a local's name, a
parameter's name, which arm of an `if` comes first, whether a value is returned through a temporary ...) rather than at the
program -- a false alarm (or a blind spot) in waiting.  Nothing is written to disk and nothing under /repo is executed.

The rewrites were validated once outside the checker: `tools/alpha_rename.py <repo> <dst> <mode>` writes the rewritten tree to a
scratch directory; for `params` (which includes `locals`) and `rettemp` the repository's own suite keeps its 1175-test passing set.

  unparse    every file re-rendered by ast.unparse (layout, comments, quoting)
  locals     every purely local variable of every function renamed
  params     + positional parameters whose name is never used as a keyword / string anywhere in src/ and tests/ renamed
  ifswap     `if A: X else: Y`  ->  `if not A: Y else: X`
  rettemp    `return E`  ->  `result_rt = E; return result_rt`
  elsewrap   `if c: ...return` + rest  ->  `if c: ...return else: rest`
  andsplit   `if a and b: X`  ->  `if a: if b: X`
  keywordise positional arguments of calls to module-level repo functions (unique name, called by bare name) passed by keyword
"""
from __future__ import annotations

import ast
from pathlib import Path

MODES = ("unparse", "locals", "params", "ifswap", "rettemp", "elsewrap", "andsplit", "keywordise")
SUFFIX = "_lv"
HOOK_PREFIXES = ("visit_", "leave_", "on_visit", "on_leave")


# ------------------------------------------------------------------------------------------------ scopes
def _targets(t):
    if isinstance(t, ast.Name):
        yield t.id
    elif isinstance(t, (ast.Tuple, ast.List)):
        for e in t.elts:
            yield from _targets(e)
    elif isinstance(t, ast.Starred):
        yield from _targets(t.value)


def scope_sets(fn):
    """(names bound directly in the function's own scope, names a nested scope binds itself, names that must be left alone, parameters)"""
    own, nested_bound, blocked = set(), set(), set()

    def walk(node, depth):
        for ch in ast.iter_child_nodes(node):
            if isinstance(ch, (ast.FunctionDef, ast.AsyncFunctionDef, ast.Lambda)):
                a = ch.args
                for p in a.posonlyargs + a.args + a.kwonlyargs + ([a.vararg] if a.vararg else []) + ([a.kwarg] if a.kwarg else []):
                    nested_bound.add(p.arg)
                if not isinstance(ch, ast.Lambda):
                    blocked.add(ch.name)
                for n in ast.walk(ch):
                    if isinstance(n, ast.Name) and isinstance(n.ctx, (ast.Store, ast.Del)):
                        nested_bound.add(n.id)
                    elif isinstance(n, (ast.Global, ast.Nonlocal)):
                        blocked.update(n.names)
                    elif isinstance(n, ast.ExceptHandler) and n.name:
                        nested_bound.add(n.name)
                    elif isinstance(n, (ast.MatchAs, ast.MatchStar)) and n.name:
                        nested_bound.add(n.name)
                    elif isinstance(n, ast.MatchMapping) and n.rest:
                        nested_bound.add(n.rest)
                continue
            if isinstance(ch, ast.ClassDef):
                blocked.add(ch.name)
                for n in ast.walk(ch):
                    if isinstance(n, ast.Name):
                        blocked.add(n.id)
                continue
            if isinstance(ch, (ast.ListComp, ast.SetComp, ast.DictComp, ast.GeneratorExp)):
                for g in ch.generators:
                    nested_bound.update(_targets(g.target))
                walk(ch, depth + 1)
                continue
            if isinstance(ch, ast.Name) and isinstance(ch.ctx, (ast.Store, ast.Del)):
                (own if depth == 0 else nested_bound).add(ch.id)
            elif isinstance(ch, (ast.Global, ast.Nonlocal)):
                blocked.update(ch.names)
            elif isinstance(ch, ast.ExceptHandler) and ch.name:
                blocked.add(ch.name)  # a plain string in the AST, not a Name node: left alone
            elif isinstance(ch, (ast.MatchAs, ast.MatchStar)) and ch.name:
                blocked.add(ch.name)
            elif isinstance(ch, ast.MatchMapping) and ch.rest:
                blocked.add(ch.rest)
            elif isinstance(ch, (ast.Import, ast.ImportFrom)):
                for al in ch.names:
                    blocked.add((al.asname or al.name).split(".")[0])
            elif isinstance(ch, ast.NamedExpr) and depth > 0 and isinstance(ch.target, ast.Name):
                blocked.add(ch.target.id)  # a walrus inside a comprehension binds in the enclosing function: left alone
            walk(ch, depth)

    walk(fn, 0)
    a = fn.args
    params = {p.arg for p in a.posonlyargs + a.args + a.kwonlyargs + ([a.vararg] if a.vararg else []) + ([a.kwarg] if a.kwarg else [])}
    return own, nested_bound, blocked, params


class _Rename(ast.NodeTransformer):
    def __init__(self, names, suffix):
        self.names, self.suffix = names, suffix

    def visit_Name(self, n):
        if n.id in self.names:
            n.id = n.id + self.suffix
        return n


def top_functions(tree):
    """every function / method that is not nested inside another function"""
    out = []

    def rec(node):
        for ch in ast.iter_child_nodes(node):
            if isinstance(ch, (ast.FunctionDef, ast.AsyncFunctionDef)):
                out.append(ch)
            elif isinstance(ch, (ast.ClassDef, ast.If, ast.Try, ast.With)):
                rec(ch)

    rec(tree)
    return out


def _blocks(node):
    out = []

    def rec(stmts):
        out.append(stmts)
        for st in stmts:
            if isinstance(st, (ast.FunctionDef, ast.AsyncFunctionDef, ast.ClassDef)):
                continue
            for field in ("body", "orelse", "finalbody"):
                sub = getattr(st, field, None)
                if isinstance(sub, list) and sub and isinstance(sub[0], ast.stmt):
                    rec(sub)
            if isinstance(st, ast.Try):
                for h in st.handlers:
                    rec(h.body)
            if isinstance(st, ast.Match):
                for c in st.cases:
                    rec(c.body)

    rec(node.body)
    return out


def keyword_names(texts) -> set[str]:
    """every keyword-argument name used in any call, and every identifier-like string constant, in the given sources: a parameter with
    such a name is left alone (it may be passed by keyword, through **kwargs, getattr or a fixture)"""
    kw = set()
    for text in texts:
        try:
            t = ast.parse(text)
        except SyntaxError:
            continue
        for n in ast.walk(t):
            if isinstance(n, ast.keyword) and n.arg:
                kw.add(n.arg)
            elif isinstance(n, ast.Constant) and isinstance(n.value, str) and n.value.isidentifier():
                kw.add(n.value)
    return kw


# ------------------------------------------------------------------------------------------------ the rewrites
def transform(text: str, mode: str, kw: set[str] | None = None, stats: dict | None = None) -> str:
    tree = ast.parse(text)
    count = 0
    if mode in ("locals", "params"):
        for fn in top_functions(tree):
            all_names = {n.id for n in ast.walk(fn) if isinstance(n, ast.Name)} | {a.arg for a in ast.walk(fn) if isinstance(a, ast.arg)}
            own, nested_bound, blocked, params = scope_sets(fn)
            names = {n for n in own - params - nested_bound - blocked if n + SUFFIX not in all_names and not n.startswith("__")}
            if names:
                _Rename(names, SUFFIX).visit(fn)
                count += len(names)
            if mode == "params" and not fn.name.startswith("__") and not any(
                    isinstance(d, ast.Name) and d.id in ("property", "fixture") or isinstance(d, ast.Attribute) and d.attr in ("fixture", "setter") for d in fn.decorator_list):
                ps = [p.arg for p in fn.args.posonlyargs + fn.args.args]
                ps = {p for p in ps if p not in ("self", "cls", "mcs") and p not in (kw or set()) and not p.startswith("_")
                      and p not in nested_bound and p not in blocked and p + "_pv" not in all_names}
                if ps:
                    _Rename(ps, "_pv").visit(fn)
                    for a in fn.args.posonlyargs + fn.args.args:
                        if a.arg in ps:
                            a.arg += "_pv"
                    count += len(ps)
    elif mode == "ifswap":
        class Swap(ast.NodeTransformer):
            def visit_If(self, n):
                nonlocal count
                self.generic_visit(n)
                if n.orelse and not (len(n.orelse) == 1 and isinstance(n.orelse[0], ast.If)):
                    count += 1
                    t = n.test.operand if isinstance(n.test, ast.UnaryOp) and isinstance(n.test.op, ast.Not) else ast.UnaryOp(op=ast.Not(), operand=n.test)
                    return ast.If(test=t, body=n.orelse, orelse=n.body)
                return n

        for fn in top_functions(tree):
            Swap().visit(fn)
    elif mode == "rettemp":
        class Ret(ast.NodeTransformer):
            def visit_FunctionDef(self, n):
                return n

            visit_AsyncFunctionDef = visit_Lambda = visit_FunctionDef

            def visit_Return(self, n):
                nonlocal count
                if n.value is None or isinstance(n.value, (ast.Name, ast.Constant)):
                    return n
                count += 1
                return [ast.Assign(targets=[ast.Name(id="result_rt", ctx=ast.Store())], value=n.value, lineno=n.lineno), ast.Return(value=ast.Name(id="result_rt", ctx=ast.Load()))]

        for fn in top_functions(tree):
            if any(isinstance(x, (ast.Yield, ast.YieldFrom)) for x in ast.walk(fn)):
                continue
            fn.body = [y for st in fn.body for y in (lambda r: r if isinstance(r, list) else [r])(Ret().visit(st))]
    elif mode in ("elsewrap", "andsplit"):
        def exits(body):
            return bool(body) and isinstance(body[-1], (ast.Return, ast.Raise, ast.Continue, ast.Break))

        for fn in top_functions(tree):
            changed = True
            while changed:
                changed = False
                for stmts in _blocks(fn):
                    for i, st in enumerate(stmts):
                        if mode == "elsewrap" and isinstance(st, ast.If) and not st.orelse and exits(st.body) and i + 1 < len(stmts):
                            st.orelse = stmts[i + 1:]
                            del stmts[i + 1:]
                            count += 1
                            changed = True
                            break
                        if mode == "andsplit" and isinstance(st, ast.If) and not st.orelse and isinstance(st.test, ast.BoolOp) and isinstance(st.test.op, ast.And):
                            first, others = st.test.values[0], st.test.values[1:]
                            inner = ast.If(test=others[0] if len(others) == 1 else ast.BoolOp(op=ast.And(), values=others), body=st.body, orelse=[])
                            st.test, st.body = first, [inner]
                            count += 1
                            changed = True
                            break
                    if changed:
                        break
    elif mode == "keywordise":
        sigs = kw or {}
        local_defs = {n.name for n in ast.walk(tree) if isinstance(n, (ast.FunctionDef, ast.AsyncFunctionDef, ast.ClassDef))}
        imported = {}
        for n in ast.walk(tree):
            if isinstance(n, ast.ImportFrom):
                for al in n.names:
                    imported[al.asname or al.name] = al.name
        top_level = {n.name for n in tree.body if isinstance(n, (ast.FunctionDef, ast.AsyncFunctionDef))}
        shadow = {n.id for n in ast.walk(tree) if isinstance(n, ast.Name) and isinstance(n.ctx, ast.Store)} | {a.arg for a in ast.walk(tree) if isinstance(a, ast.arg)}
        for c in ast.walk(tree):
            if not (isinstance(c, ast.Call) and isinstance(c.func, ast.Name) and c.args):
                continue
            nm = c.func.id
            real = nm if nm in top_level else imported.get(nm)
            if real is None or real not in sigs or nm in shadow or (nm in local_defs and nm not in top_level):
                continue
            ps = sigs[real]
            if len(c.args) > len(ps) or any(isinstance(a, ast.Starred) for a in c.args) or any(k.arg is None for k in c.keywords):
                continue
            c.keywords = [ast.keyword(arg=ps[i], value=a) for i, a in enumerate(c.args)] + c.keywords
            c.args = []
            count += 1
    elif mode != "unparse":
        raise ValueError(mode)
    ast.fix_missing_locations(tree)
    if stats is not None:
        stats["rewrites"] = stats.get("rewrites", 0) + count
    return ast.unparse(tree) + "\n"


def tree_overlay(repo: Path, src_subdir: str, mode: str, base_overlay: dict[str, str] | None = None) -> tuple[dict[str, str], dict]:
    """overlay {path relative to src/: rewritten text} for every python file under src/ (an existing overlay is rewritten on top)"""
    src = repo / src_subdir
    texts = {}
    for f in sorted(src.rglob("*.py")):
        rel = str(f.relative_to(src))
        try:
            texts[rel] = f.read_text(encoding="utf-8")
        except (OSError, UnicodeDecodeError):
            continue
    texts.update(base_overlay or {})
    kw = None
    if mode == "params":
        extra = []
        for root in (repo / "tests", repo / "integration_tests"):
            if root.is_dir():
                for f in root.rglob("*.py"):
                    try:
                        extra.append(f.read_text(encoding="utf-8"))
                    except (OSError, UnicodeDecodeError):
                        pass
        kw = keyword_names(list(texts.values()) + extra)
    if mode == "keywordise":
        # signatures of module-level functions whose name is defined exactly once in the whole tree (methods and nested functions count as
        # definitions of the name too), without *args / positional-only parameters / decorators
        seen: dict[str, int] = {}
        sig: dict[str, list[str]] = {}
        for text in texts.values():
            try:
                t = ast.parse(text)
            except SyntaxError:
                continue
            for n in ast.walk(t):
                if isinstance(n, (ast.FunctionDef, ast.AsyncFunctionDef, ast.ClassDef)):
                    seen[n.name] = seen.get(n.name, 0) + 1
            for n in t.body:
                if isinstance(n, (ast.FunctionDef, ast.AsyncFunctionDef)) and not n.decorator_list and not n.args.vararg and not n.args.posonlyargs:
                    sig[n.name] = [a.arg for a in n.args.args]
        kw = {k: v for k, v in sig.items() if seen.get(k) == 1}
    stats = {"files": 0, "rewrites": 0}
    out = {}
    for rel, text in texts.items():
        try:
            out[rel] = transform(text, mode, kw, stats)
            stats["files"] += 1
        except SyntaxError:
            continue
    return out, stats
