"""E1-E3: source model, class hierarchy / MRO, name and call resolution.

Everything here works on `ast` trees of /repo/src (optionally overlaid in memory); nothing
under /repo is imported or executed.
"""
from __future__ import annotations

import ast
import os
from dataclasses import dataclass, field
from pathlib import Path
from typing import Iterable, Iterator, Optional

REPO = Path(os.environ.get("VERIF_REPO", "/repo"))
SRC_SUBDIR = "src"
PACKAGES = ("codemodder", "core_codemods")
# test helpers and developer scripts are not part of what `codemodder` runs
EXCLUDED_PREFIXES = ("codemodder/codemods/test/", "codemodder/scripts/")


class AnalysisError(Exception):
    """Model failure or vanished anchor -> exit 2 (never a silent pass)."""


def unparse(node: ast.AST) -> str:
    try:
        return ast.unparse(node)
    except Exception:  # pragma: no cover
        return "<?>"


def norm_text(node: ast.AST) -> str:
    """Normalised statement text used for finding keys (never line numbers)."""
    return " ".join(unparse(node).split())


@dataclass
class FuncInfo:
    qname: str
    module: "Module"
    node: ast.FunctionDef | ast.AsyncFunctionDef
    cls: Optional["ClassInfo"] = None
    parent: Optional["FuncInfo"] = None  # enclosing function for nested defs
    absorbed: bool = False  # private helper whose every call site was inlined into its callers (sa/inline.py)

    @property
    def name(self) -> str:
        return self.node.name

    @property
    def file(self) -> str:
        return self.module.relpath

    def loc(self, node: ast.AST | None = None) -> str:
        n = node if node is not None else self.node
        orig = getattr(n, "_orig_loc", None)
        if orig is not None:
            return f"{SRC_SUBDIR}/{orig[0]}:{orig[1]}"
        return f"{SRC_SUBDIR}/{self.module.relpath}:{getattr(n, 'lineno', 0)}"

    def params(self) -> list[str]:
        a = self.node.args
        return [x.arg for x in a.posonlyargs + a.args + a.kwonlyargs] + (
            [a.vararg.arg] if a.vararg else []
        ) + ([a.kwarg.arg] if a.kwarg else [])

    def positional_params(self) -> list[str]:
        a = self.node.args
        return [x.arg for x in a.posonlyargs + a.args]

    def decorators(self) -> list[str]:
        return [unparse(d) for d in self.node.decorator_list]

    def __hash__(self):
        return hash(self.qname)

    def __eq__(self, other):
        return isinstance(other, FuncInfo) and other.qname == self.qname

    def __repr__(self):
        return f"<Func {self.qname}>"


@dataclass
class ClassInfo:
    qname: str
    module: "Module"
    node: ast.ClassDef
    base_exprs: list[ast.expr] = field(default_factory=list)
    bases: list[str] = field(default_factory=list)  # resolved qualified names
    methods: dict[str, FuncInfo] = field(default_factory=dict)
    attrs: dict[str, ast.expr] = field(default_factory=dict)  # class-level assignments
    ann: dict[str, ast.expr] = field(default_factory=dict)  # class-level annotations

    @property
    def name(self) -> str:
        return self.node.name

    def loc(self, node: ast.AST | None = None) -> str:
        n = node if node is not None else self.node
        return f"{SRC_SUBDIR}/{self.module.relpath}:{getattr(n, 'lineno', 0)}"

    def __hash__(self):
        return hash(self.qname)

    def __eq__(self, other):
        return isinstance(other, ClassInfo) and other.qname == self.qname

    def __repr__(self):
        return f"<Class {self.qname}>"


@dataclass
class Module:
    name: str  # dotted
    relpath: str  # relative to src/
    text: str
    tree: ast.Module
    is_pkg: bool
    imports: dict[str, str] = field(default_factory=dict)  # local name -> qualified
    classes: dict[str, ClassInfo] = field(default_factory=dict)
    functions: dict[str, FuncInfo] = field(default_factory=dict)
    constants: dict[str, ast.expr] = field(default_factory=dict)  # module-level Name = expr
    assign_nodes: dict[str, ast.stmt] = field(default_factory=dict)

    @property
    def package(self) -> str:
        return self.name if self.is_pkg else self.name.rpartition(".")[0]


class Program:
    def __init__(self, overlay: dict[str, str] | None = None, repo: Path | None = None):
        self.repo = Path(repo) if repo else REPO
        self.src = self.repo / SRC_SUBDIR
        self.overlay = dict(overlay or {})
        self.modules: dict[str, Module] = {}
        self.classes: dict[str, ClassInfo] = {}
        self.functions: dict[str, FuncInfo] = {}  # module-level and methods and nested
        self._mro_cache: dict[str, list[str]] = {}
        self._subclasses: dict[str, set[str]] = {}
        self._load()
        self._index()
        self.inline_summary: dict = {}
        if not os.environ.get("VERIF_NO_INLINE"):
            from .inline import inline_program

            self.inline_summary = inline_program(self)

    # ------------------------------------------------------------------ loading
    def _iter_files(self) -> Iterator[tuple[str, str]]:
        seen = set()
        for pkg in PACKAGES:
            root = self.src / pkg
            if not root.is_dir():
                raise AnalysisError(f"package directory missing: {root}")
            for p in sorted(root.rglob("*.py")):
                rel = p.relative_to(self.src).as_posix()
                if rel.startswith(EXCLUDED_PREFIXES):
                    continue
                seen.add(rel)
                if rel in self.overlay:
                    yield rel, self.overlay[rel]
                else:
                    yield rel, p.read_text(encoding="utf-8")
        for rel, text in self.overlay.items():
            if rel not in seen and rel.endswith(".py") and not rel.startswith(EXCLUDED_PREFIXES):
                yield rel, text

    def _load(self):
        for rel, text in self._iter_files():
            try:
                tree = ast.parse(text, filename=rel)
            except SyntaxError as e:
                raise AnalysisError(f"cannot parse {rel}: {e}") from e
            is_pkg = rel.endswith("/__init__.py")
            name = rel[: -len("/__init__.py")] if is_pkg else rel[:-3]
            name = name.replace("/", ".")
            self.modules[name] = Module(name, rel, text, tree, is_pkg)
        if len(self.modules) < 150:
            raise AnalysisError(f"only {len(self.modules)} modules parsed (expected >= 150)")

    def read_text(self, rel_to_repo: str) -> str:
        """Read a non-python repo file (docs, pyproject) honouring the overlay (keys relative to src/)."""
        key = rel_to_repo[len(SRC_SUBDIR) + 1 :] if rel_to_repo.startswith(SRC_SUBDIR + "/") else None
        if key and key in self.overlay:
            return self.overlay[key]
        return (self.repo / rel_to_repo).read_text(encoding="utf-8")

    # ------------------------------------------------------------------ indexing
    def _index(self):
        for mod in self.modules.values():
            self._index_module(mod)
        for cls in self.classes.values():
            cls.bases = [self.resolve_expr_name(cls.module, b) or unparse(b) for b in cls.base_exprs]
        for cls in self.classes.values():
            for b in cls.bases:
                self._subclasses.setdefault(b, set()).add(cls.qname)

    def _index_module(self, mod: Module):
        def add_imports(body: Iterable[ast.stmt]):
            for st in body:
                if isinstance(st, ast.Import):
                    for a in st.names:
                        if a.asname:
                            mod.imports[a.asname] = a.name
                        else:
                            top = a.name.split(".")[0]
                            mod.imports[top] = top
                elif isinstance(st, ast.ImportFrom):
                    base = st.module or ""
                    if st.level:
                        pkg_parts = mod.package.split(".") if mod.package else []
                        up = st.level - 1
                        if up:
                            pkg_parts = pkg_parts[:-up]
                        base = ".".join(pkg_parts + ([st.module] if st.module else []))
                    for a in st.names:
                        if a.name == "*":
                            continue
                        mod.imports[a.asname or a.name] = f"{base}.{a.name}"
                elif isinstance(st, (ast.If, ast.Try)):
                    add_imports(st.body)
                    add_imports(getattr(st, "orelse", []))
                    for h in getattr(st, "handlers", []):
                        add_imports(h.body)

        add_imports(mod.tree.body)
        # function-level imports are also indexed (used for lazily imported helpers)
        for node in ast.walk(mod.tree):
            if isinstance(node, (ast.FunctionDef, ast.AsyncFunctionDef)):
                add_imports([s for s in ast.walk(node) if isinstance(s, (ast.Import, ast.ImportFrom))])

        def index_func(node, cls: ClassInfo | None, parent: FuncInfo | None, prefix: str) -> FuncInfo:
            fi = FuncInfo(f"{prefix}.{node.name}", mod, node, cls, parent)
            self.functions[fi.qname] = fi
            for sub in node.body:
                index_nested(sub, fi)
            return fi

        def index_nested(st: ast.AST, parent: FuncInfo):
            for sub in ast.iter_child_nodes(st) if not isinstance(
                st, (ast.FunctionDef, ast.AsyncFunctionDef, ast.ClassDef)
            ) else [st]:
                if isinstance(sub, (ast.FunctionDef, ast.AsyncFunctionDef)):
                    index_func(sub, parent.cls, parent, parent.qname + ".<locals>")
                elif isinstance(sub, ast.ClassDef):
                    index_class(sub, parent.qname + ".<locals>")
                elif sub is not st:
                    index_nested(sub, parent)

        def index_class(node: ast.ClassDef, prefix: str) -> ClassInfo:
            ci = ClassInfo(f"{prefix}.{node.name}", mod, node, list(node.bases))
            self.classes[ci.qname] = ci
            for st in node.body:
                if isinstance(st, (ast.FunctionDef, ast.AsyncFunctionDef)):
                    ci.methods[st.name] = index_func(st, ci, None, ci.qname)
                elif isinstance(st, ast.Assign):
                    for t in st.targets:
                        if isinstance(t, ast.Name):
                            ci.attrs[t.id] = st.value
                elif isinstance(st, ast.AnnAssign) and isinstance(st.target, ast.Name):
                    ci.ann[st.target.id] = st.annotation
                    if st.value is not None:
                        ci.attrs[st.target.id] = st.value
                elif isinstance(st, ast.ClassDef):
                    index_class(st, ci.qname)
            return ci

        def index_body(body):
            for st in body:
                if isinstance(st, (ast.FunctionDef, ast.AsyncFunctionDef)):
                    mod.functions[st.name] = index_func(st, None, None, mod.name)
                elif isinstance(st, ast.ClassDef):
                    mod.classes[st.name] = index_class(st, mod.name)
                elif isinstance(st, ast.Assign):
                    for t in st.targets:
                        if isinstance(t, ast.Name):
                            mod.constants[t.id] = st.value
                            mod.assign_nodes[t.id] = st
                elif isinstance(st, ast.AnnAssign) and isinstance(st.target, ast.Name) and st.value:
                    mod.constants[st.target.id] = st.value
                    mod.assign_nodes[st.target.id] = st
                elif isinstance(st, ast.If):
                    index_body(st.body)
                    index_body(st.orelse)

        index_body(mod.tree.body)

    # ------------------------------------------------------------------ name resolution
    def canonical(self, qname: str, _depth: int = 0) -> str:
        """Follow re-exports: a.b.X where a.b imports X from c -> c.X."""
        if _depth > 8:
            return qname
        parts = qname.split(".")
        for i in range(len(parts), 0, -1):
            modname = ".".join(parts[:i])
            mod = self.modules.get(modname)
            if mod is None:
                continue
            rest = parts[i:]
            if not rest:
                return qname
            head = rest[0]
            if head in mod.classes or head in mod.functions or head in mod.constants:
                return qname
            if head in mod.imports:
                target = mod.imports[head]
                new = ".".join([target] + rest[1:])
                if new == qname:
                    return qname
                return self.canonical(new, _depth + 1)
            sub = f"{modname}.{head}"
            if sub in self.modules:
                continue
            return qname
        return qname

    def resolve_dotted(self, mod: Module, dotted: str) -> Optional[str]:
        head, _, rest = dotted.partition(".")
        if head in mod.classes or head in mod.functions or head in mod.constants:
            q = f"{mod.name}.{dotted}"
        elif head in mod.imports:
            q = mod.imports[head] + ("." + rest if rest else "")
        else:
            return None
        return self.canonical(q)

    def resolve_expr_name(self, mod: Module, expr: ast.expr) -> Optional[str]:
        d = dotted_name(expr)
        if d is None:
            if isinstance(expr, ast.Subscript):  # Generic[...]
                return self.resolve_expr_name(mod, expr.value)
            return None
        r = self.resolve_dotted(mod, d)
        return r if r is not None else d

    # ------------------------------------------------------------------ hierarchy
    def mro(self, qname: str) -> list[str]:
        if qname in self._mro_cache:
            return self._mro_cache[qname]
        cls = self.classes.get(qname)
        if cls is None:
            res = [qname]
        else:
            seqs = [self.mro(b) for b in cls.bases] + [list(cls.bases)]
            res = [qname] + _c3_merge([list(s) for s in seqs if s])
        self._mro_cache[qname] = res
        return res

    def mro_classes(self, qname: str) -> list[ClassInfo]:
        return [self.classes[q] for q in self.mro(qname) if q in self.classes]

    def is_subclass(self, qname: str, base: str) -> bool:
        return base in self.mro(qname)

    def all_subclasses(self, qname: str) -> set[str]:
        out: set[str] = set()
        stack = [qname]
        while stack:
            q = stack.pop()
            for s in self._subclasses.get(q, ()):
                if s not in out:
                    out.add(s)
                    stack.append(s)
        return out

    def lookup_method(self, cls_q: str, name: str, after: str | None = None) -> Optional[FuncInfo]:
        m = self.mro(cls_q)
        if after is not None and after in m:
            m = m[m.index(after) + 1 :]
        for q in m:
            c = self.classes.get(q)
            if c and name in c.methods:
                return c.methods[name]
        return None

    def lookup_attr(self, cls_q: str, name: str) -> Optional[tuple[ClassInfo, ast.expr]]:
        for q in self.mro(cls_q):
            c = self.classes.get(q)
            if c and name in c.attrs:
                return c, c.attrs[name]
        return None

    def external_bases(self, cls_q: str) -> list[str]:
        return [q for q in self.mro(cls_q) if q not in self.classes]

    # ------------------------------------------------------------------ convenience
    def live_functions(self) -> list[FuncInfo]:
        """All functions except private helpers whose body now lives, inlined, in every caller (sa/inline.py)."""
        return [f for f in self.functions.values() if not f.absorbed]

    def func(self, qname: str) -> FuncInfo:
        f = self.functions.get(qname)
        if f is None:
            raise AnalysisError(f"anchor function vanished: {qname}")
        return f

    def cls(self, qname: str) -> ClassInfo:
        c = self.classes.get(qname)
        if c is None:
            raise AnalysisError(f"anchor class vanished: {qname}")
        return c

    def module(self, name: str) -> Module:
        m = self.modules.get(name)
        if m is None:
            raise AnalysisError(f"anchor module vanished: {name}")
        return m

    def stats(self) -> dict:
        return {
            "files": len(self.modules),
            "classes": len(self.classes),
            "functions": len(self.functions),
        }


def _c3_merge(seqs: list[list[str]]) -> list[str]:
    res: list[str] = []
    seqs = [s for s in seqs if s]
    while seqs:
        for s in seqs:
            cand = s[0]
            if not any(cand in t[1:] for t in seqs):
                break
        else:
            # inconsistent hierarchy: fall back to first-seen order
            cand = seqs[0][0]
        res.append(cand)
        seqs = [[x for x in s if x != cand] for s in seqs]
        seqs = [s for s in seqs if s]
    return res


def literal_elements(prog: "Program", mod: "Module", expr: ast.expr, depth: int = 3) -> Optional[list[ast.expr]]:
    """Elements of a tuple/list/set/frozenset literal, also when it is reached through a module-level name that is assigned
    exactly once (`_OPEN = ("open", "to_review")`), possibly imported from another module of the repository."""
    if isinstance(expr, (ast.Tuple, ast.List, ast.Set)):
        return list(expr.elts)
    if isinstance(expr, ast.Call) and isinstance(expr.func, ast.Name) and expr.func.id in ("frozenset", "set", "tuple", "list") and len(expr.args) == 1 and not expr.keywords:
        return literal_elements(prog, mod, expr.args[0], depth)
    if depth and isinstance(expr, (ast.Name, ast.Attribute)):
        q = prog.resolve_expr_name(mod, expr)
        if q and "." in q:
            mname, name = q.rsplit(".", 1)
            m2 = prog.modules.get(mname)
            if m2 is not None and name in m2.constants:
                n_assign = 0
                for st in ast.walk(m2.tree):
                    tg = st.targets if isinstance(st, ast.Assign) else ([st.target] if isinstance(st, (ast.AnnAssign, ast.AugAssign)) else [])
                    n_assign += sum(1 for t in tg if isinstance(t, ast.Name) and t.id == name)
                    if isinstance(st, ast.Global) and name in st.names:
                        return None
                if n_assign == 1:
                    return literal_elements(prog, m2, m2.constants[name], depth - 1)
    return None


def dotted_name(expr: ast.AST) -> Optional[str]:
    parts = []
    while isinstance(expr, ast.Attribute):
        parts.append(expr.attr)
        expr = expr.value
    if isinstance(expr, ast.Name):
        parts.append(expr.id)
        return ".".join(reversed(parts))
    return None


def call_name(call: ast.Call) -> Optional[str]:
    return dotted_name(call.func)


def last_attr(expr: ast.AST) -> Optional[str]:
    if isinstance(expr, ast.Attribute):
        return expr.attr
    if isinstance(expr, ast.Name):
        return expr.id
    return None


def names_in(node: ast.AST) -> set[str]:
    return {n.id for n in ast.walk(node) if isinstance(n, ast.Name)}


def walk_no_nested(node: ast.AST) -> Iterator[ast.AST]:
    """ast.walk that does not descend into nested function / class definitions."""
    stack = [node]
    first = True
    while stack:
        n = stack.pop()
        if not first and isinstance(n, (ast.FunctionDef, ast.AsyncFunctionDef, ast.ClassDef, ast.Lambda)):
            continue
        first = False
        yield n
        stack.extend(reversed(list(ast.iter_child_nodes(n))))


def unparse_positional(fn, node: ast.AST) -> str:
    """Source text of `node` with the positional parameters of `fn` written `$0`, `$1`, ... : a way to name a construct (finding keys,
    exemption tables) that does not depend on what the parameters are called."""
    pos = {p_: f"${i}" for i, p_ in enumerate(fn.positional_params())}
    shown = ast.parse(unparse(node), mode="eval").body if isinstance(node, ast.expr) else ast.parse(unparse(node))
    for x in ast.walk(shown):
        if isinstance(x, ast.Name) and x.id in pos:
            x.id = pos[x.id]
    return unparse(shown)


# ---------------------------------------------------------------------- types / calls
class Resolver:
    """Light type inference + call resolution inside one function (E3)."""

    def __init__(self, prog: Program, fn: FuncInfo):
        self.prog = prog
        self.fn = fn
        self.mod = fn.module
        self._single: dict[str, ast.expr] | None = None
        self._assign_counts: dict[str, int] = {}

    # single-assignment locals -> value expression
    def single_assignments(self) -> dict[str, ast.expr]:
        if self._single is not None:
            return self._single
        counts: dict[str, int] = {}
        vals: dict[str, ast.expr] = {}
        nones: dict[str, int] = {}

        def bump(t: ast.AST, v: ast.expr | None):
            if isinstance(t, ast.Name):
                if isinstance(v, ast.Constant) and v.value is None and not isinstance(t.ctx, ast.Del):
                    # `x = None` is the absence sentinel next to the one real definition (typical after helper inlining:
                    # `try: x = read() except: x = None`); it does not make x multi-valued for provenance purposes
                    nones[t.id] = nones.get(t.id, 0) + 1
                    vals.setdefault(t.id, v)
                    return
                counts[t.id] = counts.get(t.id, 0) + 1
                if v is not None:
                    vals[t.id] = v
            elif isinstance(t, (ast.Tuple, ast.List)):
                for e in t.elts:
                    bump(e, None)
            elif isinstance(t, ast.Starred):
                bump(t.value, None)

        for n in walk_no_nested(self.fn.node):
            if isinstance(n, ast.Assign):
                for t in n.targets:
                    bump(t, n.value)
            elif isinstance(n, ast.AnnAssign) and n.value is not None:
                bump(n.target, n.value)
            elif isinstance(n, ast.AugAssign):
                bump(n.target, None)
                bump(n.target, None)
            elif isinstance(n, ast.NamedExpr):
                bump(n.target, n.value)
            elif isinstance(n, (ast.For, ast.AsyncFor)):
                bump(n.target, None)
            elif isinstance(n, ast.comprehension):
                bump(n.target, None)
            elif isinstance(n, (ast.With, ast.AsyncWith)):
                for it in n.items:
                    if it.optional_vars is not None:
                        bump(it.optional_vars, None)
            elif isinstance(n, ast.ExceptHandler) and n.name:
                counts[n.name] = counts.get(n.name, 0) + 1
            elif isinstance(n, (ast.MatchAs, ast.MatchStar)) and n.name:
                counts[n.name] = counts.get(n.name, 0) + 1
        for p in self.fn.params():
            counts[p] = counts.get(p, 0) + 1
        for k, c in nones.items():
            if counts.get(k, 0) == 0:
                counts[k] = c  # only ever None
        self._assign_counts = counts
        self._single = {k: v for k, v in vals.items() if counts.get(k) == 1}
        return self._single

    def expand(self, expr: ast.expr, depth: int = 4) -> ast.expr:
        """Replace a single-assigned local Name by its defining expression (transitively)."""
        sa = self.single_assignments()
        while depth and isinstance(expr, ast.Name) and expr.id in sa:
            expr = sa[expr.id]
            depth -= 1
        if isinstance(expr, ast.NamedExpr):
            return self.expand(expr.value, depth)
        return expr

    def param_annotation(self, name: str) -> Optional[ast.expr]:
        a = self.fn.node.args
        for x in a.posonlyargs + a.args + a.kwonlyargs:
            if x.arg == name:
                return x.annotation
        return None

    def _ann_to_type(self, ann: ast.expr | None, mod: Module | None = None) -> Optional[str]:
        mod = mod or self.mod
        if ann is None:
            return None
        if isinstance(ann, ast.Constant) and isinstance(ann.value, str):
            try:
                ann = ast.parse(ann.value, mode="eval").body
            except SyntaxError:
                return None
        if isinstance(ann, ast.BinOp) and isinstance(ann.op, ast.BitOr):
            for side in (ann.left, ann.right):
                if not (isinstance(side, ast.Constant) and side.value is None):
                    t = self._ann_to_type(side, mod)
                    if t:
                        return t
            return None
        if isinstance(ann, ast.Subscript):
            base = dotted_name(ann.value)
            if base in ("Optional", "typing.Optional"):
                return self._ann_to_type(ann.slice, mod)
            if base in ("type", "Type", "typing.Type"):
                return self._ann_to_type(ann.slice, mod)
            return self._ann_to_type(ann.value, mod)
        return self.prog.resolve_expr_name(mod, ann)

    def _elem_ann(self, ann: ast.expr | None) -> Optional[ast.expr]:
        """Element annotation of a container annotation: list[T] / Sequence[T] / Iterator[T] -> T."""
        if ann is None:
            return None
        if isinstance(ann, ast.Constant) and isinstance(ann.value, str):
            try:
                ann = ast.parse(ann.value, mode="eval").body
            except SyntaxError:
                return None
        if isinstance(ann, ast.BinOp) and isinstance(ann.op, ast.BitOr):
            for side in (ann.left, ann.right):
                if not (isinstance(side, ast.Constant) and side.value is None):
                    return self._elem_ann(side)
        if isinstance(ann, ast.Subscript):
            base = (dotted_name(ann.value) or "").split(".")[-1]
            if base == "Optional":
                return self._elem_ann(ann.slice)
            if base in ("list", "List", "Sequence", "Iterable", "Iterator", "set", "Set", "tuple", "Collection"):
                sl = ann.slice
                if isinstance(sl, ast.Tuple) and sl.elts:
                    sl = sl.elts[0]
                return sl
        return None

    def elem_type_of(self, expr: ast.expr, depth: int = 3) -> Optional[str]:
        """Class of the elements of an iterable expression (from annotations)."""
        if depth <= 0:
            return None
        if isinstance(expr, ast.Name):
            if expr.id in self.fn.params():
                e = self._elem_ann(self.param_annotation(expr.id))
                return self._ann_to_type(e) if e is not None else None
            sa = self.single_assignments()
            if expr.id in sa:
                return self.elem_type_of(sa[expr.id], depth - 1)
            return None
        if isinstance(expr, ast.Subscript) and isinstance(expr.slice, ast.Slice):
            return self.elem_type_of(expr.value, depth - 1)
        if isinstance(expr, ast.Attribute):
            base_t = self.type_of(expr.value, depth - 1)
            if base_t and base_t in self.prog.classes:
                for c in self.prog.mro_classes(base_t):
                    if expr.attr in c.ann:
                        e = self._elem_ann(c.ann[expr.attr])
                        if e is not None:
                            return self._ann_to_type(e, c.module)
                    m = c.methods.get(expr.attr)
                    if m is not None and m.node.returns is not None:
                        e = self._elem_ann(m.node.returns)
                        if e is not None:
                            return Resolver(self.prog, m)._ann_to_type(e)
            return None
        if isinstance(expr, ast.Call):
            # order / container changing builtins keep the element type:  sorted(xs, key=...), list(xs), reversed(xs), xs[:n] ...
            if isinstance(expr.func, ast.Name) and expr.func.id in ("sorted", "list", "tuple", "reversed", "set", "frozenset", "iter") and expr.args:
                return self.elem_type_of(expr.args[0], depth - 1)
            for t in self.resolve_call(expr):
                if isinstance(t, FuncInfo) and t.node.returns is not None:
                    e = self._elem_ann(t.node.returns)
                    if e is not None:
                        return Resolver(self.prog, t)._ann_to_type(e)
        return None

    def _loop_iter_for(self, name: str) -> Optional[ast.expr]:
        for n in walk_no_nested(self.fn.node):
            if isinstance(n, (ast.For, ast.AsyncFor)) and isinstance(n.target, ast.Name) and n.target.id == name:
                return n.iter
            if isinstance(n, ast.comprehension) and isinstance(n.target, ast.Name) and n.target.id == name:
                return n.iter
        return None

    def type_of(self, expr: ast.expr, depth: int = 3) -> Optional[str]:
        """Qualified class name of the value of expr, if inferable."""
        if depth <= 0:
            return None
        if isinstance(expr, ast.Name) and expr.id not in self.fn.params():
            it = self._loop_iter_for(expr.id)
            if it is not None:
                t = self.elem_type_of(it, depth)
                if t:
                    return t
        if isinstance(expr, ast.Name):
            if expr.id == "self" and self.fn.cls is not None and "self" in self.fn.params()[:1]:
                return self.fn.cls.qname
            if expr.id in self.fn.params():
                t = self._ann_to_type(self.param_annotation(expr.id))
                if t:
                    return t
                # nested function: look at enclosing function's locals
            sa = self.single_assignments()
            if expr.id in sa:
                return self.type_of(sa[expr.id], depth - 1)
            # local annotated assignment
            for n in walk_no_nested(self.fn.node):
                if isinstance(n, ast.AnnAssign) and isinstance(n.target, ast.Name) and n.target.id == expr.id:
                    t = self._ann_to_type(n.annotation)
                    if t:
                        return t
            # re-assigned local (accumulator): type of its first plain assignment
            for n in walk_no_nested(self.fn.node):
                if (
                    isinstance(n, ast.Assign)
                    and len(n.targets) == 1
                    and isinstance(n.targets[0], ast.Name)
                    and n.targets[0].id == expr.id
                    and not (isinstance(n.value, ast.Name) and n.value.id == expr.id)
                ):
                    t = self.type_of(n.value, depth - 1)
                    if t:
                        return t
                    break
            if self.fn.parent is not None:
                return Resolver(self.prog, self.fn.parent).type_of(expr, depth - 1)
            return None
        if isinstance(expr, ast.NamedExpr):
            return self.type_of(expr.value, depth)
        if isinstance(expr, ast.Call):
            if (
                isinstance(expr.func, ast.Name)
                and expr.func.id == "cls"
                and self.fn.cls is not None
                and self.fn.params()[:1] == ["cls"]
            ):
                return self.fn.cls.qname
            cv = self._class_valued(expr.func, depth)
            if cv is not None:
                return cv
            q = self.callee_qname(expr)
            if q is None:
                # `self.factory(...)` where the class declares `factory: type[C] = C`
                f = expr.func
                if isinstance(f, ast.Attribute) and isinstance(f.value, ast.Name) and f.value.id in ("self", "cls") and self.fn.cls is not None:
                    for c in self.prog.mro_classes(self.fn.cls.qname):
                        if f.attr in c.ann and "type[" in unparse(c.ann[f.attr]).replace("Type[", "type["):
                            return self._ann_to_type(c.ann[f.attr], c.module)
                return None
            if q in self.prog.classes:
                return q
            f = self.prog.functions.get(q)
            if f is not None and f.node.returns is not None:
                t = Resolver(self.prog, f)._ann_to_type(f.node.returns)
                if t and t.split(".")[-1] == "Self" and f.cls is not None:
                    return q.rpartition(".")[0] if q.rpartition(".")[0] in self.prog.classes else f.cls.qname
                return t
            if f is not None and f.cls is not None and any("classmethod" in d for d in f.decorators()):
                for n in walk_no_nested(f.node):
                    if (
                        isinstance(n, ast.Return)
                        and isinstance(n.value, ast.Call)
                        and isinstance(n.value.func, ast.Name)
                        and n.value.func.id == "cls"
                    ):
                        owner = q.rpartition(".")[0]
                        return owner if owner in self.prog.classes else f.cls.qname
            # external constructors of interest
            return q if q and q[:1].isalpha() and q.split(".")[-1][:1].isupper() else None
        if isinstance(expr, ast.Attribute):
            base_t = self.type_of(expr.value, depth - 1)
            if base_t and base_t in self.prog.classes:
                # class-level annotation or __init__ assignment
                for c in self.prog.mro_classes(base_t):
                    if expr.attr in c.ann:
                        t = Resolver(self.prog, next(iter(c.methods.values()), self.fn))._ann_to_type(
                            c.ann[expr.attr], c.module
                        ) if c.methods else self._ann_to_type(c.ann[expr.attr], c.module)
                        if t:
                            return t
                    init = c.methods.get("__init__")
                    if init is not None:
                        r = Resolver(self.prog, init)
                        for n in walk_no_nested(init.node):
                            tgt = None
                            val = None
                            if isinstance(n, ast.Assign) and len(n.targets) == 1:
                                tgt, val = n.targets[0], n.value
                            elif isinstance(n, ast.AnnAssign):
                                tgt, val = n.target, n.value
                                if (
                                    isinstance(tgt, ast.Attribute)
                                    and isinstance(tgt.value, ast.Name)
                                    and tgt.value.id == "self"
                                    and tgt.attr == expr.attr
                                ):
                                    t = r._ann_to_type(n.annotation)
                                    if t:
                                        return t
                            if (
                                isinstance(tgt, ast.Attribute)
                                and isinstance(tgt.value, ast.Name)
                                and tgt.value.id == "self"
                                and tgt.attr == expr.attr
                                and val is not None
                            ):
                                t = r.type_of(val, depth - 1)
                                if t:
                                    return t
                    # property with return annotation
                    m = c.methods.get(expr.attr)
                    if m is not None and any("property" in d for d in m.decorators()):
                        t = Resolver(self.prog, m)._ann_to_type(m.node.returns)
                        if t:
                            return t
            return None
        return None

    def _class_valued(self, e: ast.expr, depth: int = 3) -> Optional[str]:
        """e evaluates to a class taken from a dispatch table (`TABLE[k]` / `TABLE.get(k)`, TABLE a module-level dict of
        classes): the common base of the table's classes, so that a call on the instance dispatches to every entry."""
        if depth <= 0:
            return None
        if isinstance(e, ast.Name) and e.id not in self.fn.params():
            sa = self.single_assignments()
            if e.id in sa:
                return self._class_valued(sa[e.id], depth - 1)
            return None
        table = None
        if isinstance(e, ast.Subscript):
            table = e.value
        elif isinstance(e, ast.Call) and isinstance(e.func, ast.Attribute) and e.func.attr == "get" and e.args:
            table = e.func.value
        if not isinstance(table, ast.Name) or table.id not in self.mod.constants:
            return None
        node = self.mod.assign_nodes.get(table.id)
        if isinstance(node, ast.AnnAssign):
            ann = node.annotation
            if isinstance(ann, ast.Subscript) and isinstance(ann.slice, ast.Tuple) and len(ann.slice.elts) == 2:
                v = ann.slice.elts[1]
                if isinstance(v, ast.Subscript) and (dotted_name(v.value) or "").split(".")[-1] in ("type", "Type"):
                    t = self._ann_to_type(v)
                    if t in self.prog.classes:
                        return t
        val = self.mod.constants.get(table.id)
        if isinstance(val, ast.Dict) and val.values:
            qs = [self.prog.resolve_expr_name(self.mod, v) for v in val.values]
            if all(q in self.prog.classes for q in qs):
                common = [c for c in self.prog.mro(qs[0]) if all(c in self.prog.mro(q) for q in qs)]
                return common[0] if common else None
        return None

    def callee_qname(self, call: ast.Call) -> Optional[str]:
        """Qualified name of the callee for Name / dotted module-attribute calls."""
        d = dotted_name(call.func)
        if d is None:
            return None
        head = d.split(".")[0]
        if head in ("self", "cls"):
            return None
        sa = self.single_assignments()
        if head in self._assign_counts and head not in self.mod.imports and "." not in d:
            # local variable holding a callable; try its definition
            if head in sa and isinstance(sa[head], (ast.Name, ast.Attribute)):
                return self.prog.resolve_expr_name(self.mod, sa[head])
        r = self.prog.resolve_dotted(self.mod, d)
        if r is not None:
            return r
        # nested function defined in this function or enclosing ones
        f: FuncInfo | None = self.fn
        while f is not None:
            q = f"{f.qname}.<locals>.{d}"
            if q in self.prog.functions:
                return q
            f = f.parent
        return d  # builtin or unresolved global

    def resolve_call(self, call: ast.Call) -> list["FuncInfo | str"]:
        """All possible callees: FuncInfo for repo functions, str for external/unresolved."""
        prog = self.prog
        f = call.func
        # super().m(...)
        if (
            isinstance(f, ast.Attribute)
            and isinstance(f.value, ast.Call)
            and isinstance(f.value.func, ast.Name)
            and f.value.func.id == "super"
            and self.fn.cls is not None
        ):
            out: list[FuncInfo | str] = []
            # resolved relative to every concrete subclass's MRO is too wide; use defining class
            m = prog.lookup_method(self.fn.cls.qname, f.attr, after=self.fn.cls.qname)
            if m is not None:
                return [m]
            ext = prog.external_bases(self.fn.cls.qname)
            return [f"{ext[0]}.{f.attr}"] if ext else [f"?.{f.attr}"]
        if isinstance(f, ast.Attribute):
            recv = f.value
            if isinstance(recv, ast.Name) and recv.id in ("self", "cls") and self.fn.cls is not None:
                return self._method_targets(self.fn.cls.qname, f.attr, include_subclasses=True)
            # module attribute / class attribute
            d = dotted_name(f)
            if d is not None:
                q = self.callee_qname(call)
                if q and q in prog.functions:
                    return [prog.functions[q]]
                if q and q in prog.classes:
                    return self._ctor_targets(q)
                if q and "." in q:
                    owner, _, meth = q.rpartition(".")
                    if owner in prog.classes:
                        return self._method_targets(owner, meth, include_subclasses=False)
            t = self.type_of(recv)
            if t is not None:
                if t in prog.classes:
                    return self._method_targets(t, f.attr, include_subclasses=True)
                return [f"{t}.{f.attr}"]
            if d is not None:
                q = self.callee_qname(call)
                if q:
                    return [q]
            return [f"?.{f.attr}"]
        if isinstance(f, ast.Name):
            q = self.callee_qname(call)
            if q in prog.functions:
                return [prog.functions[q]]
            if q in prog.classes:
                return self._ctor_targets(q)
            # functools.partial-bound local
            sa = self.single_assignments()
            if f.id in sa and isinstance(sa[f.id], ast.Call):
                inner = sa[f.id]
                iq = self.callee_qname(inner)
                if iq in ("functools.partial", "partial") and inner.args:
                    return self.resolve_callable_expr(inner.args[0])
            return [q or f.id]
        return ["?"]

    def resolve_callable_expr(self, expr: ast.expr) -> list["FuncInfo | str"]:
        """Resolve an expression used as a callable value (callback, partial target)."""
        fake = ast.Call(func=expr, args=[], keywords=[])
        ast.copy_location(fake, expr)
        return self.resolve_call(fake)

    def _method_targets(self, cls_q: str, name: str, include_subclasses: bool) -> list["FuncInfo | str"]:
        prog = self.prog
        out: list[FuncInfo | str] = []
        m = prog.lookup_method(cls_q, name)
        if m is not None:
            out.append(m)
        else:
            ext = prog.external_bases(cls_q)
            out.append(f"{ext[0] if ext else cls_q}.{name}")
        if include_subclasses:
            for s in sorted(prog.all_subclasses(cls_q)):
                c = prog.classes[s]
                if name in c.methods and c.methods[name] not in out:
                    out.append(c.methods[name])
        return out

    def _ctor_targets(self, cls_q: str) -> list["FuncInfo | str"]:
        out: list[FuncInfo | str] = []
        for n in ("__new__", "__init__"):
            m = self.prog.lookup_method(cls_q, n)
            if m is not None:
                out.append(m)
        if not out:
            out.append(cls_q)
        return out


def bind_args(call: ast.Call, fn: FuncInfo, bound: bool) -> dict[str, ast.expr]:
    """Map call arguments to parameter names of fn (bound: skip self/cls)."""
    a = fn.node.args
    pos = [x.arg for x in a.posonlyargs + a.args]
    if bound and pos and pos[0] in ("self", "cls"):
        pos = pos[1:]
    out: dict[str, ast.expr] = {}
    for i, arg in enumerate(call.args):
        if isinstance(arg, ast.Starred):
            break
        if i < len(pos):
            out[pos[i]] = arg
    for kw in call.keywords:
        if kw.arg is not None:
            out[kw.arg] = kw.value
    return out


class CallGraph:
    """Whole-program call graph over repo functions (E3)."""

    def __init__(self, prog: Program):
        self.prog = prog
        self.edges: dict[str, set[str]] = {}
        self.sites: dict[str, list[tuple[FuncInfo, ast.Call]]] = {}  # callee -> call sites
        self.external: dict[str, list[tuple[FuncInfo, ast.Call, str]]] = {}
        self.dispatch_sites: dict[str, list[tuple[FuncInfo, ast.Call]]] = {}
        self.n_calls = 0
        self.n_resolved = 0
        for fn in prog.functions.values():
            if fn.absorbed:
                self.edges.setdefault(fn.qname, set())  # every call site was inlined: its body lives on in its callers
                continue
            self._scan(fn)

    def _properties(self) -> dict[str, list[FuncInfo]]:
        if not hasattr(self, "_props"):
            self._props: dict[str, list[FuncInfo]] = {}
            for f in self.prog.functions.values():
                if f.cls is not None and any(d.split(".")[-1] in ("property", "cached_property") for d in f.decorators()):
                    self._props.setdefault(f.name, []).append(f)
        return self._props

    def _scan(self, fn: FuncInfo):
        r = Resolver(self.prog, fn)
        outs = self.edges.setdefault(fn.qname, set())
        for n in walk_no_nested(fn.node):
            if not isinstance(n, ast.Call):
                continue
            self.n_calls += 1
            targets = r.resolve_call(n)
            any_res = False
            for t in targets:
                if isinstance(t, FuncInfo):
                    outs.add(t.qname)
                    self.sites.setdefault(t.qname, []).append((fn, n))
                    any_res = True
                else:
                    self.external.setdefault(fn.qname, []).append((fn, n, t))
                    if not t.startswith("?"):
                        any_res = True
            if any_res:
                self.n_resolved += 1
            # libcst dispatch: X.transform_module(...) / tree.visit(X) call X's visit_*/leave_* hooks
            if la_ := last_attr(n.func):
                vis_t = None
                if la_ in ("transform_module", "transform_module_impl") and isinstance(n.func, ast.Attribute):
                    vis_t = r.type_of(n.func.value)
                elif la_ in ("visit", "visit_batched") and n.args:
                    vis_t = r.type_of(n.args[0])
                if vis_t and vis_t in self.prog.classes:
                    for cq in [vis_t] + sorted(self.prog.all_subclasses(vis_t)):
                        for c in self.prog.mro_classes(cq):
                            for mname, m in c.methods.items():
                                if mname.startswith(("visit_", "leave_")) or mname in (
                                    "on_visit", "on_leave", "transform_module_impl", "visit_Module", "leave_Module",
                                ):
                                    outs.add(m.qname)
                                    self.dispatch_sites.setdefault(m.qname, []).append((fn, n))
            # callbacks passed by name: functools.partial(f, ...), executor.map(f, ...), map(f, ...)
            cq = r.callee_qname(n) or ""
            la = last_attr(n.func)
            if cq in ("functools.partial", "partial", "map", "filter") or la in ("map", "submit"):
                if n.args:
                    for t in r.resolve_callable_expr(n.args[0]):
                        if isinstance(t, FuncInfo):
                            outs.add(t.qname)
                            self.sites.setdefault(t.qname, []).append((fn, n))
        # property / cached_property reads are calls without a call node: `ctx.files_to_analyze` runs the method
        props = self._properties()
        for n in walk_no_nested(fn.node):
            if isinstance(n, ast.Attribute) and isinstance(n.ctx, ast.Load) and n.attr in props:
                t = r.type_of(n.value)
                for m in props[n.attr]:
                    # receiver of unknown type: every property of that name; of known repo type: the ones in its hierarchy
                    if t is None or t not in self.prog.classes or m.cls is None or m.cls.qname in self.prog.mro(t) or t in self.prog.mro(m.cls.qname):
                        outs.add(m.qname)
        # nested functions are reachable from their parent
        for q, f in self.prog.functions.items():
            if f.parent is fn:
                outs.add(q)

    def reachable(self, roots: Iterable[str]) -> set[str]:
        seen: set[str] = set()
        stack = list(roots)
        while stack:
            q = stack.pop()
            if q in seen:
                continue
            seen.add(q)
            stack.extend(self.edges.get(q, ()))
        return seen

    def path(self, root: str, target: str) -> list[str]:
        prev: dict[str, str | None] = {root: None}
        queue = [root]
        while queue:
            q = queue.pop(0)
            if q == target:
                out = []
                cur: str | None = q
                while cur is not None:
                    out.append(cur)
                    cur = prev[cur]
                return list(reversed(out))
            for n in sorted(self.edges.get(q, ())):
                if n not in prev:
                    prev[n] = q
                    queue.append(n)
        return []
