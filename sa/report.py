"""E10: report layer — rule instances, findings, known-findings matching, evidence, exit codes."""
from __future__ import annotations

import json
import os
import time
from dataclasses import dataclass, field
from pathlib import Path

VERIF = Path(__file__).resolve().parent.parent
KNOWN_FILE = VERIF / "known_findings.json"
EVIDENCE_DIR = VERIF / "evidence"


@dataclass
class Finding:
    prop: str
    rule: str
    construct: str  # qualified function / class / codemod id
    detail: str  # semantic discriminator inside the construct (never a line number)
    where: str  # file:line (diagnostic only, not part of the key)
    message: str
    path: list[str] = field(default_factory=list)  # call path / CFG path for diagnosis

    @property
    def key(self) -> str:
        return f"{self.rule}|{self.construct}|{self.detail}"

    def to_json(self) -> dict:
        return {
            "property": self.prop,
            "rule": self.rule,
            "construct": self.construct,
            "detail": self.detail,
            "where": self.where,
            "message": self.message,
            "path": self.path,
            "key": self.key,
        }


class Report:
    def __init__(self, prop: str, tier: str = "quick", quiet: bool = False):
        self.prop = prop
        self.tier = tier
        self.quiet = quiet
        self.t0 = time.time()
        self.instances: list[dict] = []
        self.findings: list[Finding] = []
        self.rules_run: dict[str, dict] = {}
        self.notes: list[str] = []
        self.assumptions: list[str] = []
        self.explanation = ""
        self.units: dict = {}
        self.selftest: dict | None = None
        self.minimums: dict[str, int] = {}
        self.not_covered: list[str] = []

    # -------------------------------------------------------------- recording
    def rule(self, rule_id: str, statement: str, min_instances: int = 1):
        self.rules_run.setdefault(rule_id, {"statement": statement, "instances": 0, "violations": 0})
        self.minimums[rule_id] = min_instances

    def instance(self, rule_id: str, construct: str, where: str, ok: bool, **facts):
        """One evaluated rule instance (an obligation); ok=True means discharged."""
        r = self.rules_run.setdefault(rule_id, {"statement": "", "instances": 0, "violations": 0})
        r["instances"] += 1
        rec = {"rule": rule_id, "construct": construct, "where": where, "ok": ok}
        rec.update({k: v for k, v in facts.items() if v is not None})
        self.instances.append(rec)

    def violation(self, rule_id: str, construct: str, detail: str, where: str, message: str, path=None):
        r = self.rules_run.setdefault(rule_id, {"statement": "", "instances": 0, "violations": 0})
        r["violations"] += 1
        f = Finding(self.prop, rule_id, construct, detail, where, message, list(path or []))
        if f.key not in {x.key for x in self.findings}:
            self.findings.append(f)
        return f

    def check(self, rule_id: str, construct: str, where: str, ok: bool, detail: str, message: str, path=None, **facts):
        """instance + violation in one call."""
        self.instance(rule_id, construct, where, ok, detail=detail, **facts)
        if not ok:
            self.violation(rule_id, construct, detail, where, message, path)
        return ok

    def note(self, text: str):
        self.notes.append(text)

    # -------------------------------------------------------------- finishing
    def check_minimums(self):
        from .model import AnalysisError

        for rid, n in self.minimums.items():
            got = self.rules_run.get(rid, {}).get("instances", 0)
            if got < n:
                raise AnalysisError(
                    f"rule {rid} evaluated {got} instances, fewer than the {n} confirmed by hand: "
                    f"an anchor vanished or the model no longer recognises it"
                )

    def split_known(self) -> tuple[list[tuple[Finding, dict]], list[Finding]]:
        known = load_known()
        idx = {(k["property"], k["key"]): k for k in known.get("findings", [])}
        kn, new = [], []
        for f in self.findings:
            e = idx.get((self.prop, f.key))
            if e is not None:
                kn.append((f, e))
            else:
                new.append(f)
        return kn, new

    def finish(self, write: bool = True) -> int:
        self.check_minimums()
        kn, new = self.split_known()
        wall = time.time() - self.t0
        replay_paths = []
        if write:
            rdir = EVIDENCE_DIR / "replay"
            rdir.mkdir(parents=True, exist_ok=True)
            for old in rdir.glob(f"{self.prop}-*.json"):
                old.unlink()
            for i, f in enumerate(new):
                p = rdir / f"{self.prop}-{i}.json"
                p.write_text(json.dumps(f.to_json(), indent=1))
                replay_paths.append(str(p.relative_to(VERIF)))
        if not self.quiet:
            for f, e in kn:
                print(f"KNOWN-FINDING: property={self.prop} {f.rule} {f.construct} [{f.detail}] - {e.get('what', f.message)}")
            for i, f in enumerate(new):
                print(f"{f.where}: {f.rule} {f.construct} [{f.detail}]: {f.message}")
                if f.path:
                    print("    path: " + " -> ".join(f.path))
                rp = replay_paths[i] if i < len(replay_paths) else "-"
                print(f"VIOLATION property={self.prop} replay={rp}")
        if write:
            self.write_evidence(wall, kn, new)
        if not self.quiet:
            n_inst = len(self.instances)
            print(
                f"[{self.prop}] rules={len(self.rules_run)} instances={n_inst} "
                f"known={len(kn)} new={len(new)} wall={wall:.2f}s"
            )
        return 1 if new else 0

    def write_evidence(self, wall: float, kn, new):
        EVIDENCE_DIR.mkdir(parents=True, exist_ok=True)
        n_inst = len(self.instances)
        distinct = len({(i["rule"], i["construct"], i.get("detail", "")) for i in self.instances})
        discharged = sum(1 for i in self.instances if i["ok"])
        samples = self.instances[:12] + [i for i in self.instances[12:] if not i["ok"]][:12]
        ev = {
            "property_id": self.prop,
            "tier": self.tier,
            "seed": int(os.environ.get("VERIF_SEED", "0") or 0),
            "level": "other",
            "coverage": {
                "explanation": self.explanation
                or "static structural analysis of /repo/src (ast): rule instances are enumerated from the "
                "resolved program model and each is decided on all control-flow paths",
                "evaluations": n_inst,
                "distinct_nontrivial": distinct,
                "rule": "one evaluation = one rule instance (a call site / hook / construct the rule ranges over) "
                "decided on the current tree; distinct = distinct (rule, construct, detail) triples",
                "obligations": n_inst,
                "discharged": discharged,
                "exhaustive": True,
                "samples": samples,
                "rules": self.rules_run,
                "units_analysed": self.units,
                "known_findings_matched": [f.to_json() for f, _ in kn],
                "new_violations": [f.to_json() for f in new],
                "not_covered": self.not_covered,
                "notes": self.notes,
                "selftest": self.selftest,
                "trusted_base": [
                    "CPython ast parser",
                    "engine's own call-graph / must-dataflow construction (sa/model.py, sa/flow.py)",
                    "libcst documented contracts (round-trip, leave_* replacement, metadata for original nodes only)",
                ],
            },
            "assumptions": self.assumptions
            or ["no eval/exec/setattr-style dynamism in src/ beyond what the engine models explicitly"],
            "wall_s": round(wall, 3),
            "violations": len(new),
        }
        (EVIDENCE_DIR / f"{self.prop}.json").write_text(json.dumps(ev, indent=1, default=str))


_known_cache = None


def load_known() -> dict:
    global _known_cache
    if _known_cache is None:
        if KNOWN_FILE.exists():
            _known_cache = json.loads(KNOWN_FILE.read_text())
        else:
            _known_cache = {"findings": [], "fixed": []}
    return _known_cache
