"""Orderedness of values: is the sequence an expression evaluates to in a deterministic (sorted) order?"""
from __future__ import annotations

import ast

from .model import FuncInfo, call_name, unparse, walk_no_nested

_MUTATORS = ("append", "extend", "insert", "add", "update", "remove", "pop", "reverse", "clear")


def _sorted_in_place_before(fn: FuncInfo, name: str, use: ast.AST) -> bool:
    """`name.sort(...)` executed before `use` with no later mutation / rebinding of the name in between (line order)."""
    use_line = getattr(use, "lineno", 10**9)
    sorts = []
    muts = []
    for n in walk_no_nested(fn.node):
        if isinstance(n, ast.Call) and isinstance(n.func, ast.Attribute) and isinstance(n.func.value, ast.Name) and n.func.value.id == name:
            if n.func.attr == "sort":
                sorts.append(n.lineno)
            elif n.func.attr in _MUTATORS:
                muts.append(n.lineno)
        elif isinstance(n, (ast.Assign, ast.AugAssign, ast.AnnAssign)):
            tg = n.targets if isinstance(n, ast.Assign) else [n.target]
            if any(isinstance(t, ast.Name) and t.id == name for t in tg):
                muts.append(n.lineno)
    good = [s for s in sorts if s < use_line]
    if not good:
        return False
    last = max(good)
    return not any(last < m < use_line for m in muts)


def is_sorted_value(ctx, fn: FuncInfo, e: ast.expr, use: ast.AST | None = None, depth: int = 6) -> bool:
    """True if e is (an order-preserving image of) a sorted sequence."""
    if depth <= 0 or e is None:
        return False
    r = ctx.resolver(fn)
    use = use if use is not None else e
    if isinstance(e, ast.NamedExpr):
        return is_sorted_value(ctx, fn, e.value, use, depth)
    if isinstance(e, ast.Call):
        cn = call_name(e)
        if cn == "sorted":
            return True
        if cn in ("list", "tuple", "iter", "enumerate") and len(e.args) == 1:
            return is_sorted_value(ctx, fn, e.args[0], use, depth - 1)
        if cn in ("map", "filter") and len(e.args) == 2:
            return is_sorted_value(ctx, fn, e.args[1], use, depth - 1)
        return False
    if isinstance(e, (ast.ListComp, ast.GeneratorExp)) and len(e.generators) == 1:
        return is_sorted_value(ctx, fn, e.generators[0].iter, use, depth - 1)
    if isinstance(e, (ast.List, ast.Tuple)):
        if len(e.elts) == 1 and isinstance(e.elts[0], ast.Starred):
            return is_sorted_value(ctx, fn, e.elts[0].value, use, depth - 1)
        return all(not isinstance(x, ast.Starred) for x in e.elts)  # a literal has the order written down
    if isinstance(e, ast.Name):
        if _sorted_in_place_before(fn, e.id, use):
            return True
        sa = r.single_assignments()
        if e.id in sa:
            return is_sorted_value(ctx, fn, sa[e.id], use, depth - 1)
        return False
    return False
