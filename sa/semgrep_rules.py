"""E8: reader for the subset of semgrep rule syntax used by the repository's own detector rules.

This reads the *rule's own text* (recovered statically from the codemod source) into alternatives of positive /
negative call patterns.  It is not a re-implementation of semgrep: `pattern-inside` and taint sources are context and are
ignored (stated in evidence); only call / assignment / class / with patterns are structured.
"""
from __future__ import annotations

import re
from dataclasses import dataclass, field
from typing import Optional

import yaml


@dataclass
class ArgPat:
    kind: str  # 'ellipsis' | 'pos' | 'kw'
    name: Optional[str] = None  # keyword name
    text: str = ""  # pattern text of the value

    def __repr__(self):
        return "..." if self.kind == "ellipsis" else (f"{self.name}={self.text}" if self.kind == "kw" else self.text)


@dataclass
class CallPat:
    callee: str  # dotted text with metavariables, e.g. 'requests.$F'
    args: list[ArgPat]
    raw: str

    @property
    def open_arity(self) -> bool:
        return any(a.kind == "ellipsis" for a in self.args)

    def kw(self, name: str) -> Optional[ArgPat]:
        for a in self.args:
            if a.kind == "kw" and a.name == name:
                return a
        return None

    @property
    def positional(self) -> list[ArgPat]:
        return [a for a in self.args if a.kind == "pos"]


@dataclass
class Alternative:
    positives: list[str] = field(default_factory=list)
    negatives: list[str] = field(default_factory=list)
    insides: list[str] = field(default_factory=list)
    not_insides: list[str] = field(default_factory=list)
    metavar_patterns: dict[str, list[str]] = field(default_factory=dict)  # $X -> allowed alternatives
    metavar_regex: dict[str, str] = field(default_factory=dict)
    focus: list[str] = field(default_factory=list)
    regexes: list[str] = field(default_factory=list)
    taint: bool = False

    def merged(self, other: "Alternative") -> "Alternative":
        mv = {k: list(v) for k, v in self.metavar_patterns.items()}
        for k, v in other.metavar_patterns.items():
            mv.setdefault(k, []).extend(v)
        return Alternative(
            self.positives + other.positives, self.negatives + other.negatives, self.insides + other.insides,
            self.not_insides + other.not_insides, mv, {**self.metavar_regex, **other.metavar_regex},
            self.focus + other.focus, self.regexes + other.regexes, self.taint or other.taint,
        )


def load_rules(rule_text: str) -> list[dict]:
    data = yaml.safe_load(rule_text)
    if isinstance(data, dict) and "rules" in data:
        data = data["rules"]
    if isinstance(data, dict):
        data = [data]
    return list(data or [])


def _expand(node) -> list[Alternative]:
    """Disjunctive normal form of a rule body (dict with pattern / patterns / pattern-either ...)."""
    if isinstance(node, str):
        return [Alternative(positives=[node])]
    alts = [Alternative()]

    def conj(new: list[Alternative]):
        nonlocal alts
        alts = [a.merged(b) for a in alts for b in new]

    if isinstance(node, list):  # `patterns:` list = conjunction
        for item in node:
            conj(_expand(item))
        return alts
    for key, val in node.items():
        if key == "pattern":
            conj([Alternative(positives=[val])])
        elif key == "pattern-not":
            conj([Alternative(negatives=[val])])
        elif key == "pattern-inside":
            conj([Alternative(insides=[val if isinstance(val, str) else str(val)])])
        elif key == "pattern-not-inside":
            conj([Alternative(not_insides=[val if isinstance(val, str) else str(val)])])
        elif key == "pattern-regex":
            conj([Alternative(regexes=[val])])
        elif key == "patterns":
            conj(_expand(val))
        elif key == "pattern-either":
            out = []
            for item in val:
                out += _expand(item)
            conj(out)
        elif key == "metavariable-pattern":
            mv = val.get("metavariable")
            sub = _expand({k: v for k, v in val.items() if k != "metavariable"})
            allowed = []
            for s in sub:
                allowed += s.positives
            conj([Alternative(metavar_patterns={mv: allowed})])
        elif key == "metavariable-regex":
            conj([Alternative(metavar_regex={val.get("metavariable"): val.get("regex")})])
        elif key == "focus-metavariable":
            conj([Alternative(focus=[val] if isinstance(val, str) else list(val))])
        elif key == "pattern-sinks":
            out = []
            for item in val:
                out += _expand(item)
            for o in out:
                o.taint = True
            conj(out)
        elif key in ("pattern-sources", "pattern-sanitizers", "pattern-propagators"):
            for a in alts:
                a.taint = True
        # id / message / severity / languages / mode / paths / metadata: not structural
    return alts


def alternatives(rule_text: str) -> list[Alternative]:
    out: list[Alternative] = []
    for rule in load_rules(rule_text):
        out += _expand(rule)
    return out


_CALL_HEAD = re.compile(r"^\s*(?:[\w$.\[\]'\"]|\(\.\.\.\)|\(\))+?\s*\(")


def split_top_level(s: str, sep: str = ",") -> list[str]:
    parts, depth, cur, quote = [], 0, "", None
    i = 0
    while i < len(s):
        ch = s[i]
        if quote:
            cur += ch
            if ch == "\\":
                i += 1
                if i < len(s):
                    cur += s[i]
            elif ch == quote:
                quote = None
        elif ch in "'\"":
            quote = ch
            cur += ch
        elif ch in "([{":
            depth += 1
            cur += ch
        elif ch in ")]}":
            depth -= 1
            cur += ch
        elif ch == sep and depth == 0:
            parts.append(cur)
            cur = ""
        else:
            cur += ch
        i += 1
    if cur.strip():
        parts.append(cur)
    return [p.strip() for p in parts]


def parse_call(pattern: str) -> Optional[CallPat]:
    """`callee(args)` with semgrep metavariables/ellipsis; None if the pattern is not a single call expression."""
    p = pattern.strip()
    if "\n" in p:
        return None
    if not p.endswith(")"):
        return None
    # find the opening paren matching the final ')'
    depth = 0
    quote = None
    start = None
    for i in range(len(p) - 1, -1, -1):
        ch = p[i]
        if ch == ")":
            depth += 1
        elif ch == "(":
            depth -= 1
            if depth == 0:
                start = i
                break
    if start is None or start == 0:
        return None
    callee = p[:start].strip()
    if not re.fullmatch(r"[\w$.]+(?:\(\.\.\.\)|\(\))?(?:\.[\w$]+)*", callee):
        return None
    inner = p[start + 1 : -1]
    args: list[ArgPat] = []
    for part in split_top_level(inner):
        if not part:
            continue
        if part == "...":
            args.append(ArgPat("ellipsis"))
            continue
        m = re.match(r"^([A-Za-z_]\w*)\s*=\s*(?!=)(.*)$", part, re.S)
        if m:
            args.append(ArgPat("kw", m.group(1), m.group(2).strip()))
        else:
            args.append(ArgPat("pos", None, part))
    return CallPat(callee, args, p)


def reported_calls(rule_text: str) -> list[tuple[Alternative, list[CallPat]]]:
    """Per alternative, the call patterns that describe the reported location."""
    out = []
    for alt in alternatives(rule_text):
        calls = [c for c in (parse_call(p) for p in alt.positives) if c is not None]
        out.append((alt, calls))
    return out


def fixed_arity(rule_text: str) -> Optional[int]:
    """If every alternative reports a call pattern without ellipsis and all with the same number of arguments: that number."""
    ns = set()
    for alt, calls in reported_calls(rule_text):
        if not calls:
            return None
        for c in calls:
            if c.open_arity:
                return None
            ns.add(len(c.args))
    return ns.pop() if len(ns) == 1 else None
