"""Enumeration of the repository's structural anchor sets (from the class hierarchy, never by file name)."""
from __future__ import annotations

import ast

from .model import AnalysisError, FuncInfo, last_attr, unparse, walk_no_nested
from .roles import Sink, classify_sink, handle_writes

PIPELINE_BASE = "codemodder.codemods.base_transformer.BaseTransformerPipeline"
WRITER_BASE = "codemodder.dependency_management.base_dependency_writer.DependencyWriter"
DIFF_FUNCS = {
    "codemodder.diff.create_diff": (0, 1),
    "codemodder.diff.create_diff_from_tree": (0, 1),
    "codemodder.diff.create_diff_and_linenums": (0, 1),
}


def is_abstract(fn: FuncInfo) -> bool:
    return any("abstractmethod" in d for d in fn.decorators())


def concrete_overrides(ctx, base: str, method: str) -> list[FuncInfo]:
    ctx.prog.cls(base)
    out = []
    for q in sorted(ctx.prog.all_subclasses(base)):
        c = ctx.prog.classes[q]
        m = c.methods.get(method)
        if m is not None and not is_abstract(m):
            out.append(m)
    return out


def pipeline_applies(ctx) -> list[FuncInfo]:
    out = concrete_overrides(ctx, PIPELINE_BASE, "apply")
    if len(out) < 3:
        raise AnalysisError(f"expected >= 3 concrete transformer pipelines, found {len(out)}")
    return out


def writer_adds(ctx) -> list[FuncInfo]:
    out = concrete_overrides(ctx, WRITER_BASE, "add_to_file")
    if len(out) < 4:
        raise AnalysisError(f"expected >= 4 manifest writers, found {len(out)}")
    return out


def rw_sites(ctx) -> list[FuncInfo]:
    """The read -> transform -> diff -> guarded write -> ChangeSet sites."""
    return pipeline_applies(ctx) + writer_adds(ctx)


def write_wrappers(ctx) -> dict[str, tuple[int | None, int | None]]:
    """Repo functions that consist of writing a parameter to a parameter path: qname -> (path idx, payload idx)."""
    out = {}
    for fn in ctx.prog.live_functions():
        if fn.cls is not None:
            continue
        params = fn.positional_params()
        r = ctx.resolver(fn)
        # `with <path>.open("wb") as f: f.write(payload)`: the payload of an open()-style sink is what is written to its handle
        handle_payload = {id(ocall): payload for _w, ocall, payload in handle_writes(fn.node, r)}
        for n in walk_no_nested(fn.node):
            if isinstance(n, ast.Call):
                s = classify_sink(n, r)
                if s is not None and isinstance(s.path, ast.Name) and s.path.id in params:
                    pay = None
                    payload = s.payload if s.payload is not None else handle_payload.get(id(n))
                    if payload is not None:
                        # a local prepared for the write (`encoded = new_code.encode("utf-8")`) stands for what it was computed from
                        if isinstance(payload, ast.Name) and payload.id not in params:
                            payload = r.expand(payload)
                        for x in ast.walk(payload):
                            if isinstance(x, ast.Name) and x.id in params:
                                pay = params.index(x.id)
                    if pay is not None:
                        out[fn.qname] = (params.index(s.path.id), pay)
    return out


def site_writes(ctx, fn: FuncInfo) -> list[dict]:
    """Write effects inside a site: direct sinks, handle writes and calls to write wrappers.

    each: {call (event node), path expr, payload expr}
    """
    r = ctx.resolver(fn)
    out = []
    hw = handle_writes(fn.node, r)
    open_calls_with_payload = {}
    for wcall, ocall, payload in hw:
        open_calls_with_payload[id(ocall)] = payload
    wrappers = write_wrappers(ctx)
    for n in walk_no_nested(fn.node):
        if not isinstance(n, ast.Call):
            continue
        s = classify_sink(n, r)
        if s is not None:
            payload = s.payload if s.payload is not None else open_calls_with_payload.get(id(n))
            out.append({"call": n, "path": s.path, "payload": payload, "kind": s.kind})
            continue
        for t in r.resolve_call(n):
            if isinstance(t, FuncInfo) and t.qname in wrappers:
                pi, yi = wrappers[t.qname]
                from .model import bind_args

                # path and payload are the wrapper's parameters, however the call passes them (position or keyword)
                b = bind_args(n, t, False)
                ps = t.positional_params()
                pe, ye = b.get(ps[pi]), b.get(ps[yi])
                if pe is not None and ye is not None:
                    out.append({"call": n, "path": pe, "payload": ye, "kind": "wrapper:" + t.name})
    return out


def diff_calls(ctx, fn: FuncInfo) -> list[tuple[ast.Call, ast.expr, ast.expr]]:
    r = ctx.resolver(fn)
    out = []
    for n in walk_no_nested(fn.node):
        if isinstance(n, ast.Call):
            q = r.callee_qname(n)
            if q in DIFF_FUNCS:
                # (before, after) are the first two parameters of the repo's diff helpers, however they are passed
                f = ctx.prog.functions.get(q)
                if f is not None:
                    from .model import bind_args

                    b = bind_args(n, f, False)
                    ps = f.positional_params()
                    if len(ps) >= 2 and ps[0] in b and ps[1] in b:
                        out.append((n, b[ps[0]], b[ps[1]]))
                        continue
                if len(n.args) >= 2:
                    out.append((n, n.args[0], n.args[1]))
    return out


def changeset_calls(ctx, fn: FuncInfo) -> list[ast.Call]:
    """ChangeSet(...) constructions of fn, including those made through a method of its class whose whole body is `return ChangeSet(...)`
    (written back in fn's own terms; a public name keeps such a helper out of the inliner's normal form)."""
    from .derive import expand_predicate

    r = ctx.resolver(fn)
    out = []
    for n in walk_no_nested(fn.node):
        if not isinstance(n, ast.Call):
            continue
        if r.callee_qname(n) == "codemodder.codetf.ChangeSet":
            out.append(n)
        elif isinstance(n.func, ast.Attribute) and isinstance(n.func.value, ast.Name) and n.func.value.id == "self":
            e = expand_predicate(ctx, fn, n, depth=2)
            if e is not n and isinstance(e, ast.Call) and (last_attr(e.func) or "") == "ChangeSet":
                for x in ast.walk(e):
                    ast.copy_location(x, n)
                out.append(e)
    return out


def kwarg(call: ast.Call, name: str):
    for k in call.keywords:
        if k.arg == name:
            return k.value
    return None


# ------------------------------------------------------------------ structural anchors of the per-file scheduling
BASE_CODEMOD = "codemodder.codemods.base_codemod.BaseCodemod"


def apply_fn(ctx) -> FuncInfo:
    """The BaseCodemod method that fans the files out over an executor pool (today `_apply`), found by what it does."""
    cached = getattr(ctx, "_apply_fn", None)
    if cached is not None:
        return cached
    cls = ctx.prog.cls(BASE_CODEMOD)
    cands = []
    for m in cls.methods.values():
        if m.absorbed:
            continue
        r = ctx.resolver(m)
        for n in walk_no_nested(m.node):
            if isinstance(n, ast.Call) and (r.callee_qname(n) or "").endswith(("ThreadPoolExecutor", "ProcessPoolExecutor")):
                cands.append(m)
                break
    if len(cands) > 1:
        # a caller that merely absorbed the pool-creating helper (normal form) is not the anchor: keep the innermost one
        # the normal form copies the pool-creating block into its callers: take the private method that holds the whole
        # scheduling step (not a fragment absorbed by another private method, not the public entry point that absorbed it)
        pairs = set(map(tuple, ctx.prog.inline_summary.get("pairs", [])))
        whole = [c for c in cands if not any(o.name.startswith("_") and (o.qname, c.qname) in pairs for o in cands if o is not c)]
        private = [c for c in whole if c.name.startswith("_")]
        cands = private or whole or cands
    if len(cands) != 1:
        from .model import AnalysisError

        raise AnalysisError(f"BaseCodemod: expected exactly one method creating an executor pool, found {[c.name for c in cands]}")
    ctx._apply_fn = cands[0]
    return cands[0]


def worker_fn(ctx) -> FuncInfo:
    """The per-file worker handed to executor.map (today `_process_file`), found through the map call's first argument."""
    cached = getattr(ctx, "_worker_fn", None)
    if cached is not None:
        return cached
    from .model import AnalysisError

    ap = apply_fn(ctx)
    r = ctx.resolver(ap)
    found = []
    for n in walk_no_nested(ap.node):
        if isinstance(n, ast.Call) and last_attr(n.func) in ("map", "submit") and n.args:
            f = r.expand(n.args[0])
            if isinstance(f, ast.Call) and (r.callee_qname(f) or "").endswith("partial") and f.args:
                f = f.args[0]
            # a closure / lambda that forwards the file to a method of the codemod: that method is the worker
            body = None
            if isinstance(f, ast.Lambda):
                body = [f.body]
            elif isinstance(f, ast.Name):
                nested = next((x for x in ast.walk(ap.node) if isinstance(x, ast.FunctionDef) and x is not ap.node and x.name == f.id), None)
                if nested is not None:
                    body = [x.value for x in ast.walk(nested) if isinstance(x, ast.Return) and x.value is not None]
            if body:
                calls = [c for b in body for c in ast.walk(b) if isinstance(c, ast.Call) and isinstance(c.func, ast.Attribute) and isinstance(c.func.value, ast.Name) and c.func.value.id == "self"]
                if len(calls) == 1:
                    f = calls[0].func
            if isinstance(f, ast.Attribute) and isinstance(f.value, ast.Name) and f.value.id == "self":
                m = ctx.prog.lookup_method(ap.cls.qname, f.attr)
                if m is not None:
                    found.append(m)
    if len({m.qname for m in found}) != 1:
        raise AnalysisError(f"{ap.qname}: the per-file worker handed to the executor could not be identified ({[m.name for m in found]})")
    ctx._worker_fn = found[0]
    return found[0]


def cli_namespace_names(ctx, fn: FuncInfo) -> set[str]:
    """Names that hold the parsed command line (the argparse namespace) inside `fn`: locals bound to a `parse_args(...)` call, and
    parameters of `fn` that a caller in the same module binds to such a local (one level) -- identified by what they hold, not by
    what they are called."""
    def own(f: FuncInfo) -> set[str]:
        out = set()
        for n in walk_no_nested(f.node):
            tv = None
            if isinstance(n, ast.Assign) and len(n.targets) == 1 and isinstance(n.targets[0], ast.Name):
                tv = (n.targets[0].id, n.value)
            elif isinstance(n, ast.AnnAssign) and n.value is not None and isinstance(n.target, ast.Name):
                tv = (n.target.id, n.value)
            elif isinstance(n, ast.NamedExpr) and isinstance(n.target, ast.Name):
                tv = (n.target.id, n.value)
            if tv and isinstance(tv[1], ast.Call) and (last_attr(tv[1].func) or "") == "parse_args":
                out.add(tv[0])
        return out

    names = own(fn)
    params = fn.positional_params()
    for g in ctx.prog.live_functions():
        if g.module is not fn.module or g is fn:
            continue
        gn = own(g)
        if not gn:
            continue
        for c in walk_no_nested(g.node):
            if isinstance(c, ast.Call) and (last_attr(c.func) or "") == fn.name:
                for i, a in enumerate(c.args):
                    if isinstance(a, ast.Name) and a.id in gn and i < len(params):
                        names.add(params[i])
                for k in c.keywords:
                    if k.arg and isinstance(k.value, ast.Name) and k.value.id in gn:
                        names.add(k.arg)
    return names


def reads_option(e: ast.AST, ns: set[str], option: str) -> bool:
    """does expression e read `<namespace>.<option>`?"""
    return any(isinstance(x, ast.Attribute) and x.attr == option and isinstance(x.value, ast.Name) and x.value.id in ns for x in ast.walk(e))
