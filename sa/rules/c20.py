"""C20 — the exit status tells the caller what happened.

R-STATUS-USED        the value of every status function (all returns small-int constants, >=2 distinct) is used at each call site
R-STATUS-MAP         every return <int>/sys.exit(<int>) reachable from main is in {0,1,2,3} and is dominated by its class of condition
R-ZERO-AFTER-REPORT  after the report write succeeded no non-zero status is reachable
"""
from __future__ import annotations

import ast

from ..flow import FlowAnalysis, fact_exprs, has_event, may_event
from ..model import AnalysisError, FuncInfo, call_name, dotted_name, last_attr, names_in, unparse, walk_no_nested

RUN = "codemodder.codemodder.run"
MAIN = "codemodder.codemodder.main"
WRITE_REPORT = "codemodder.codetf.CodeTF.write_report"

# exception classes -> documented status (repository documentation: README / cli error comment / spec)
HANDLER_STATUS = {
    "DuplicateToolError": 1,
    "FileNotFoundError": 1,
    "MisconfiguredAIClient": 3,
}


def int_returns(fn: FuncInfo) -> list[tuple[ast.Return, object]]:
    out = []
    for n in walk_no_nested(fn.node):
        if isinstance(n, ast.Return):
            v = n.value
            if isinstance(v, ast.Constant) and isinstance(v.value, int) and not isinstance(v.value, bool):
                out.append((n, v.value))
            else:
                out.append((n, None))
    return out


def status_functions(ctx) -> list[FuncInfo]:
    out = []
    for fn in ctx.prog.live_functions():
        rets = int_returns(fn)
        vals = [v for _, v in rets]
        consts = {v for v in vals if v is not None}
        if len(consts) >= 2 and all(0 <= v <= 255 for v in consts) and sum(v is None for v in vals) <= 1:
            # at most one non-constant return, and only if it forwards another status (e.g. `return status`)
            out.append(fn)
    return out


def rule_status_used(ctx, rep):
    rep.rule(
        "R-STATUS-USED",
        "a function whose returns are small-integer constants with >= 2 distinct values is a status function; "
        "every call site must use the value (return / compare / assign / pass on), never discard it",
        min_instances=2,
    )
    sfs = status_functions(ctx)
    names = {f.qname for f in sfs}
    if WRITE_REPORT not in names or RUN not in names:
        raise AnalysisError(f"status functions not recognised (found {sorted(names)}): write_report/run changed shape")
    for f in sfs:
        for caller, call in ctx.cg.sites.get(f.qname, []):
            parent = ctx.parents(caller).get(id(call))
            used = not isinstance(parent, ast.Expr)
            rep.check(
                "R-STATUS-USED", caller.qname, caller.loc(call), used, f"->{f.name}",
                f"the status returned by `{unparse(call)[:70]}` is discarded (values {sorted({v for _, v in int_returns(f) if v is not None})}): "
                "a failure it reports cannot reach the exit status",
                callee=f.qname,
            )


def _enclosing_handlers(ctx, fn, node) -> list[str]:
    pm = ctx.parents(fn)
    out = []
    cur = node
    while cur is not None:
        cur = pm.get(id(cur))
        if isinstance(cur, ast.ExceptHandler):
            t = cur.type
            if t is None:
                out.append("<bare>")
            elif isinstance(t, ast.Tuple):
                out += [last_attr(e) or unparse(e) for e in t.elts]
            else:
                out.append(last_attr(t) or unparse(t))
    return out


def _is_first_missing(r, pol: bool, ex: ast.expr) -> bool:
    """fact `m is not None` (or truthy m) where m = next((x for x in xs if not exists(x)), None): some path does not exist"""
    name = None
    sentinel = None
    if (not pol) and isinstance(ex, ast.Compare) and len(ex.ops) == 1 and isinstance(ex.ops[0], ast.Is) and isinstance(ex.comparators[0], (ast.Constant, ast.Name)) and isinstance(ex.left, ast.Name):
        name, sentinel = ex.left, ex.comparators[0]
    elif pol and isinstance(ex, ast.Name):
        name, sentinel = ex, ast.Constant(value=None)
    if name is None:
        return False
    v = r.expand(name)
    if isinstance(v, ast.NamedExpr):
        v = v.value
    if not (isinstance(v, ast.Call) and call_name(v) == "next" and len(v.args) == 2 and isinstance(v.args[0], (ast.GeneratorExp, ast.ListComp))):
        return False
    # the value tested against is the very default handed to next(): None, or a module-level sentinel object
    if unparse(v.args[1]) != unparse(sentinel) or not isinstance(v.args[1], (ast.Constant, ast.Name)):
        return False
    if isinstance(v.args[1], ast.Constant) and v.args[1].value is not None:
        return False
    from ..flow import cond_facts

    facts = set()
    for g in v.args[0].generators:
        for c in g.ifs:
            facts |= cond_facts(c, True)
    for p2, txt in facts:
        try:
            e2 = ast.parse(txt, mode="eval").body
        except SyntaxError:
            continue
        if (not p2) and isinstance(e2, ast.Call) and (call_name(e2) or "").endswith("exists"):
            return True
    return False


def _holds_report_status(fn: FuncInfo, name: str) -> bool:
    """Some binding of the local `name` is the result of write_report (directly, or on one arm of a conditional expression); the other
    bindings are integer constants (`status = 0` when no report was asked for)."""
    vals = [a.value for a in walk_no_nested(fn.node) if isinstance(a, ast.Assign) and any(isinstance(t, ast.Name) and t.id == name for t in a.targets)]
    vals += [a.value for a in walk_no_nested(fn.node) if isinstance(a, (ast.AnnAssign, ast.NamedExpr)) and a.value is not None and isinstance(a.target, ast.Name) and a.target.id == name]
    arms = []
    for v in vals:
        arms += [v.body, v.orelse] if isinstance(v, ast.IfExp) else [v]
    is_wr = [isinstance(a, ast.Call) and last_attr(a.func) == "write_report" for a in arms]
    return any(is_wr) and all(w or (isinstance(a, ast.Constant) and isinstance(a.value, int)) for w, a in zip(is_wr, arms))


def _none_return_statuses(ctx, h: FuncInfo) -> set | None:
    """For a helper that answers None on failure: the documented statuses of the conditions under which it returns None (handler classes,
    failed existence tests); None when some None-return is not under such a condition (or the helper never returns None)."""
    def hev(hd):
        t = hd.type
        names = ["<bare>"] if t is None else ([last_attr(e) or unparse(e) for e in t.elts] if isinstance(t, ast.Tuple) else [last_attr(t) or unparse(t)])
        return "EV:handler:" + ",".join(names)

    fa = FlowAnalysis(h.node, node_event=hev)
    out: set = set()
    seen_none = False
    for ex in fa.exits:
        if ex.kind == "raise":
            continue
        is_none = ex.kind != "return" or ex.value is None or (isinstance(ex.value, ast.Constant) and ex.value.value is None)
        if not is_none:
            continue
        seen_none = True
        for must, _may in ex.state.parts:
            hs = [h_ for pol, t in must if pol and t.startswith("EV:handler:") for h_ in t[len("EV:handler:"):].split(",")]
            facts = list(fact_exprs(must))
            exists_false = any((not pol) and isinstance(e, ast.Call) and (call_name(e) or "").endswith("exists") for pol, e in facts)
            if hs:
                out |= {HANDLER_STATUS.get(x) for x in hs}
            elif exists_false:
                out.add(1)
            else:
                return None
    return out if seen_none and None not in out else None


def rule_status_map(ctx, rep):
    rep.rule(
        "R-STATUS-MAP",
        "every integer status reachable from main() is in {0,1,2,3}; each non-zero return in run() sits in the handler of the "
        "exception class documented for it, or under a failed existence test (1), or under a failed report write (2); "
        "argument errors exit 3 through the repo's ArgumentParser subclass; --list/--describe exit with the default status",
        min_instances=6,
    )
    run = ctx.prog.func(RUN)
    main = ctx.prog.func(MAIN)
    fa = ctx.flow(run)
    run_r = ctx.resolver(run)

    def hev(h):
        t = h.type
        names = ["<bare>"] if t is None else ([last_attr(e) or unparse(e) for e in t.elts] if isinstance(t, ast.Tuple) else [last_attr(t) or unparse(t)])
        return "EV:handler:" + ",".join(names)

    fa_ev = FlowAnalysis(run.node, node_event=hev)
    # main must exit with run's status
    ok_main = False
    for n in walk_no_nested(main.node):
        if isinstance(n, ast.Call) and call_name(n) == "sys.exit" and n.args:
            a = ctx.resolver(main).expand(n.args[0])
            if isinstance(a, ast.Call) and any(getattr(t, "qname", None) == RUN for t in ctx.resolver(main).resolve_call(a)):
                ok_main = True
    rep.check("R-STATUS-MAP", main.qname, main.loc(), ok_main, "exit(run())", "main() does not exit with the status returned by run()")

    for ret, val in int_returns(run):
        if val is None:
            # forwarded status: must derive from a status function's result
            r = ctx.resolver(run)
            v = r.expand(ret.value) if ret.value is not None else None
            ok = isinstance(v, ast.Call) and any(isinstance(t, FuncInfo) and t in status_functions(ctx) for t in r.resolve_call(v))
            rep.check("R-STATUS-MAP", run.qname, run.loc(ret), ok, f"return {unparse(ret.value) if ret.value else 'None'}",
                      "run() returns a value that is neither an integer constant nor the status of a status function")
            continue
        if val == 0:
            rep.instance("R-STATUS-MAP", run.qname, run.loc(ret), True, detail="return 0")
            continue
        # every alternative under which this return is reached must be a documented failure condition with this status
        st = fa_ev.state_at(ret)
        classes = set()
        ok = st is not None
        why = ""
        for must, may in (st.parts if st is not None else []):
            hs = sorted(t[len("EV:handler:"):] for pol, t in must if pol and t.startswith("EV:handler:"))
            handlers = [h for grp in hs for h in grp.split(",")]
            facts = list(fact_exprs(must))
            exists_false = any((not pol) and isinstance(ex, ast.Call) and (call_name(ex) or "").endswith("exists") for pol, ex in facts) \
                or any(_is_first_missing(run_r, pol, ex) for pol, ex in facts)
            report_failed = any(
                any(isinstance(c, ast.Call) and last_attr(c.func) == "write_report" for c in ast.walk(ex))
                or any(any(isinstance(c, ast.Call) and last_attr(c.func) == "write_report" for c in ast.walk(run_r.expand(nm))) for nm in ast.walk(ex) if isinstance(nm, ast.Name))
                or any(_holds_report_status(run, nm.id) for nm in ast.walk(ex) if isinstance(nm, ast.Name))
                for pol, ex in facts
            )
            # `if (files := _helper(argv)) is None: return 1`: the helper's own None-returns say which failure this is
            helper_statuses = None
            for pol, ex in facts:
                nm = None
                if pol and isinstance(ex, ast.Compare) and len(ex.ops) == 1 and isinstance(ex.ops[0], ast.Is) and isinstance(ex.comparators[0], ast.Constant) and ex.comparators[0].value is None:
                    nm = ex.left
                elif (not pol) and isinstance(ex, (ast.Name, ast.NamedExpr, ast.Call)):
                    nm = ex
                if nm is None:
                    continue
                v = nm.value if isinstance(nm, ast.NamedExpr) else (run_r.expand(nm) if isinstance(nm, ast.Name) else nm)
                if isinstance(v, ast.NamedExpr):
                    v = v.value
                if isinstance(v, ast.Call):
                    ts = [t for t in run_r.resolve_call(v) if isinstance(t, FuncInfo) and t.module is run.module]
                    if len(ts) == 1:
                        helper_statuses = _none_return_statuses(ctx, ts[0])
            if handlers:
                want = {HANDLER_STATUS.get(h) for h in handlers}
                classes.add(f"handler({','.join(handlers)})")
                if want != {val}:
                    ok = False
                    why = f"returns {val} after the handler of {handlers}, documented status is {sorted(x for x in want if x is not None) or '?'}"
            elif exists_false and report_failed and val == 2:
                # both facts hold on this path (an earlier existence test whose loop variable is still in scope); the status is that of
                # the condition that guards this very return, the failed report write
                classes.add("report-write-failed")
            elif exists_false:
                classes.add("missing-path")
                if val != 1:
                    ok = False
                    why = f"returns {val} for a missing directory / result file, documented status is 1"
            elif helper_statuses is not None:
                classes.add("helper-reported-failure")
                if helper_statuses != {val}:
                    ok = False
                    why = f"returns {val} when the helper gave up for conditions whose documented status is {sorted(helper_statuses)}"
            elif report_failed:
                classes.add("report-write-failed")
                if val != 2:
                    ok = False
                    why = f"returns {val} for a failed report write, documented status is 2"
            else:
                classes.add("unclassified")
                ok = False
                why = f"non-zero status {val} is reachable on a path that is not dominated by any documented failure condition"
        cls = "+".join(sorted(classes)) or "unreachable"
        rep.check("R-STATUS-MAP", run.qname, run.loc(ret), ok and val in (1, 2, 3), f"return {val}:{cls}", why)

    # sys.exit(<int>) anywhere reachable from main
    reach = ctx.cg.reachable([MAIN])
    cli_reach = reach | {q for q in ctx.prog.functions if q.startswith("codemodder.cli.")}
    for q in sorted(cli_reach):
        fn = ctx.prog.functions[q]
        for n in walk_no_nested(fn.node):
            if isinstance(n, ast.Call) and call_name(n) in ("sys.exit", "exit", "os._exit") and fn.qname != MAIN:
                a = n.args[0] if n.args else None
                v = a.value if isinstance(a, ast.Constant) else None
                in_error = fn.name == "error" and fn.cls is not None and "argparse.ArgumentParser" in ctx.prog.mro(fn.cls.qname)
                ok = in_error and v == 3
                rep.check("R-STATUS-MAP", fn.qname, fn.loc(n), ok, f"sys.exit({unparse(a) if a is not None else ''})",
                          "argument errors must exit with status 3 from ArgumentParser.error; no other direct exit is documented")
            if isinstance(n, ast.Call) and last_attr(n.func) == "exit" and isinstance(n.func, ast.Attribute) and isinstance(n.func.value, ast.Name) and n.func.value.id == "parser":
                # status 0 is the default; `parser.exit(0)` / `parser.exit(status=0)` say the same thing
                st_ = n.args[0] if n.args else next((k.value for k in n.keywords if k.arg == "status"), None)
                ok = (st_ is None or (isinstance(st_, ast.Constant) and st_.value == 0)) and len(n.args) <= 1 and all(k.arg == "status" for k in n.keywords)
                rep.check("R-STATUS-MAP", fn.qname, fn.loc(n), ok, "parser.exit()",
                          "--list / --describe must exit with the default status 0")
    # parse_args instantiates the repo's ArgumentParser subclass (whose error() exits 3)
    pa = ctx.prog.func("codemodder.cli.parse_args")
    r = ctx.resolver(pa)
    inst = [n for n in walk_no_nested(pa.node) if isinstance(n, ast.Call) and (r.callee_qname(n) or "").endswith("ArgumentParser")]
    ok = bool(inst) and all(
        r.callee_qname(n) in ctx.prog.classes and ctx.prog.lookup_method(r.callee_qname(n), "error") is not None for n in inst
    )
    rep.check("R-STATUS-MAP", pa.qname, pa.loc(inst[0]) if inst else pa.loc(), ok, "parser-class",
              "parse_args() builds an argparse parser whose error() is not the repo's exit-3 override")
    # ...and that override really leaves with 3 on every path; the --list / --describe actions really leave through parser.exit()
    for n in inst:
        cq = r.callee_qname(n)
        em = ctx.prog.lookup_method(cq, "error") if cq in ctx.prog.classes else None
        if em is None:
            continue

        def ev3(call):
            if call_name(call) in ("sys.exit", "exit", "os._exit") and call.args and isinstance(call.args[0], ast.Constant) and call.args[0].value == 3:
                return "EV:exit3"
            # ArgumentParser.exit(status[, message]) is argparse's own way of leaving: it ends in sys.exit(status)
            if isinstance(call.func, ast.Attribute) and call.func.attr == "exit" and isinstance(call.func.value, ast.Name) and call.func.value.id == "self":
                st = call.args[0] if call.args else next((k.value for k in call.keywords if k.arg == "status"), None)
                if isinstance(st, ast.Constant) and st.value == 3:
                    return "EV:exit3"
            return None

        fa3 = FlowAnalysis(em.node, ev3)
        bad = [e for e in fa3.exits if e.kind != "raise" and not has_event(e.state, "EV:exit3")]
        rep.check("R-STATUS-MAP", em.qname, em.loc(), not bad, "error-always-exits-3",
                  "ArgumentParser.error can return without sys.exit(3): argparse then falls through to its own exit status 2, or continues with bad arguments")
    for q in sorted(cli_reach):
        fn = ctx.prog.functions[q]
        if fn.name != "__call__" or fn.cls is None or not any("Action" in b for b in ctx.prog.mro(fn.cls.qname) + ctx.prog.external_bases(fn.cls.qname)):
            continue
        pexits = [c for c in walk_no_nested(fn.node) if isinstance(c, ast.Call) and last_attr(c.func) == "exit" and isinstance(c.func, ast.Attribute)]
        if not pexits and not any(isinstance(c, ast.Call) and (last_attr(c.func) in ("print", "print_help") or call_name(c) == "print") for c in walk_no_nested(fn.node)):
            continue  # a value-storing action (CsvListAction, ...): it is supposed to return
        ids = {id(c) for c in pexits}
        fae = FlowAnalysis(fn.node, lambda c, _i=ids: "EV:pexit" if id(c) in _i else None)
        bad = [e for e in fae.exits if e.kind != "raise" and not has_event(e.state, "EV:pexit")]
        rep.check("R-STATUS-MAP", fn.qname, fn.loc(), bool(pexits) and not bad, "informational-action-exits",
                  "an informational option (--list / --describe / --version like) prints and then returns instead of leaving through parser.exit(): the run continues and its status is that of the run")


def rule_zero_after_report(ctx, rep):
    rep.rule(
        "R-ZERO-AFTER-REPORT",
        "on every path of run() that has called write_report, a non-zero status is returned only under a fact that tests "
        "the write_report result",
        min_instances=1,
    )
    run = ctx.prog.func(RUN)
    r = ctx.resolver(run)

    def ev(call):
        if any(getattr(t, "qname", None) == WRITE_REPORT for t in r.resolve_call(call)):
            return "EV:report"
        if any(getattr(t, "qname", None) == "codemodder.codemodder.apply_codemods" for t in r.resolve_call(call)):
            return "EV:applied"
        return None

    fa = FlowAnalysis(run.node, ev)
    n = 0
    for ex in fa.exits:
        if ex.kind != "return" or not (may_event(ex.state, "EV:report") or may_event(ex.state, "EV:applied")):
            continue
        n += 1
        v = ex.value
        const = v.value if isinstance(v, ast.Constant) else None
        if const == 0:
            ok = True
        else:
            from ..logic import consistent_assignments_state

            def atom(e):
                if isinstance(e, (ast.BoolOp, ast.NamedExpr)) or (isinstance(e, ast.UnaryOp) and isinstance(e.op, ast.Not)):
                    return None
                if isinstance(e, ast.Compare) and len(e.ops) == 1 and isinstance(e.ops[0], (ast.Is, ast.IsNot)) and isinstance(e.comparators[0], ast.Constant) and e.comparators[0].value is None:
                    return None  # a nullness fact about the status value says nothing about the status
                for nm in ast.walk(e):
                    if isinstance(nm, ast.Call) and last_attr(nm.func) == "write_report":
                        return "WR"
                    if isinstance(nm, ast.Name):
                        x = r.expand(nm)
                        # the status itself, or a value that is the status on one arm (`st = report.write_report(p) if p else 0`)
                        alts = [x.body, x.orelse] if isinstance(x, ast.IfExp) else (list(x.values) if isinstance(x, ast.BoolOp) else [x])
                        if any(isinstance(c, ast.Call) and last_attr(c.func) == "write_report" for a in alts for c in ast.walk(a)):
                            return "WR"
                        if _holds_report_status(run, nm.id):
                            return "WR"
                return None

            # the facts on this path must pin down the outcome of a test on the write_report result
            tested = len(consistent_assignments_state(ex.state, atom, ["WR"])) == 1
            forwarded = v is not None and isinstance(r.expand(v), ast.Call) and last_attr(r.expand(v).func) == "write_report"
            ok = tested or forwarded
        rep.check("R-ZERO-AFTER-REPORT", run.qname, run.loc(ex.node), ok, f"return {unparse(v) if v is not None else 'None'}",
                  "a non-zero status is returned after the codemods ran / the report was written, without testing the report-write status")
    if n == 0:
        raise AnalysisError("run() has no return after apply_codemods/write_report")


def rule_ai_config(ctx, rep):
    rep.rule(
        "R-AI-CONFIG",
        "in codemodder.llm every function that raises MisconfiguredAIClient under a consistency condition C returns a constructed "
        "client only on paths where C has been evaluated to false (the check dominates every client-returning exit), and run() maps "
        "that exception to status 3",
        min_instances=3,
    )
    mod = ctx.prog.module("codemodder.llm")
    n = 0
    for fn in [f for f in ctx.prog.live_functions() if f.module is mod and f.cls is None]:
        raises = [r_ for r_ in walk_no_nested(fn.node) if isinstance(r_, ast.Raise) and r_.exc is not None and "MisconfiguredAIClient" in unparse(r_.exc)]
        if not raises:
            continue
        fa = ctx.flow(fn)
        from ..flow import cond_facts

        conds = set()
        cond_tests = []
        for r_ in raises:
            par = ctx.parents(fn).get(id(r_))
            if isinstance(par, ast.If) and any(x is r_ for st in par.body for x in ast.walk(st)):
                conds.add(unparse(par.test))
                cond_tests.append(par.test)
        # the consistency check may also be a `match` over the configuration whose inconsistent case(s) raise: a `match` executes exactly one
        # case, so an exit inside another case of the same statement, or in a statement that follows it in the same block (every path to it
        # ran through the match and did not take the raising case), is reached with the check evaluated to `consistent`
        pm_ = ctx.parents(fn)
        raising_matches = []
        for r_ in raises:
            cur = pm_.get(id(r_))
            while cur is not None and cur is not fn.node and not isinstance(cur, ast.match_case):
                cur = pm_.get(id(cur))
            if isinstance(cur, ast.match_case):
                raising_matches.append((pm_.get(id(cur)), cur))

        def dominated_by_match(node) -> bool:
            for m_, case_ in raising_matches:
                chain = []
                cur = node
                while cur is not None and cur is not fn.node:
                    chain.append(cur)
                    cur = pm_.get(id(cur))
                if m_ in chain:
                    if case_ not in chain:
                        return True
                    continue
                owner = pm_.get(id(m_))
                for fld in ("body", "orelse", "finalbody"):
                    blk = getattr(owner, fld, None)
                    if isinstance(blk, list) and m_ in blk:
                        later = blk[blk.index(m_) + 1:]
                        if any(x in chain for x in later):
                            return True
            return False

        for ex in fa.exits:
            if ex.kind != "return" or not isinstance(ex.value, ast.Call):
                continue
            n += 1
            if raising_matches and not cond_tests and dominated_by_match(ex.node):
                rep.instance("R-AI-CONFIG", fn.qname, fn.loc(ex.node), True, detail=f"return {unparse(ex.value.func)} (after / beside the raising case of a match)")
                continue
            # the exit must be unreachable while any raising condition holds: adding "C is true" to each alternative of the
            # exit state contradicts what is known there (independent of how C or its negation is spelled)
            ok = bool(cond_tests) and all(ex.state.add(cond_facts(t, True)) is None for t in cond_tests)
            rep.check("R-AI-CONFIG", fn.qname, fn.loc(ex.node), ok, f"return {unparse(ex.value.func)}",
                      f"a client is returned on a path where the consistency check `{sorted(conds)[0] if conds else '?'}` has not been evaluated: "
                      "an inconsistent AI configuration then completes with status 0 instead of 3")
    run = ctx.prog.func(RUN)
    handlers = [h for h in ast.walk(run.node) if isinstance(h, ast.ExceptHandler) and h.type is not None and "MisconfiguredAIClient" in unparse(h.type)]
    ok = bool(handlers) and all(any(isinstance(st, ast.Return) and isinstance(st.value, ast.Constant) and st.value.value == 3 for st in h.body) for h in handlers)
    rep.check("R-AI-CONFIG", run.qname, run.loc(handlers[0]) if handlers else run.loc(), ok, "handler->3", "run() does not map MisconfiguredAIClient to status 3")
    # the context constructor is what raises it, inside that try
    ctor_in_try = False
    for tr in [t for t in ast.walk(run.node) if isinstance(t, ast.Try)]:
        if any("MisconfiguredAIClient" in unparse(h.type) for h in tr.handlers if h.type is not None):
            ctor_in_try = any(isinstance(c, ast.Call) and last_attr(c.func) == "CodemodExecutionContext" for st in tr.body for c in ast.walk(st))
    rep.check("R-AI-CONFIG", run.qname, run.loc(), ctor_in_try, "ctor-in-try", "the execution context (which sets up the AI clients) is not constructed inside the try that maps the error to 3")
    if n < 2:
        raise AnalysisError("client-returning exits of the llm setup functions not found")


def rule_arg_converters(ctx, rep):
    rep.rule(
        "R-ARG-CONVERTERS",
        "every `type=` converter given to add_argument is a builtin / class constructor, or a repo function that can only fail with "
        "ValueError, TypeError or argparse.ArgumentTypeError: argparse turns exactly those into parser.error() (exit status 3); a lookup that "
        "raises KeyError / AttributeError / IndexError escapes as a traceback with status 1",
        min_instances=1,
    )
    pa_mod = ctx.prog.module("codemodder.cli")
    n = 0
    for fn in [f for f in ctx.prog.live_functions() if f.module is pa_mod]:
        r = ctx.resolver(fn)
        for c in walk_no_nested(fn.node):
            if not (isinstance(c, ast.Call) and last_attr(c.func) == "add_argument"):
                continue
            tv = next((k.value for k in c.keywords if k.arg == "type"), None)
            if tv is None:
                continue
            n += 1
            q = ctx.prog.resolve_expr_name(fn.module, tv) if isinstance(tv, (ast.Name, ast.Attribute)) else None
            conv = ctx.prog.functions.get(q) if q else None
            if conv is None and isinstance(tv, ast.Lambda):
                lam_params = {a.arg for a in tv.args.args}
                bad_l = [f"lookup `{unparse(x)[:40]}` (KeyError / IndexError)" for x in ast.walk(tv.body)
                         if isinstance(x, ast.Subscript) and isinstance(x.ctx, ast.Load) and not (isinstance(x.value, ast.Name) and x.value.id in lam_params and isinstance(x.slice, ast.Slice))]
                rep.check("R-ARG-CONVERTERS", fn.qname, fn.loc(c), not bad_l, f"type=lambda@{unparse(c.args[0])[:20] if c.args else ''}",
                          "inline converter can fail with something argparse does not report as an argument error: " + "; ".join(bad_l[:3]))
                continue
            if conv is None:
                rep.instance("R-ARG-CONVERTERS", fn.qname, fn.loc(c), True, detail=f"type={unparse(tv)[:30]}:builtin-or-class")
                continue
            params = set(conv.params())
            bad = []
            pm = ctx.parents(conv)

            def guarded(node):
                cur = pm.get(id(node))
                while cur is not None and cur is not conv.node:
                    if isinstance(cur, ast.Try) and any(x is node for st in cur.body for x in ast.walk(st)):
                        for h in cur.handlers:
                            types = {"<bare>"} if h.type is None else {last_attr(e) or unparse(e) for e in (h.type.elts if isinstance(h.type, ast.Tuple) else [h.type])}
                            raises_ok = any(isinstance(x, ast.Raise) and x.exc is not None and (last_attr(x.exc.func) if isinstance(x.exc, ast.Call) else last_attr(x.exc)) in ("ValueError", "TypeError", "ArgumentTypeError") for st in h.body for x in ast.walk(st))
                            if types & {"KeyError", "LookupError", "Exception", "<bare>", "AttributeError", "IndexError"} and raises_ok:
                                return True
                    cur = pm.get(id(cur))
                return False

            for x in walk_no_nested(conv.node):
                if isinstance(x, ast.Subscript) and isinstance(x.ctx, ast.Load) and not (isinstance(x.value, ast.Name) and x.value.id in params and isinstance(x.slice, ast.Slice)):
                    if not guarded(x):
                        bad.append(f"lookup `{unparse(x)[:40]}` (KeyError / IndexError)")
                if isinstance(x, ast.Raise) and x.exc is not None:
                    nm = last_attr(x.exc.func) if isinstance(x.exc, ast.Call) else last_attr(x.exc)
                    if nm not in ("ValueError", "TypeError", "ArgumentTypeError"):
                        bad.append(f"raises {nm}")
                if isinstance(x, ast.Call) and call_name(x) == "getattr" and len(x.args) == 2 and not guarded(x):
                    bad.append(f"`{unparse(x)[:40]}` (AttributeError)")
            rep.check("R-ARG-CONVERTERS", conv.qname, conv.loc(), not bad, f"type={unparse(tv)[:30]}",
                      f"converter `{conv.name}` can fail with something argparse does not report as an argument error: " + "; ".join(bad[:3])
                      + " -- an invalid value then ends the run with a traceback (status 1) instead of status 3")
    if n == 0:
        raise AnalysisError("no add_argument(type=...) found in codemodder.cli")


PARSER_OPTION_DENY = {
    "fromfile_prefix_chars": "every token starting with that character -- option values included -- is replaced by the lines of a file, or rejected when no such file exists",
    "prefix_chars": "changes which tokens are options",
    "argument_default": "changes the value of every option that was not given",
    "conflict_handler": "lets a later add_argument silently replace an option",
    "exit_on_error": "argument errors no longer leave through error() (status 3)",
    "parents": "imports options from another parser",
}


def rule_parser_plain(ctx, rep, rule_id="R-PARSER-PLAIN"):
    """Shared by C17 / C20: how command-line tokens are interpreted is argparse's default."""
    rep.rule(
        rule_id,
        "every ArgumentParser the command line is parsed with is built with argparse's default token handling: none of "
        + ", ".join(sorted(PARSER_OPTION_DENY)) + " is passed (by the call or by the repo's subclass constructor) -- each of them changes "
        "which ids / paths an option value denotes or which status a bad argument ends with",
        min_instances=1,
    )
    n = 0
    for fn in [f for f in ctx.prog.live_functions() if f.module.name.startswith("codemodder.")]:
        r = ctx.resolver(fn)
        for c in walk_no_nested(fn.node):
            if not isinstance(c, ast.Call):
                continue
            q = r.callee_qname(c) or ""
            is_parser = q == "argparse.ArgumentParser" or (q in ctx.prog.classes and "argparse.ArgumentParser" in ctx.prog.mro(q) + ctx.prog.external_bases(q))
            sup_init = (fn.name == "__init__" and fn.cls is not None and "argparse.ArgumentParser" in ctx.prog.mro(fn.cls.qname) + ctx.prog.external_bases(fn.cls.qname)
                        and isinstance(c.func, ast.Attribute) and c.func.attr == "__init__")
            if not (is_parser or sup_init):
                continue
            n += 1
            bad = [k.arg for k in c.keywords if k.arg in PARSER_OPTION_DENY]
            star = [k for k in c.keywords if k.arg is None and not sup_init]
            rep.check(rule_id, fn.qname, fn.loc(c), not bad and not star, "parser-options",
                      (f"the parser is built with {bad[0]}=...: {PARSER_OPTION_DENY[bad[0]]}" if bad else "the parser's options are passed as **kwargs and cannot be read"))
            # set_defaults / attribute stores that do the same after construction
    for fn in [f for f in ctx.prog.live_functions() if f.module.name == "codemodder.cli"]:
        for a in walk_no_nested(fn.node):
            if isinstance(a, ast.Assign) and isinstance(a.targets[0], ast.Attribute) and a.targets[0].attr in PARSER_OPTION_DENY and "parser" in unparse(a.targets[0].value).lower():
                n += 1
                rep.check(rule_id, fn.qname, fn.loc(a), False, "parser-options", f"`{unparse(a)[:60]}` changes the parser's token handling after construction: {PARSER_OPTION_DENY[a.targets[0].attr]}")
    if n == 0:
        raise AnalysisError("no ArgumentParser construction found under codemodder.*")


def _optional_valued_attrs(ctx, cls) -> dict[str, str]:
    """attributes of a class annotated as containers whose *values / elements* may be None: dict[K, V | None], list[V | None], ..."""
    out = {}
    anns = dict(cls.ann)
    init = cls.methods.get("__init__")
    if init is not None:
        for a in walk_no_nested(init.node):
            if isinstance(a, ast.AnnAssign) and isinstance(a.target, ast.Attribute) and isinstance(a.target.value, ast.Name) and a.target.value.id == "self":
                anns[a.target.attr] = a.annotation
    for name, ann in anns.items():
        t = unparse(ann)
        if not t.startswith(("dict[", "Dict[", "list[", "List[", "typing.Dict[", "typing.List[", "defaultdict[")):
            continue
        inner = ann.slice if isinstance(ann, ast.Subscript) else None
        val = inner.elts[-1] if isinstance(inner, ast.Tuple) else inner
        if val is None:
            continue
        vt = unparse(val)
        if "| None" in vt or "None |" in vt or vt.startswith(("Optional[", "typing.Optional[")):
            out[name] = vt
    return out


def rule_optional_element_deref(ctx, rep, rule_id="R-OPTIONAL-ELEMENT-DEREF"):
    rep.rule(
        rule_id,
        "where a class keeps a container whose values are declared `X | None` (the execution context's record of which manifest a codemod's "
        "dependencies went to: None = no manifest could be written), every attribute access on a value taken out of it is dominated by a "
        "truthiness / `is not None` test of that value: the None case is exactly the documented `no manifest can be updated` situation, and an "
        "AttributeError there ends a run, whose report may already be written, with a traceback and status 1",
        min_instances=1,
    )
    n = 0
    for cls in [c for c in ctx.prog.classes.values() if c.module.name.startswith("codemodder.")]:
        opt = _optional_valued_attrs(ctx, cls)
        if not opt:
            continue
        for m in cls.methods.values():
            if m.absorbed:
                continue
            fa = None
            # element variables: `for k, v in self.A.items()`, `for v in self.A.values()`, `v = self.A.get(k)` / `self.A[k]`, walrus forms
            elems: list[tuple[str, ast.AST, list]] = []  # (variable, scope node, comprehension ifs or None)
            for x in ast.walk(m.node):
                gens = []
                if isinstance(x, ast.For):
                    gens = [(x.target, x.iter, x, None)]
                elif isinstance(x, (ast.ListComp, ast.SetComp, ast.GeneratorExp, ast.DictComp)):
                    gens = [(g.target, g.iter, x, g.ifs) for g in x.generators]
                for tgt, it, scope, ifs in gens:
                    if isinstance(it, ast.Call) and isinstance(it.func, ast.Attribute) and it.func.attr in ("items", "values") and _is_self_attr(it.func.value, opt):
                        v = None
                        if it.func.attr == "items" and isinstance(tgt, ast.Tuple) and len(tgt.elts) == 2 and isinstance(tgt.elts[1], ast.Name):
                            v = tgt.elts[1].id
                        elif it.func.attr == "values" and isinstance(tgt, ast.Name):
                            v = tgt.id
                        if v:
                            elems.append((v, scope, ifs))
                if isinstance(x, (ast.Assign, ast.NamedExpr)):
                    tgt = x.targets[0] if isinstance(x, ast.Assign) else x.target
                    val = x.value
                    if isinstance(tgt, ast.Name) and ((isinstance(val, ast.Call) and isinstance(val.func, ast.Attribute) and val.func.attr == "get" and _is_self_attr(val.func.value, opt) and len(val.args) == 1)
                                                     or (isinstance(val, ast.Subscript) and _is_self_attr(val.value, opt))):
                        elems.append((tgt.id, m.node, None))
            for v, scope, ifs in elems:
                derefs = [a for a in ast.walk(scope) if isinstance(a, ast.Attribute) and isinstance(a.value, ast.Name) and a.value.id == v and isinstance(a.ctx, ast.Load)]
                for d in derefs:
                    n += 1
                    if ifs is not None:
                        guarded = any(_tests_not_none(t, v) for t in ifs)
                    else:
                        fa = fa or ctx.flow(m)
                        must = fa.must_at(d) if fa.state_at(d) is not None else frozenset()
                        guarded = any((pol and txt == v) or ((not pol) and txt == f"{v} is None") for pol, txt in must)
                        if not guarded:
                            # the statement holding the dereference
                            st = _enclosing_stmt(ctx, m, d)
                            must = fa.must_at(st) if st is not None and fa.state_at(st) is not None else frozenset()
                            guarded = any((pol and txt == v) or ((not pol) and txt == f"{v} is None") for pol, txt in must)
                            # `a and a.x` / `a.x if a else ...` inside one expression
                            guarded = guarded or _guarded_in_expr(ctx, m, d, v)
                    rep.check(rule_id, m.qname, m.loc(d), guarded, f"{v}.{d.attr}",
                              f"`{unparse(d)}`: `{v}` comes out of a container declared to hold `{list(opt.values())[0]}` and is dereferenced without a None test")
    if n == 0:
        raise AnalysisError("no dereference of an Optional-valued container element found (the context's dependency-update record was expected)")


def _is_self_attr(e, names) -> bool:
    return isinstance(e, ast.Attribute) and isinstance(e.value, ast.Name) and e.value.id == "self" and e.attr in names


def _tests_not_none(t: ast.expr, v: str) -> bool:
    if isinstance(t, ast.Name) and t.id == v:
        return True
    if isinstance(t, ast.Compare) and isinstance(t.left, ast.Name) and t.left.id == v and len(t.ops) == 1 and isinstance(t.ops[0], ast.IsNot) \
            and isinstance(t.comparators[0], ast.Constant) and t.comparators[0].value is None:
        return True
    if isinstance(t, ast.BoolOp) and isinstance(t.op, ast.And):
        return any(_tests_not_none(x, v) for x in t.values)
    return False


def _enclosing_stmt(ctx, fn, node):
    pm = ctx.parents(fn)
    cur = node
    while cur is not None and not isinstance(cur, ast.stmt):
        cur = pm.get(id(cur))
    return cur


def _guarded_in_expr(ctx, fn, d, v) -> bool:
    pm = ctx.parents(fn)
    cur, child = pm.get(id(d)), d
    while cur is not None and not isinstance(cur, ast.stmt):
        if isinstance(cur, ast.BoolOp) and isinstance(cur.op, ast.And):
            idx = next((i for i, x in enumerate(cur.values) if x is child), 0)
            if any(_tests_not_none(x, v) for x in cur.values[:idx]):
                return True
        if isinstance(cur, ast.IfExp) and cur.body is child and _tests_not_none(cur.test, v):
            return True
        child, cur = cur, pm.get(id(cur))
    return False


def rule_workers_validated(ctx, rep):
    from ..cli_model import option as cli_option

    rep.rule(
        "R-WORKERS-VALIDATED",
        "a value the user gives on the command line reaches a library call that rejects part of its range only after that part has been "
        "rejected as an argument error (status 3) or clamped: `ThreadPoolExecutor(max_workers=N)` raises ValueError for N <= 0, so once the pool "
        "size derives from --max-workers either the option's converter refuses values below 1 or the value is clamped (`max(1, n)`, `n or None`) "
        "-- otherwise `--max-workers 0` ends a run with a traceback and status 1, a status the documentation gives to missing inputs",
        min_instances=1,
    )
    from ..sites import apply_fn

    fn = apply_fn(ctx)
    r = ctx.resolver(fn)
    pools = [c for c in ast.walk(fn.node) if isinstance(c, ast.Call) and (last_attr(c.func) or "").endswith("PoolExecutor")]
    if not pools:
        raise AnalysisError("the scheduling function no longer creates an executor pool")
    for c in pools:
        mw = next((k.value for k in c.keywords if k.arg == "max_workers"), c.args[0] if c.args else None)
        if mw is None:
            rep.instance("R-WORKERS-VALIDATED", fn.qname, fn.loc(c), True, detail="pool size not taken from the command line (library default)")
            continue
        v = r.expand(mw) if isinstance(mw, ast.Name) else mw
        from_cli = any(isinstance(x, ast.Attribute) and x.attr == "max_workers" for x in ast.walk(v))
        if not from_cli:
            rep.instance("R-WORKERS-VALIDATED", fn.qname, fn.loc(c), True, detail=f"pool size `{unparse(v)[:30]}` does not come from --max-workers")
            continue
        clamped = any(isinstance(x, ast.Call) and call_name(x) == "max" and any(isinstance(a, ast.Constant) and isinstance(a.value, int) and a.value >= 1 for a in x.args) for x in ast.walk(v)) \
            or (isinstance(v, ast.BoolOp) and isinstance(v.op, ast.Or) and isinstance(v.values[-1], ast.Constant) and v.values[-1].value is None
                and not any(isinstance(x, ast.Call) for x in ast.walk(v.values[0])))
        o = cli_option(ctx, "--max-workers")
        conv = o.kw.get("type") if o is not None else None
        q = ctx.prog.resolve_expr_name(ctx.prog.module("codemodder.cli"), conv) if isinstance(conv, (ast.Name, ast.Attribute)) else None
        cf = ctx.prog.functions.get(q) if q else None
        validated = cf is not None and any(isinstance(x, ast.Raise) for x in walk_no_nested(cf.node)) or (o is not None and "choices" in o.kw)
        # `n or None` only protects 0, not negatives: require max(1, ...) or a validating converter for full credit
        ok = validated or any(isinstance(x, ast.Call) and call_name(x) == "max" for x in ast.walk(v))
        rep.check("R-WORKERS-VALIDATED", fn.qname, fn.loc(c), ok, "max_workers-range",
                  f"`{unparse(c)[:60]}` takes its size from --max-workers, whose converter is `{unparse(conv) if conv is not None else 'none'}` (any integer): "
                  "0 or a negative value raises ValueError inside the run (traceback, status 1) instead of being refused as an argument (status 3)")


def rule_output_path_owner(ctx, rep):
    rep.rule(
        "R-OUTPUT-PATH-OWNER",
        "the --output path is acted upon in one place only, CodeTF.write_report, whose handler turns every failure into status 2: in run() and "
        "whatever it calls the option's value is only tested, logged and handed to write_report -- any other file-system use of it (unlink of a "
        "stale report, mkdir of its parent, an existence test that raises) fails with a traceback (status 1) or an undocumented status for the very "
        "situations the documented status 2 stands for",
        min_instances=2,
    )
    n = 0
    for run in [f for f in ctx.prog.live_functions() if f.module.name == "codemodder.codemodder"]:
        n += _output_uses(ctx, rep, run)
    if n < 2:
        raise AnalysisError("codemodder.codemodder: the uses of argv.output (log line, write_report) were not found")


def _output_uses(ctx, rep, run) -> int:
    r = ctx.resolver(run)
    # names carrying the option value inside run()
    from ..sites import cli_namespace_names, reads_option

    ns = cli_namespace_names(ctx, run)

    # `<namespace>.output`, whatever the namespace local / parameter is called
    def _reads_output(e):
        return reads_option(e, ns, "output")

    carriers = set()
    changed = True
    while changed:
        changed = False
        for a in walk_no_nested(run.node):
            if isinstance(a, ast.Assign) and len(a.targets) == 1 and isinstance(a.targets[0], ast.Name) and a.targets[0].id not in carriers:
                if _reads_output(a.value) or names_in(a.value) & carriers:
                    carriers.add(a.targets[0].id)
                    changed = True
    def carries(e):
        return _reads_output(e) or bool(names_in(e) & carriers)

    n = 0
    for c in walk_no_nested(run.node):
        if not isinstance(c, ast.Call):
            continue
        args = list(c.args) + [k.value for k in c.keywords]
        recv = c.func.value if isinstance(c.func, ast.Attribute) else None
        if not (any(carries(a) for a in args) or (recv is not None and carries(recv))):
            continue
        n += 1
        q = r.callee_qname(c) or ""
        la = last_attr(c.func) or ""
        is_report = any(isinstance(t, FuncInfo) and t.qname == WRITE_REPORT for t in r.resolve_call(c)) or la == "write_report"
        is_log = unparse(c.func).startswith(("logger.", "logging.")) or la in ("log_section", "log_list")
        pure = q in ("pathlib.Path", "str", "os.fspath", "bool") or (isinstance(c.func, ast.Name) and c.func.id in ("Path", "str", "bool"))
        rep.check("R-OUTPUT-PATH-OWNER", run.qname, run.loc(c), is_report or is_log or pure, f"use:{unparse(c.func)[:30]}",
                  f"`{unparse(c)[:70]}` acts on the --output path outside CodeTF.write_report: its failure is not answered with status 2")
    return n


def rule_report_try_minimal(ctx, rep):
    rep.rule(
        "R-REPORT-TRY-MINIMAL",
        "in CodeTF.write_report the try block whose handler yields status 2 contains nothing fallible after the report text has been "
        "written (otherwise a fully written report is answered with status 2)",
        min_instances=1,
    )
    fn = ctx.prog.func(WRITE_REPORT)
    tries = [t for t in walk_no_nested(fn.node) if isinstance(t, ast.Try)]
    if not tries:
        raise AnalysisError("write_report has no try block")
    for tr in tries:
        writes = [c for st in tr.body for c in ast.walk(st) if isinstance(c, ast.Call) and last_attr(c.func) in ("write", "dump")]
        if not writes:
            continue
        wline = max(c.lineno for c in writes)
        later = [
            c for st in tr.body for c in ast.walk(st)
            if isinstance(c, ast.Call) and c.lineno > wline and not (unparse(c.func).startswith(("logger.", "logging.")))
        ]
        rep.check("R-REPORT-TRY-MINIMAL", fn.qname, fn.loc(later[0]) if later else fn.loc(tr), not later, "after-write",
                  "calls " + ", ".join(f"`{unparse(c)[:40]}`" for c in later[:3]) + " follow the write inside the try whose handler returns 2: "
                  "if they fail (e.g. fsync on a pipe) the report is written and the run still exits 2")


def check(ctx, rep):
    rep.explanation = (
        "Every `return <int>` of run(), every sys.exit/parser.exit reachable from main() and every call site of the two "
        "status functions are enumerated; a facts analysis of run() ties each non-zero status to the handler / failed test "
        "that dominates it."
    )
    rule_status_used(ctx, rep)
    rule_status_map(ctx, rep)
    rule_zero_after_report(ctx, rep)
    rule_ai_config(ctx, rep)
    rule_report_try_minimal(ctx, rep)
    rule_output_path_owner(ctx, rep)
    rule_workers_validated(ctx, rep)
    rule_optional_element_deref(ctx, rep)
    rule_arg_converters(ctx, rep)
    rule_parser_plain(ctx, rep)
    from .c12 import rule_every_input_read

    # the duplicate-tool status (1) depends on every run of every SARIF input being looked at: a handler that ends the reading of a file early hides a duplicate
    rule_every_input_read(ctx, rep)
    from .c12 import rule_one_shot_iter

    # the missing-input status (1) depends on the existence loop in run() seeing every result file: a one-shot iterator that something
    # else (a listing in the log) has already walked hands the loop nothing
    rule_one_shot_iter(ctx, rep)
    from .c14 import rule_decode_handled

    # status 0 for a completed run: a manifest that cannot be decoded is `no manifest can be updated`, not a traceback (status 1, no report)
    rule_decode_handled(ctx, rep)
    rep.not_covered += ["which argument vectors argparse itself rejects", "exceptions escaping run() (traceback, status 1 from the interpreter)"]
