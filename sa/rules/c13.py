"""C13 — line-level include/exclude is honoured and change entries name the edited line.

R-GATE-LINE               every change effect of every registered transformer is reached only under the line filter
                          (LINE or SELECTED role, or inside on_result_found)
R-GATE-ARG-TYPE           the argument of filter_by_path_includes_or_excludes / match_line is a position, never a CST node
R-PATTERN-BASE-SIBLING    file_line_patterns is matched against the same (target-relative) path base as match_files
R-FILTER-SIBLING          the re-implementation of the line filter in core_codemods/remove_unused_imports.py equals base_visitor's
R-ORIGINAL-NODE-POSITION  positions / change lines are taken from original nodes, never from `updated_node`
R-LINE-ARGS               line_include / line_exclude arguments bind to the parameter of the same role
"""
from __future__ import annotations

import ast

from ..gates import gate_rule
from ..sites import apply_fn, worker_fn
from ..model import AnalysisError, FuncInfo, bind_args, call_name, last_attr, names_in, unparse, walk_no_nested
from ..prov import Prov

PROCESS = "codemodder.codemods.base_codemod.BaseCodemod._process_file"
POSITION_SOURCES = {"node_position", "get_metadata"}


def rule_gate_line(ctx, rep):
    rep.rule(
        "R-GATE-LINE",
        "for the transformer classes of all registered codemods: every change effect is reached only under a LINE-role fact "
        "(filter_by_path_includes_or_excludes, node_is_selected, membership in a line-gated collection) or lies in on_result_found",
        min_instances=150,
    )
    cms = ctx.registry.codemods
    gate_rule(ctx, rep, "R-GATE-LINE", {"LINE", "SELECTED", "IN_RESULT_FOUND"}, cms,
              "change not subject to the line include/exclude filter (an excluded `path:line` is still rewritten)")


def _is_position_expr(ctx, fn: FuncInfo, e: ast.expr, depth: int = 4) -> bool | None:
    """True: value is a position; False: value is a CST node; None: unknown."""
    if depth <= 0:
        return None
    r = ctx.resolver(fn)
    if isinstance(e, ast.Call):
        la = last_attr(e.func)
        if la in POSITION_SOURCES or la in ("cast",) and len(e.args) == 2:
            if la == "cast":
                return _is_position_expr(ctx, fn, e.args[1], depth - 1)
            return True
        if (call_name(e) or "").endswith("CodeRange"):
            return True
        return None
    if isinstance(e, ast.Name):
        if e.id in ("original_node", "updated_node", "node") or (e.id in fn.params() and e.id != "self" and fn.name.startswith(("leave_", "visit_"))):
            return False  # the parameters of a libcst hook are nodes, whatever they are called
        sa = r.single_assignments()
        if e.id in sa:
            return _is_position_expr(ctx, fn, sa[e.id], depth - 1)
        if e.id in fn.params():
            ann = r.param_annotation(e.id)
            t = unparse(ann) if ann is not None else ""
            if "CodeRange" in t:
                return True
            if t.startswith("cst.") or "CSTNode" in t:
                return False
            if "pos" in e.id.lower():
                return True
        return None
    if isinstance(e, ast.Subscript):
        # tuple element of a worklist entry: unknown here
        return None
    if isinstance(e, ast.Attribute):
        # original_node.func etc. is a node
        base = e
        while isinstance(base, ast.Attribute):
            base = base.value
        if isinstance(base, ast.Name) and (base.id in ("original_node", "updated_node", "node") or (base.id in fn.params() and base.id != "self" and fn.name.startswith(("leave_", "visit_")))):
            return False
        return None
    return None


def rule_gate_arg_type(ctx, rep):
    rep.rule(
        "R-GATE-ARG-TYPE",
        "every argument of filter_by_path_includes_or_excludes / match_line is a position value (result of node_position or "
        "get_metadata(PositionProvider, ...)), never a CST node (match_line dereferences .start.line: a node raises AttributeError "
        "as soon as any line pattern is effective, and the file is reported as failed)",
        min_instances=10,
    )
    n = 0
    for fn in ctx.prog.live_functions():
        for c in walk_no_nested(fn.node):
            if isinstance(c, ast.Call) and last_attr(c.func) in ("filter_by_path_includes_or_excludes", "match_line") and c.args:
                n += 1
                v = _is_position_expr(ctx, fn, c.args[0])
                rep.check("R-GATE-ARG-TYPE", fn.qname, fn.loc(c), v is not False, f"{last_attr(c.func)}({unparse(c.args[0])[:30]})",
                          f"`{unparse(c)[:70]}` passes a CST node where a position is expected", kind={True: "position", None: "unknown", False: "node"}[v])
    if n < 10:
        raise AnalysisError("fewer than 10 line-filter call sites found")


def rule_pattern_base_sibling(ctx, rep):
    rep.rule(
        "R-PATTERN-BASE-SIBLING",
        "the two consumers of the user's path patterns match against the same base: match_files relativises paths to the target "
        "before fnmatch, so file_line_patterns must be given a target-relative path too (or match both spellings)",
        min_instances=2,
    )
    mf = ctx.prog.func("codemodder.code_directory.match_files")
    rel = any(isinstance(n, ast.Call) and last_attr(n.func) == "relative_to" for n in walk_no_nested(mf.node))
    rep.check("R-PATTERN-BASE-SIBLING", mf.qname, mf.loc(), rel, "match_files-relativises", "match_files no longer relativises paths to the target before matching")
    pf = worker_fn(ctx)
    flp = ctx.prog.func("codemodder.code_directory.file_line_patterns")
    handles_relative_inside = any(isinstance(n, ast.Call) and last_attr(n.func) == "relative_to" for n in walk_no_nested(flp.node))
    calls = [n for n in walk_no_nested(pf.node) if isinstance(n, ast.Call) and last_attr(n.func) == "file_line_patterns"]
    if len(calls) < 2:
        raise AnalysisError("_process_file no longer computes line_include/line_exclude with file_line_patterns")
    for c in calls:
        a = c.args[0] if c.args else None
        root = Prov(ctx, pf).root(a) if a is not None else None
        relative = a is not None and any(isinstance(x, ast.Call) and last_attr(x.func) == "relative_to" for x in ast.walk(a))
        if root is not None and not relative:
            relative = any(isinstance(x, ast.Call) and last_attr(x.func) == "relative_to" for x in ast.walk(root))
        inside_ok = False
        if handles_relative_inside:
            # the callee relativises against one of its parameters: the call must actually pass it
            rel_params = {
                nm.id for x in walk_no_nested(flp.node) if isinstance(x, ast.Call) and last_attr(x.func) == "relative_to" for arg in x.args for nm in ast.walk(arg) if isinstance(nm, ast.Name)
            } & set(flp.params())
            b = bind_args(c, flp, False)
            inside_ok = any(p in b and not (isinstance(b[p], ast.Constant) and b[p].value is None) for p in rel_params)
        rep.check("R-PATTERN-BASE-SIBLING", pf.qname, pf.loc(c), relative or inside_ok, f"file_line_patterns({unparse(a) if a is not None else ''})",
                  f"line patterns are matched against `{unparse(a) if a is not None else '?'}` (the directory-prefixed path) while file patterns are "
                  "matched against the target-relative path: `--path-exclude 'a.py:3'` is silently ignored although `a.py` excludes the file")


def _norm_func(fn: FuncInfo) -> str:
    node = ast.parse(ast.unparse(fn.node)).body[0]
    # drop docstring
    if node.body and isinstance(node.body[0], ast.Expr) and isinstance(node.body[0].value, ast.Constant) and isinstance(node.body[0].value.value, str):
        node.body = node.body[1:]
    node.returns = None
    node.decorator_list = []
    for a in node.args.args:
        a.annotation = None
    return ast.dump(node, include_attributes=False)


def _filter_truth_table(ctx, f: FuncInfo) -> tuple[bool, str]:
    from itertools import product

    from ..flow import FlowAnalysis
    from ..logic import eval3

    r = ctx.resolver(f)

    def atom(e):
        e2 = r.expand(e) if isinstance(e, ast.Name) else e
        if e2 is not e:
            return e2
        if isinstance(e, ast.Attribute) and e.attr in ("line_exclude", "line_include"):
            return "E" if e.attr == "line_exclude" else "I"
        if isinstance(e, ast.Call) and call_name(e) == "any" and len(e.args) == 1 and isinstance(e.args[0], (ast.GeneratorExp, ast.ListComp)):
            g = e.args[0]
            it = r.expand(g.generators[0].iter) if len(g.generators) == 1 else None
            if isinstance(it, ast.Attribute) and it.attr in ("line_exclude", "line_include") and isinstance(g.elt, ast.Call) and (last_attr(g.elt.func) or "").endswith("match_line") and not g.generators[0].ifs:
                return "ME" if it.attr == "line_exclude" else "MI"
        if isinstance(e, ast.Compare) and len(e.ops) == 1 and isinstance(e.left, ast.Call) and call_name(e.left) == "len" and e.left.args and isinstance(e.comparators[0], ast.Constant) and e.comparators[0].value == 0:
            inner = atom(e.left.args[0])
            if isinstance(inner, str):
                if isinstance(e.ops[0], ast.Eq):
                    return "!" + inner
                if isinstance(e.ops[0], (ast.Gt, ast.NotEq)):
                    return inner
        return None

    fa = FlowAnalysis(f.node)
    exits = [e for e in fa.exits if e.kind != "raise"]
    if not exits:
        return False, "no return"
    for E, I, ME, MI in product([True, False], repeat=4):
        if (ME and not E) or (MI and not I):
            continue
        env = {"E": E, "I": I, "ME": ME, "MI": MI}
        want = (not ME) if E else (MI if I else True)
        got = set()
        for ex in exits:
            for must, _may in ex.state.parts:
                consistent = True
                for pol, txt in must:
                    if txt.startswith(("EV:", "MATCH:", "ITER:")):
                        continue
                    try:
                        fe = ast.parse(txt, mode="eval").body
                    except SyntaxError:
                        continue
                    v = eval3(fe, atom, env)
                    if v is not None and v != pol:
                        consistent = False
                        break
                if not consistent:
                    continue
                val = ex.value
                if ex.kind == "end" or val is None:
                    got.add(False)  # None is falsy
                else:
                    v = eval3(val, atom, env)
                    if v is None:
                        raise AnalysisError(f"{f.qname}: returned expression `{unparse(val)[:60]}` not understood as a combination of line-filter atoms")
                    got.add(v)
        if got != {want}:
            return False, f"with exclude-given={E} include-given={I} matches-exclude={ME} matches-include={MI} it answers {sorted(got)} instead of {want}"
    return True, ""


def rule_filter_sibling(ctx, rep):
    rep.rule(
        "R-FILTER-SIBLING",
        "every implementation of the line filter (base_visitor's, and the copy in core_codemods.remove_unused_imports while it exists) "
        "computes the same truth table: not matches-exclude if excludes are given, else matches-include if includes are given, else True; "
        "match_line requires start and end line to equal the given line",
        min_instances=2,
    )
    pairs = [
        ("codemodder.codemods.base_visitor.UtilsMixin.filter_by_path_includes_or_excludes", "core_codemods.remove_unused_imports.RemoveUnusedImports.filter_by_path_includes_or_excludes"),
        ("codemodder.codemods.base_visitor.match_line", "core_codemods.remove_unused_imports.match_line"),
    ]
    for a, b in pairs:
        fa = ctx.prog.func(a)
        if ctx.prog.functions.get(b) is None:
            rep.instance("R-FILTER-SIBLING", b, fa.loc(), True, detail="copy removed (the shared implementation is used)")
    # the shared filter itself, decided as a truth table over  E = exclude lines given, I = include lines given,
    # ME / MI = the position matches one of them:   result == (not ME if E else (MI if I else True))
    f = ctx.prog.func(pairs[0][0])
    ok, why = _filter_truth_table(ctx, f)
    rep.check("R-FILTER-SIBLING", f.qname, f.loc(), ok, "filter-shape", "filter_by_path_includes_or_excludes no longer computes exclude-first / include / default-true: " + why)
    fb = ctx.prog.functions.get(pairs[0][1])
    if fb is not None:
        ok, why = _filter_truth_table(ctx, fb)
        rep.check("R-FILTER-SIBLING", fb.qname, fb.loc(), ok, "filter-shape", "the codemod's own copy of the line filter no longer computes exclude-first / include / default-true: " + why)
    for q in pairs[1]:
        ml = ctx.prog.functions.get(q)
        if ml is None:
            continue
        pp = ml.positional_params()
        cmp_ = [n for n in walk_no_nested(ml.node) if isinstance(n, ast.Compare)]
        # both ends of the position equal the given line, conjunctively
        lefts = {unparse(c.left) for c in cmp_ if isinstance(c.ops[0], ast.Eq) and len(pp) >= 2 and unparse(c.comparators[0]) == pp[1]}
        lefts |= {unparse(c.comparators[0]) for c in cmp_ if isinstance(c.ops[0], ast.Eq) and len(pp) >= 2 and unparse(c.left) == pp[1]}
        conj = not any(isinstance(n, ast.BoolOp) and isinstance(n.op, ast.Or) for n in walk_no_nested(ml.node))
        ok = len(pp) >= 2 and {f"{pp[0]}.start.line", f"{pp[0]}.end.line"} <= lefts and conj and len(cmp_) == 2
        rep.check("R-FILTER-SIBLING", ml.qname, ml.loc(), ok, "match_line-shape", "match_line no longer requires start and end line to equal the given line")


def rule_original_node_position(ctx, rep):
    rep.rule(
        "R-ORIGINAL-NODE-POSITION",
        "in transformer hooks the node handed to report_change / add_change / lineno_for_node / node_position / node_is_selected / "
        "get_metadata(PositionProvider, .) is never the hook's `updated_node` (libcst has no metadata for rebuilt nodes: KeyError -> file fails)",
        min_instances=100,
    )
    fns = ("report_change", "add_change", "lineno_for_node", "node_position", "node_is_selected", "report_unfixed", "filter_by_result", "results_for_node")
    n = 0
    for fn in ctx.prog.live_functions():
        if fn.cls is None:
            continue
        params = fn.positional_params()
        upd = params[2] if len(params) >= 3 and (fn.name.startswith("leave_") or fn.name == "on_result_found") else ("updated_node" if "updated_node" in params else None)
        for c in walk_no_nested(fn.node):
            if isinstance(c, ast.Call) and isinstance(c.func, ast.Attribute):
                la = c.func.attr
                arg = None
                if la in fns and c.args:
                    arg = c.args[0]
                elif la == "get_metadata" and len(c.args) >= 2 and "PositionProvider" in unparse(c.args[0]):
                    arg = c.args[1]
                if arg is None:
                    continue
                n += 1
                base = arg
                while isinstance(base, (ast.Attribute, ast.Subscript)):
                    base = base.value
                bad = upd is not None and isinstance(base, ast.Name) and base.id == upd
                rep.check("R-ORIGINAL-NODE-POSITION", fn.qname, fn.loc(c), not bad, f"{la}({unparse(arg)[:30]})",
                          f"`{unparse(c)[:70]}` asks for the position of the rebuilt node `{upd}`; metadata exists only for original nodes")
    if n < 100:
        raise AnalysisError(f"only {n} position-consuming call sites found")


def rule_line_args(ctx, rep):
    from .c05 import rule_pattern_args

    rule_pattern_args(ctx, rep, rule_id="R-LINE-ARGS", families=(0,))


def rule_line_patterns_all(ctx, rep):
    rep.rule(
        "R-LINE-PATTERNS-ALL",
        "file_line_patterns yields one line per matching `path:line` pattern: its result is a list built by iterating the patterns, "
        "with no intermediate mapping keyed by the path part (two entries for the same path would collapse into one)",
        min_instances=1,
    )
    fn = ctx.prog.func("codemodder.code_directory.file_line_patterns")
    r = ctx.resolver(fn)
    problems = []
    rets = [n.value for n in walk_no_nested(fn.node) if isinstance(n, ast.Return) and n.value is not None]
    for rv in rets:
        v = r.expand(rv)
        if isinstance(v, ast.ListComp):
            it = v.generators[0].iter
            src = r.expand(it)
            pp_ = fn.positional_params()  # file_line_patterns(file_path, patterns, parent_path=None): the pattern list is the second parameter
            if not (isinstance(src, ast.Name) and len(pp_) >= 2 and src.id == pp_[1]):
                # iterating something derived from the patterns: must not be a dict / set
                problems.append(f"the result iterates `{unparse(it)[:40]}` instead of the pattern list itself")
        elif isinstance(v, ast.Call) and call_name(v) in ("list", "sorted") and v.args and isinstance(r.expand(v.args[0]), (ast.DictComp, ast.SetComp, ast.Dict, ast.Set)):
            problems.append("the result is taken from a dict/set (duplicates of the same path collapse)")
        elif isinstance(v, ast.Name):
            pass
    for n in walk_no_nested(fn.node):
        if isinstance(n, (ast.DictComp, ast.SetComp)) or (isinstance(n, ast.Call) and call_name(n) in ("dict", "set")):
            problems.append(f"`{unparse(n)[:50]}` builds a mapping/set between the patterns and the result")
    # helpers called by it
    for c in walk_no_nested(fn.node):
        if isinstance(c, ast.Call):
            for t in r.resolve_call(c):
                if isinstance(t, FuncInfo) and t.module is fn.module and t is not fn:
                    for n in walk_no_nested(t.node):
                        if isinstance(n, (ast.DictComp, ast.SetComp, ast.Dict)) or (isinstance(n, ast.Call) and call_name(n) in ("dict", "set")) or (isinstance(n, ast.Assign) and isinstance(n.targets[0], ast.Subscript)):
                            problems.append(f"helper {t.name} keys the patterns in a mapping (`{unparse(n)[:40]}`)")
                            break
    rep.check("R-LINE-PATTERNS-ALL", fn.qname, fn.loc(), not problems, "one-line-per-pattern", "; ".join(problems[:3]))


def rule_gate_unit(ctx, rep):
    rep.rule(
        "R-GATE-UNIT",
        "the (alias, import) pairs handed to RemoveUnusedImportsTransformer -- which drops exactly the *alias* of each pair -- pass the line "
        "filter with the position of that alias, not of the enclosing import statement: a parenthesised multi-line import spans several "
        "lines, so a `path:line` entry naming the alias' line would never match the statement (excluded aliases removed, included ones kept)",
        min_instances=1,
    )
    n = 0
    for fn in ctx.prog.live_functions():
        r = ctx.resolver(fn)
        ctors = [c for c in walk_no_nested(fn.node) if isinstance(c, ast.Call) and last_attr(c.func) == "RemoveUnusedImportsTransformer" and c.args]
        for c in ctors:
            s_arg = c.args[0]
            if not isinstance(s_arg, ast.Name):
                continue
            fa = ctx.flow(fn)
            adds = [a for a in walk_no_nested(fn.node) if isinstance(a, ast.Call) and isinstance(a.func, ast.Attribute) and a.func.attr == "add" and unparse(a.func.value) == s_arg.id and a.args and isinstance(a.args[0], ast.Tuple) and a.args[0].elts]
            for a in adds:
                unit = a.args[0].elts[0]
                gates = []
                for pol, ex in _fact_exprs(fa.must_at(a)):
                    if pol and isinstance(ex, ast.Call) and last_attr(ex.func) == "filter_by_path_includes_or_excludes" and ex.args:
                        gates.append(ex.args[0])
                if not gates:
                    continue  # ungated construction sites are R-GATE-LINE's business
                n += 1
                ok = True
                why = ""
                for g in gates:
                    p = r.expand(g)
                    node = None
                    if isinstance(p, ast.Call) and last_attr(p.func) == "get_metadata" and len(p.args) >= 2:
                        node = p.args[1]
                    elif isinstance(p, ast.Call) and last_attr(p.func) == "node_position" and p.args:
                        node = p.args[0]
                    if node is None or unparse(node) != unparse(unit):
                        ok = False
                        why = f"the gate tests the position of `{unparse(node) if node is not None else unparse(p)[:40]}` but the unit that is removed is `{unparse(unit)}`"
                rep.check("R-GATE-UNIT", fn.qname, fn.loc(a), ok, f"{s_arg.id}.add", why)
    if n == 0:
        rep.instance("R-GATE-UNIT", "codebase", "src/", True, detail="no line-gated construction site of an unused-import set")


def _fact_exprs(must):
    from ..flow import fact_exprs

    return fact_exprs(must)


STATEMENT_HOOKS = {"leave_SimpleStatementLine", "leave_If", "leave_For", "leave_While", "leave_With", "leave_Try", "leave_FunctionDef", "leave_ClassDef",
                   "leave_Assign", "leave_AnnAssign", "leave_AugAssign", "leave_Expr", "leave_Import", "leave_ImportFrom", "leave_Return", "leave_Assert",
                   "leave_Global", "leave_Nonlocal", "leave_Pass", "leave_Raise", "leave_Del", "leave_Match"}


def rule_multipass_lines(ctx, rep, rule_id="R-MULTIPASS-LINES"):
    rep.rule(
        rule_id,
        "a registered transformer that asks libcst for repeated passes (`should_allow_multiple_passes` -> True) does not itself add or remove "
        "statement lines (FlattenSentinel / RemovalSentinel returned by one of its own statement hooks): every later pass computes positions on "
        "the previous pass's output, while `path:line` patterns and tool findings name lines of the original file - a protected site that has "
        "slid onto another line is rewritten, a permitted one is skipped, and the change entries carry shifted line numbers",
        min_instances=1,
    )
    from .c02 import families

    n = 0
    seen = set()
    for tq, tm in families(ctx).items():
        if tq in seen:
            continue
        seen.add(tq)
        m = tm.methods.get("should_allow_multiple_passes")
        if m is None or m.cls is None or not m.module.name.startswith(("codemodder", "core_codemods")):
            continue
        rets = [r_.value for r_ in walk_no_nested(m.node) if isinstance(r_, ast.Return)]
        if not rets or all(isinstance(v, ast.Constant) and v.value is False for v in rets):
            continue
        n += 1
        bad = None
        for e in tm.effects():
            if e.kind != "return-change" or e.cls != tq and e.cls not in ctx.prog.mro(tq):
                continue
            if e.method.name not in STATEMENT_HOOKS:
                continue
            if any(w in e.text for w in ("FlattenSentinel", "RemovalSentinel", "RemoveFromParent")):
                bad = e
        rep.check(rule_id, tq, bad.method.loc(bad.node) if bad else m.loc(), bad is None, "line-count",
                  f"multiple passes are enabled and `{bad.text[:60]}` in {bad.method.name} changes the number of statement lines: the next pass gates on shifted lines" if bad else "")
    if n < 1:
        raise AnalysisError("no registered transformer enables multiple passes (sql-parameterization confirmed by hand)")


def rule_no_line_prune(ctx, rep):
    rep.rule(
        "R-NO-LINE-PRUNE",
        "no `visit_<Node>` hook of a registered transformer (or of the shared modifier / mixin classes) decides whether to descend into a node "
        "from the user's line includes / excludes: the position reported for a compound node (function, class, `with`, `if`) covers its header "
        "only, so pruning by it hides permitted lines in the body, and `path:line` patterns are about the edited construct, not its ancestors",
        min_instances=5,
    )
    LINE_SOURCES = ("filter_by_path_includes_or_excludes", "match_line", "line_include", "line_exclude", "node_is_selected_by_line")
    closure = {q for q, c_ in ctx.prog.classes.items() if c_.module.name.startswith(("core_codemods.", "codemodder.codemods", "codemodder.utils"))
               and not c_.module.name.startswith("codemodder.codemods.test")}
    n = 0
    for cq in sorted(closure):
        c = ctx.prog.classes[cq]
        # helper predicates of the class that consult the line filter (one level)
        line_helpers = {name for name, m in c.methods.items()
                        if any((isinstance(x, ast.Attribute) and x.attr in LINE_SOURCES) for x in ast.walk(m.node)) and not name.startswith(("leave_", "visit_"))}
        for name, m in c.methods.items():
            if not name.startswith("visit_"):
                continue
            n += 1
            bad = None
            r = ctx.resolver(m)
            for rt in [x for x in walk_no_nested(m.node) if isinstance(x, ast.Return) and x.value is not None]:
                v = r.expand(rt.value) if isinstance(rt.value, ast.Name) else rt.value
                for x in ast.walk(v):
                    if isinstance(x, ast.Attribute) and (x.attr in LINE_SOURCES or (x.attr in line_helpers and isinstance(x.value, ast.Name) and x.value.id == "self")):
                        bad = rt
            rep.check("R-NO-LINE-PRUNE", m.qname, m.loc(bad), bad is None, "descent-independent-of-lines",
                      f"`{unparse(bad)[:70]}` prunes the traversal by the user's line patterns: permitted lines inside the skipped node are never visited" if bad is not None else "")
    if n < 5:
        raise AnalysisError(f"only {n} visit_* hooks found in the visitor classes")


def rule_gate_not_over_state(ctx, rep):
    rep.rule(
        "R-GATE-NOT-OVER-STATE",
        "the user's line patterns gate *edits*, not what a transformer learns about the file: a plain attribute of the transformer "
        "(`self.flask_app_name = ...`, a flag) that another hook's condition reads is never assigned under a line gate -- otherwise excluding "
        "(or not including) the line where the fact is established silently switches off the fixes on the permitted lines that depend on it.  "
        "Collections of nodes gathered under the gate and looked up by node are the codemods' way of planning edits and are not meant here",
        min_instances=1,
    )
    n = 0
    seen: set[str] = set()
    for tq in sorted(ctx.registry.transformer_classes()):
        if tq not in ctx.prog.classes or tq in seen:
            continue
        seen.add(tq)
        tm = ctx.tmodel(tq)
        methods = tm.all_methods()
        # attributes read in a condition somewhere in the family (plain read: `if self.a`, `self.a == x`, `self.a and ...`), through properties too
        cond_reads: dict[str, str] = {}
        props: dict[str, set[str]] = {}
        for owner, m in methods:
            if any(d.split("(")[0].split(".")[-1] in ("property", "cached_property") for d in m.decorators()):
                props[m.name] = {x.attr for x in ast.walk(m.node) if isinstance(x, ast.Attribute) and isinstance(x.value, ast.Name) and x.value.id == "self"}
        for owner, m in methods:
            for t in ast.walk(m.node):
                tests = []
                if isinstance(t, (ast.If, ast.While, ast.IfExp)):
                    tests = [t.test]
                elif isinstance(t, ast.Assert):
                    tests = [t.test]
                for test in tests:
                    for x in ast.walk(test):
                        if isinstance(x, ast.Attribute) and isinstance(x.value, ast.Name) and x.value.id == "self" and isinstance(x.ctx, ast.Load):
                            par_is_call = False
                            for a in [x.attr] + sorted(props.get(x.attr, ())):
                                cond_reads.setdefault(a, m.name)
        for owner, m in methods:
            for a in walk_no_nested(m.node):
                if not (isinstance(a, (ast.Assign, ast.AnnAssign)) and getattr(a, "value", None) is not None):
                    continue
                for t in (a.targets if isinstance(a, ast.Assign) else [a.target]):
                    if not (isinstance(t, ast.Attribute) and isinstance(t.value, ast.Name) and t.value.id == "self"):
                        continue
                    if m.name in ("__init__", "__post_init__") or t.attr not in cond_reads:
                        continue
                    if isinstance(a.value, (ast.List, ast.Dict, ast.Set, ast.ListComp, ast.DictComp, ast.SetComp)) or (isinstance(a.value, ast.Call) and last_attr(a.value.func) in ("list", "dict", "set", "defaultdict")):
                        continue  # a collection (re)initialised
                    n += 1
                    roles = tm.site_roles(owner, m, a)
                    gated = "LINE" in roles
                    rep.check("R-GATE-NOT-OVER-STATE", tq, m.loc(a), not gated, f"{m.name}:self.{t.attr}",
                              f"`{unparse(a)[:60]}` is executed only on permitted lines, but `self.{t.attr}` decides in {cond_reads[t.attr]}() whether other "
                              "lines are fixed: a line pattern on this line disables fixes on lines the user permitted")
    if n < 1:
        raise AnalysisError("no state attribute read by a condition found in the transformer families")


def check(ctx, rep):
    rep.explanation = (
        "All 101 registered codemods' transformer classes (71 classes + the helper visitors they drive) are analysed with the "
        "role-based gate analysis for the line filter; the filter's call sites, its duplicated implementation, the path base of "
        "file_line_patterns and the argument roles of the include/exclude constructors are checked structurally."
    )
    rule_gate_line(ctx, rep)
    rule_gate_arg_type(ctx, rep)
    rule_pattern_base_sibling(ctx, rep)
    rule_filter_sibling(ctx, rep)
    rule_original_node_position(ctx, rep)
    rule_line_args(ctx, rep)
    rule_line_patterns_all(ctx, rep)
    from .c18 import rule_framework_dispatch_keeps_updates

    rep.rule("R-DISPATCH-KEEPS-UPDATES", "the framework dispatcher hands back the updated node when the line / result filter declines (a declined enclosing node must not revert a permitted nested fix)", 3)
    rule_framework_dispatch_keeps_updates(ctx, rep, "R-DISPATCH-KEEPS-UPDATES")
    rule_gate_unit(ctx, rep)
    rule_multipass_lines(ctx, rep)
    rule_no_line_prune(ctx, rep)
    rule_gate_not_over_state(ctx, rep)
    from .c06 import rule_rule_keyed

    # 'permitted lines are still fixed': the line patterns are applied to the construct that is edited (the transformers' gates), never to the
    # findings before the transformer sees them -- a finding need not sit on the line of the construct it leads to
    rule_rule_keyed(ctx, rep)
    from .c05 import rule_pattern_verbatim

    # `path:line` patterns are target-relative: a pattern rewritten on its way to file_line_patterns names another file (or none)
    rule_pattern_verbatim(ctx, rep)
    rep.not_covered += ["fnmatch semantics of `path:line` spellings", "multi-line constructs (match_line requires start == end == line)"]
