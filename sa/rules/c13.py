"""C13 — line-level include/exclude is honoured and change entries name the edited line.

R-GATE-LINE               every change effect of every registered transformer is reached only under the line filter
                          (LINE or SELECTED role, or inside on_result_found)
R-GATE-ARG-TYPE           the argument of filter_by_path_includes_or_excludes / match_line is a position, never a CST node
R-PATTERN-BASE-SIBLING    file_line_patterns is matched against the same (target-relative) path base as match_files
R-FILTER-SIBLING          the re-implementation of the line filter in core_codemods/remove_unused_imports.py equals base_visitor's
R-ORIGINAL-NODE-POSITION  positions / change lines are taken from original nodes, never from `updated_node`
R-LINE-ARGS               line_include / line_exclude arguments bind to the parameter of the same role
"""
from __future__ import annotations

import ast

from ..gates import gate_rule
from ..model import AnalysisError, FuncInfo, bind_args, call_name, last_attr, names_in, unparse, walk_no_nested
from ..prov import Prov

PROCESS = "codemodder.codemods.base_codemod.BaseCodemod._process_file"
POSITION_SOURCES = {"node_position", "get_metadata"}


def rule_gate_line(ctx, rep):
    rep.rule(
        "R-GATE-LINE",
        "for the transformer classes of all registered codemods: every change effect is reached only under a LINE-role fact "
        "(filter_by_path_includes_or_excludes, node_is_selected, membership in a line-gated collection) or lies in on_result_found",
        min_instances=150,
    )
    cms = ctx.registry.codemods
    gate_rule(ctx, rep, "R-GATE-LINE", {"LINE", "SELECTED", "IN_RESULT_FOUND"}, cms,
              "change not subject to the line include/exclude filter (an excluded `path:line` is still rewritten)")


def _is_position_expr(ctx, fn: FuncInfo, e: ast.expr, depth: int = 4) -> bool | None:
    """True: value is a position; False: value is a CST node; None: unknown."""
    if depth <= 0:
        return None
    r = ctx.resolver(fn)
    if isinstance(e, ast.Call):
        la = last_attr(e.func)
        if la in POSITION_SOURCES or la in ("cast",) and len(e.args) == 2:
            if la == "cast":
                return _is_position_expr(ctx, fn, e.args[1], depth - 1)
            return True
        if (call_name(e) or "").endswith("CodeRange"):
            return True
        return None
    if isinstance(e, ast.Name):
        if e.id in ("original_node", "updated_node", "node"):
            return False
        sa = r.single_assignments()
        if e.id in sa:
            return _is_position_expr(ctx, fn, sa[e.id], depth - 1)
        if e.id in fn.params():
            ann = r.param_annotation(e.id)
            t = unparse(ann) if ann is not None else ""
            if "CodeRange" in t:
                return True
            if t.startswith("cst.") or "CSTNode" in t:
                return False
            if "pos" in e.id.lower():
                return True
        return None
    if isinstance(e, ast.Subscript):
        # tuple element of a worklist entry: unknown here
        return None
    if isinstance(e, ast.Attribute):
        # original_node.func etc. is a node
        base = e
        while isinstance(base, ast.Attribute):
            base = base.value
        if isinstance(base, ast.Name) and base.id in ("original_node", "updated_node", "node"):
            return False
        return None
    return None


def rule_gate_arg_type(ctx, rep):
    rep.rule(
        "R-GATE-ARG-TYPE",
        "every argument of filter_by_path_includes_or_excludes / match_line is a position value (result of node_position or "
        "get_metadata(PositionProvider, ...)), never a CST node (match_line dereferences .start.line: a node raises AttributeError "
        "as soon as any line pattern is effective, and the file is reported as failed)",
        min_instances=10,
    )
    n = 0
    for fn in ctx.prog.live_functions():
        for c in walk_no_nested(fn.node):
            if isinstance(c, ast.Call) and last_attr(c.func) in ("filter_by_path_includes_or_excludes", "match_line") and c.args:
                n += 1
                v = _is_position_expr(ctx, fn, c.args[0])
                rep.check("R-GATE-ARG-TYPE", fn.qname, fn.loc(c), v is not False, f"{last_attr(c.func)}({unparse(c.args[0])[:30]})",
                          f"`{unparse(c)[:70]}` passes a CST node where a position is expected", kind={True: "position", None: "unknown", False: "node"}[v])
    if n < 10:
        raise AnalysisError("fewer than 10 line-filter call sites found")


def rule_pattern_base_sibling(ctx, rep):
    rep.rule(
        "R-PATTERN-BASE-SIBLING",
        "the two consumers of the user's path patterns match against the same base: match_files relativises paths to the target "
        "before fnmatch, so file_line_patterns must be given a target-relative path too (or match both spellings)",
        min_instances=2,
    )
    mf = ctx.prog.func("codemodder.code_directory.match_files")
    rel = any(isinstance(n, ast.Call) and last_attr(n.func) == "relative_to" for n in walk_no_nested(mf.node))
    rep.check("R-PATTERN-BASE-SIBLING", mf.qname, mf.loc(), rel, "match_files-relativises", "match_files no longer relativises paths to the target before matching")
    pf = ctx.prog.func(PROCESS)
    flp = ctx.prog.func("codemodder.code_directory.file_line_patterns")
    handles_relative_inside = any(isinstance(n, ast.Call) and last_attr(n.func) == "relative_to" for n in walk_no_nested(flp.node))
    calls = [n for n in walk_no_nested(pf.node) if isinstance(n, ast.Call) and last_attr(n.func) == "file_line_patterns"]
    if len(calls) < 2:
        raise AnalysisError("_process_file no longer computes line_include/line_exclude with file_line_patterns")
    for c in calls:
        a = c.args[0] if c.args else None
        root = Prov(ctx, pf).root(a) if a is not None else None
        relative = a is not None and any(isinstance(x, ast.Call) and last_attr(x.func) == "relative_to" for x in ast.walk(a))
        if root is not None and not relative:
            relative = any(isinstance(x, ast.Call) and last_attr(x.func) == "relative_to" for x in ast.walk(root))
        inside_ok = False
        if handles_relative_inside:
            # the callee relativises against one of its parameters: the call must actually pass it
            rel_params = {
                nm.id for x in walk_no_nested(flp.node) if isinstance(x, ast.Call) and last_attr(x.func) == "relative_to" for arg in x.args for nm in ast.walk(arg) if isinstance(nm, ast.Name)
            } & set(flp.params())
            b = bind_args(c, flp, False)
            inside_ok = any(p in b and not (isinstance(b[p], ast.Constant) and b[p].value is None) for p in rel_params)
        rep.check("R-PATTERN-BASE-SIBLING", pf.qname, pf.loc(c), relative or inside_ok, f"file_line_patterns({unparse(a) if a is not None else ''})",
                  f"line patterns are matched against `{unparse(a) if a is not None else '?'}` (the directory-prefixed path) while file patterns are "
                  "matched against the target-relative path: `--path-exclude 'a.py:3'` is silently ignored although `a.py` excludes the file")


def _norm_func(fn: FuncInfo) -> str:
    node = ast.parse(ast.unparse(fn.node)).body[0]
    # drop docstring
    if node.body and isinstance(node.body[0], ast.Expr) and isinstance(node.body[0].value, ast.Constant) and isinstance(node.body[0].value.value, str):
        node.body = node.body[1:]
    node.returns = None
    node.decorator_list = []
    for a in node.args.args:
        a.annotation = None
    return ast.dump(node, include_attributes=False)


def rule_filter_sibling(ctx, rep):
    rep.rule(
        "R-FILTER-SIBLING",
        "core_codemods.remove_unused_imports re-implements filter_by_path_includes_or_excludes and match_line; both copies are "
        "AST-equal to the ones in codemodder.codemods.base_visitor (modulo docstrings/annotations)",
        min_instances=2,
    )
    pairs = [
        ("codemodder.codemods.base_visitor.UtilsMixin.filter_by_path_includes_or_excludes", "core_codemods.remove_unused_imports.RemoveUnusedImports.filter_by_path_includes_or_excludes"),
        ("codemodder.codemods.base_visitor.match_line", "core_codemods.remove_unused_imports.match_line"),
    ]
    for a, b in pairs:
        fa = ctx.prog.func(a)
        fb = ctx.prog.functions.get(b)
        if fb is None:
            rep.instance("R-FILTER-SIBLING", b, fa.loc(), True, detail="copy removed (the shared implementation is used)")
            continue
        rep.check("R-FILTER-SIBLING", b, fb.loc(), _norm_func(fa) == _norm_func(fb), "ast-equal",
                  f"{b} diverges from {a}: the same `path:line` pattern is interpreted differently by this codemod")
    # the shared filter itself: excludes shadow includes, default True; match_line compares start and end line with the pattern line
    f = ctx.prog.func(pairs[0][0])
    txt = unparse(f.node)
    ok = "if self.line_exclude" in txt and "if self.line_include" in txt and txt.index("self.line_exclude") < txt.index("self.line_include") and "return True" in txt and "not any(" in txt
    rep.check("R-FILTER-SIBLING", f.qname, f.loc(), ok, "filter-shape", "filter_by_path_includes_or_excludes lost its exclude-first / include / default-true structure")
    ml = ctx.prog.func(pairs[1][0])
    cmp_ = [n for n in walk_no_nested(ml.node) if isinstance(n, ast.Compare)]
    ok = len(cmp_) == 2 and all(isinstance(c.ops[0], ast.Eq) for c in cmp_) and {"pos.start.line", "pos.end.line"} <= {unparse(c.left) for c in cmp_}
    rep.check("R-FILTER-SIBLING", ml.qname, ml.loc(), ok, "match_line-shape", "match_line no longer requires start and end line to equal the given line")


def rule_original_node_position(ctx, rep):
    rep.rule(
        "R-ORIGINAL-NODE-POSITION",
        "in transformer hooks the node handed to report_change / add_change / lineno_for_node / node_position / node_is_selected / "
        "get_metadata(PositionProvider, .) is never the hook's `updated_node` (libcst has no metadata for rebuilt nodes: KeyError -> file fails)",
        min_instances=100,
    )
    fns = ("report_change", "add_change", "lineno_for_node", "node_position", "node_is_selected", "report_unfixed", "filter_by_result", "results_for_node")
    n = 0
    for fn in ctx.prog.live_functions():
        if fn.cls is None:
            continue
        params = fn.positional_params()
        upd = params[2] if len(params) >= 3 and (fn.name.startswith("leave_") or fn.name == "on_result_found") else ("updated_node" if "updated_node" in params else None)
        for c in walk_no_nested(fn.node):
            if isinstance(c, ast.Call) and isinstance(c.func, ast.Attribute):
                la = c.func.attr
                arg = None
                if la in fns and c.args:
                    arg = c.args[0]
                elif la == "get_metadata" and len(c.args) >= 2 and "PositionProvider" in unparse(c.args[0]):
                    arg = c.args[1]
                if arg is None:
                    continue
                n += 1
                base = arg
                while isinstance(base, (ast.Attribute, ast.Subscript)):
                    base = base.value
                bad = upd is not None and isinstance(base, ast.Name) and base.id == upd
                rep.check("R-ORIGINAL-NODE-POSITION", fn.qname, fn.loc(c), not bad, f"{la}({unparse(arg)[:30]})",
                          f"`{unparse(c)[:70]}` asks for the position of the rebuilt node `{upd}`; metadata exists only for original nodes")
    if n < 100:
        raise AnalysisError(f"only {n} position-consuming call sites found")


def rule_line_args(ctx, rep):
    from .c05 import rule_pattern_args

    rule_pattern_args(ctx, rep, rule_id="R-LINE-ARGS", families=(0,))


def rule_line_patterns_all(ctx, rep):
    rep.rule(
        "R-LINE-PATTERNS-ALL",
        "file_line_patterns yields one line per matching `path:line` pattern: its result is a list built by iterating the patterns, "
        "with no intermediate mapping keyed by the path part (two entries for the same path would collapse into one)",
        min_instances=1,
    )
    fn = ctx.prog.func("codemodder.code_directory.file_line_patterns")
    r = ctx.resolver(fn)
    problems = []
    rets = [n.value for n in walk_no_nested(fn.node) if isinstance(n, ast.Return) and n.value is not None]
    for rv in rets:
        v = r.expand(rv)
        if isinstance(v, ast.ListComp):
            it = v.generators[0].iter
            src = r.expand(it)
            if not (isinstance(src, ast.Name) and src.id == "patterns"):
                # iterating something derived from the patterns: must not be a dict / set
                problems.append(f"the result iterates `{unparse(it)[:40]}` instead of the pattern list itself")
        elif isinstance(v, ast.Call) and call_name(v) in ("list", "sorted") and v.args and isinstance(r.expand(v.args[0]), (ast.DictComp, ast.SetComp, ast.Dict, ast.Set)):
            problems.append("the result is taken from a dict/set (duplicates of the same path collapse)")
        elif isinstance(v, ast.Name):
            pass
    for n in walk_no_nested(fn.node):
        if isinstance(n, (ast.DictComp, ast.SetComp)) or (isinstance(n, ast.Call) and call_name(n) in ("dict", "set")):
            problems.append(f"`{unparse(n)[:50]}` builds a mapping/set between the patterns and the result")
    # helpers called by it
    for c in walk_no_nested(fn.node):
        if isinstance(c, ast.Call):
            for t in r.resolve_call(c):
                if isinstance(t, FuncInfo) and t.module is fn.module and t is not fn:
                    for n in walk_no_nested(t.node):
                        if isinstance(n, (ast.DictComp, ast.SetComp, ast.Dict)) or (isinstance(n, ast.Call) and call_name(n) in ("dict", "set")) or (isinstance(n, ast.Assign) and isinstance(n.targets[0], ast.Subscript)):
                            problems.append(f"helper {t.name} keys the patterns in a mapping (`{unparse(n)[:40]}`)")
                            break
    rep.check("R-LINE-PATTERNS-ALL", fn.qname, fn.loc(), not problems, "one-line-per-pattern", "; ".join(problems[:3]))


def check(ctx, rep):
    rep.explanation = (
        "All 101 registered codemods' transformer classes (71 classes + the helper visitors they drive) are analysed with the "
        "role-based gate analysis for the line filter; the filter's call sites, its duplicated implementation, the path base of "
        "file_line_patterns and the argument roles of the include/exclude constructors are checked structurally."
    )
    rule_gate_line(ctx, rep)
    rule_gate_arg_type(ctx, rep)
    rule_pattern_base_sibling(ctx, rep)
    rule_filter_sibling(ctx, rep)
    rule_original_node_position(ctx, rep)
    rule_line_args(ctx, rep)
    rule_line_patterns_all(ctx, rep)
    rep.not_covered += ["fnmatch semantics of `path:line` spellings", "multi-line constructs (match_line requires start == end == line)"]
