"""C11 — results do not depend on scheduling, worker count, hash seed or enumeration order.

R-MAX-WORKERS       the pool size in _apply is data-flow reachable from --max-workers
R-ORDERED-MERGE     per-file results are merged in input order (executor.map), inputs come from a sorted list
R-WORKER-ISOLATION  nothing reachable from the per-file worker mutates the shared execution context or module/class state
R-NO-UNORDERED-ITER no order-sensitive iteration over a set / raw directory enumeration
"""
from __future__ import annotations

import ast

from ..sites import apply_fn, worker_fn
from ..model import AnalysisError, FuncInfo, bind_args, call_name, dotted_name, last_attr, names_in, unparse, walk_no_nested
from ..prov import Prov

APPLY = "codemodder.codemods.base_codemod.BaseCodemod._apply"
WORKER = "codemodder.codemods.base_codemod.BaseCodemod._process_file"
CONTEXT = "codemodder.context.CodemodExecutionContext"
FS_ENUM_ATTRS = {"rglob", "glob", "iterdir"}
FS_ENUM_FUNCS = {"os.listdir", "os.walk", "os.scandir", "glob.glob", "glob.iglob"}
ORDER_INSENSITIVE_CONSUMERS = {"sorted", "set", "frozenset", "any", "all", "sum", "len", "min", "max"}


def _is_set_ann(ann: ast.AST | None) -> bool:
    if ann is None:
        return False
    if isinstance(ann, ast.Constant) and isinstance(ann.value, str):
        try:
            ann = ast.parse(ann.value, mode="eval").body
        except SyntaxError:
            return False
    base = ann.value if isinstance(ann, ast.Subscript) else ann
    return (dotted_name(base) or "").split(".")[-1] in ("set", "Set", "frozenset", "FrozenSet", "AbstractSet")


# attributes of libcst objects that are sets (libcst.codemod.visitors.GatherUnusedImportsVisitor.unused_imports: Set[Tuple[ImportAlias, Import | ImportFrom]];
# libcst.metadata.BaseAssignment.references, Scope.accesses / .assignments: sets of Access / BaseAssignment)
LIBCST_SET_ATTRS = {"unused_imports", "references", "accesses", "assignments"}


def _int_elements(fn: FuncInfo, r, e: ast.expr) -> bool:
    """is `e` a name annotated (parameter or annotated assignment in this function) as a collection of int?"""
    if not isinstance(e, ast.Name):
        return False
    anns = [r.param_annotation(e.id)] if e.id in fn.params() else []
    anns += [n.annotation for n in walk_no_nested(fn.node) if isinstance(n, ast.AnnAssign) and isinstance(n.target, ast.Name) and n.target.id == e.id]
    for a in anns:
        if isinstance(a, ast.Subscript) and (dotted_name(a.value) or "").split(".")[-1] in ("list", "List", "set", "Set", "Sequence", "Iterable", "frozenset", "tuple") \
                and isinstance(a.slice, ast.Name) and a.slice.id == "int":
            return True
    return False


def unordered_source(ctx, fn: FuncInfo, e: ast.expr, depth: int = 3) -> ast.expr | None:
    """The unordered collection `e` draws from (None if ordered / unknown)."""
    r = ctx.resolver(fn)
    if depth <= 0:
        return None
    if isinstance(e, (ast.Set, ast.SetComp)):
        return e
    if isinstance(e, ast.Name):
        if e.id in fn.params() and _is_set_ann(r.param_annotation(e.id)):
            return e
        sa = r.single_assignments()
        if e.id in sa:
            return unordered_source(ctx, fn, sa[e.id], depth - 1)
        return None
    if isinstance(e, ast.NamedExpr):
        return unordered_source(ctx, fn, e.value, depth)
    if isinstance(e, ast.Attribute):
        t = r.type_of(e.value)
        if t and t in ctx.prog.classes:
            for c in ctx.prog.mro_classes(t):
                if e.attr in c.ann:
                    return e if _is_set_ann(c.ann[e.attr]) else None
        if e.attr in LIBCST_SET_ATTRS and not (t and t in ctx.prog.classes):
            return e  # documented libcst API: a set of nodes / accesses (identity-hashed: iteration in address order)
        return None
    if isinstance(e, ast.Call):
        q = r.callee_qname(e) if dotted_name(e.func) else None
        la = last_attr(e.func)
        if q in ("sorted",):
            return None
        if q in ("set", "frozenset"):
            if e.args and _int_elements(fn, r, e.args[0]):
                # hash(int) is the int: the iteration order of a set of ints is a function of the values and the insertion sequence only,
                # never of PYTHONHASHSEED (str / bytes / object hashes are what the seed randomises)
                return None
            return e
        if q in FS_ENUM_FUNCS:
            return e
        if isinstance(e.func, ast.Attribute) and la in FS_ENUM_ATTRS:
            return e
        if q in ("list", "tuple", "iter", "enumerate", "reversed", "filter", "map") and e.args:
            return unordered_source(ctx, fn, e.args[-1] if q in ("filter", "map") else e.args[0], depth - 1)
        if isinstance(e.func, ast.Attribute) and la in ("union", "intersection", "difference", "keys", "values", "items", "copy"):
            return unordered_source(ctx, fn, e.func.value, depth - 1)
        # repo function/property that returns an unordered collection
        for t in r.resolve_call(e):
            if isinstance(t, FuncInfo):
                src = returns_unordered(ctx, t, depth - 1)
                if src is not None:
                    return e
        return None
    if isinstance(e, ast.BinOp) and isinstance(e.op, (ast.BitOr, ast.BitAnd, ast.Sub)):
        return unordered_source(ctx, fn, e.left, depth - 1) or unordered_source(ctx, fn, e.right, depth - 1)
    if isinstance(e, (ast.ListComp, ast.GeneratorExp)):
        return unordered_source(ctx, fn, e.generators[0].iter, depth - 1)
    return None


def returns_unordered(ctx, fn: FuncInfo, depth: int = 2):
    if _is_set_ann(fn.node.returns):
        return fn.node
    for n in walk_no_nested(fn.node):
        if isinstance(n, ast.Return) and n.value is not None:
            s = unordered_source(ctx, fn, n.value, depth)
            if s is not None:
                return s
    return None


def _consumer_insensitive(ctx, fn: FuncInfo, node: ast.AST) -> str | None:
    """If the iteration's result is consumed order-insensitively, say how."""
    pm = ctx.parents(fn)
    par = pm.get(id(node))
    if isinstance(node, (ast.SetComp,)):
        return "builds a set"
    if isinstance(par, ast.Call) and (call_name(par) in ORDER_INSENSITIVE_CONSUMERS) and node in par.args:
        return f"consumed by {call_name(par)}()"
    if isinstance(par, ast.Compare) and any(isinstance(o, (ast.In, ast.NotIn)) for o in par.ops):
        return "membership test"
    if isinstance(par, ast.Call) and call_name(par) in ("list", "tuple") :
        return _consumer_insensitive(ctx, fn, par)
    if isinstance(par, (ast.Assign, ast.AnnAssign)) and par.value is node:
        tg = par.targets if isinstance(par, ast.Assign) else [par.target]
        if len(tg) == 1 and isinstance(tg[0], ast.Name) and _sorted_before_all_uses(fn, tg[0].id, par):
            return f"collected into `{tg[0].id}`, which is sorted in place before it is used"
    return None


def _sorted_before_all_uses(fn: FuncInfo, name: str, after: ast.AST) -> bool:
    """Every read of the list `name` after statement `after` (other than filling it) comes after a `name.sort()`."""
    start = getattr(after, "end_lineno", None) or after.lineno
    sorts, uses = [], []
    pm = {id(c): p for p in ast.walk(fn.node) for c in ast.iter_child_nodes(p)}
    for n in walk_no_nested(fn.node):
        if isinstance(n, ast.Name) and n.id == name and isinstance(n.ctx, ast.Load) and n.lineno >= after.lineno:
            par = pm.get(id(n))
            if isinstance(par, ast.Attribute) and par.value is n and isinstance(pm.get(id(par)), ast.Call) and pm[id(par)].func is par:
                if par.attr == "sort":
                    sorts.append(n.lineno)
                    continue
                if par.attr in ("append", "extend", "add"):
                    continue
            if n.lineno > start or not any(x is n for x in ast.walk(after)):
                uses.append(n.lineno)
        elif isinstance(n, (ast.Assign, ast.AugAssign)) and n is not after and n.lineno > start:
            tg = n.targets if isinstance(n, ast.Assign) else [n.target]
            if any(isinstance(t, ast.Name) and t.id == name for t in tg):
                return False
    return bool(sorts) and all(min(sorts) < u for u in uses)


def _loop_collects_into(loop: ast.For) -> str | None:
    """The loop only filters its items into one local list (`L.append(item)` under ifs / continue): name of L."""
    target = None
    for st in loop.body:
        for n in ast.walk(st):
            if isinstance(n, ast.Call):
                if isinstance(n.func, ast.Attribute) and n.func.attr == "append" and isinstance(n.func.value, ast.Name):
                    if target not in (None, n.func.value.id):
                        return None
                    target = n.func.value.id
                    continue
                la = last_attr(n.func) or ""
                if la in ("is_symlink", "is_file", "is_dir", "exists", "startswith", "endswith", "match", "fnmatch", "isinstance", "Path", "str", "debug"):
                    continue
                return None
            if isinstance(n, (ast.Return, ast.Yield, ast.Break, ast.Assign, ast.AugAssign, ast.Raise)):
                return None
    return target


ORDERED_MUTATORS = {"append", "extend", "insert", "write", "writelines", "setdefault", "pop", "popitem", "remove", "sort", "reverse", "send", "put"}


def _effect_free(ctx, fn: FuncInfo, call: ast.Call, depth: int = 2) -> bool:
    """The call reaches only repository functions that neither mutate a sequence / mapping nor store attributes (their result may depend on
    the argument, not on how often or in which order they are called)."""
    try:
        ts = ctx.resolver(fn).resolve_call(call)
    except Exception:
        return False
    if not ts:
        return False
    for t in ts:
        if not isinstance(t, FuncInfo):
            # external: constructors / converters of well-known libraries
            if str(t).split(".")[0] in ("packaging", "pathlib", "builtins", "re", "str", "int") or str(t) in ("str", "int", "float", "bool", "len", "repr", "Path"):
                continue
            return False
        for n in walk_no_nested(t.node):
            if isinstance(n, (ast.Global, ast.Nonlocal, ast.Yield, ast.YieldFrom)):
                return False
            if isinstance(n, (ast.Assign, ast.AugAssign)) and any(isinstance(x, (ast.Attribute, ast.Subscript)) for tg in (n.targets if isinstance(n, ast.Assign) else [n.target]) for x in [tg]):
                return False
            if isinstance(n, ast.Call):
                la = last_attr(n.func) or ""
                if la in ORDERED_MUTATORS or la in ("add", "update", "discard"):
                    return False
                if depth and isinstance(n.func, (ast.Name, ast.Attribute)):
                    q = ctx.resolver(t).callee_qname(n) or ""
                    if q in ctx.prog.functions and not _effect_free(ctx, t, n, depth - 1):
                        return False
    return True


def _body_insensitive(body: list[ast.stmt], ctx=None, fn: FuncInfo | None = None, loop: ast.AST | None = None) -> bool:
    """Loop body whose effects commute: set.add / membership / logging / counters; temporaries that live inside one iteration; calls to
    effect-free functions of the repository."""
    local_tmp: set[str] = set()
    if fn is not None and loop is not None:
        assigned = {t.id for st in body for a in ast.walk(st) if isinstance(a, ast.Assign) for t in a.targets if isinstance(t, ast.Name)}
        end = getattr(loop, "end_lineno", loop.lineno)
        read_after = {x.id for x in walk_no_nested(fn.node) if isinstance(x, ast.Name) and isinstance(x.ctx, ast.Load) and x.lineno > end}
        local_tmp = assigned - read_after
    for st in body:
        for n in ast.walk(st):
            if isinstance(n, ast.Call):
                la = last_attr(n.func) or ""
                d = dotted_name(n.func) or ""
                if la in ("add", "discard", "update", "debug", "info", "warning", "error", "exception", "get", "isinstance", "len") or d.startswith(("logger.", "logging.")):
                    continue
                if d in ("isinstance", "len", "str", "any", "all"):
                    continue
                if ctx is not None and fn is not None and _effect_free(ctx, fn, n):
                    continue
                return False
            if isinstance(n, (ast.Return, ast.Yield, ast.Break, ast.Assign, ast.AugAssign)):
                if isinstance(n, ast.AugAssign) and isinstance(n.op, (ast.Add, ast.BitOr)) and isinstance(n.value, ast.Constant):
                    continue
                if isinstance(n, ast.Assign) and all(isinstance(t, ast.Name) and t.id in local_tmp for t in n.targets):
                    continue  # a temporary of this iteration
                return False
    return True


def unordered_iterations(ctx, fn: FuncInfo):
    """(node, unordered source expr, kind) for order-sensitive iterations in fn."""
    out = []
    for n in walk_no_nested(fn.node):
        if isinstance(n, (ast.For, ast.AsyncFor)):
            src = unordered_source(ctx, fn, n.iter)
            if src is not None and not _body_insensitive(n.body, ctx, fn, n):
                coll = _loop_collects_into(n)
                if coll is not None and _sorted_before_all_uses(fn, coll, n):
                    continue  # filtered into a list that is sorted before anyone looks at it
                out.append((n, src, "for"))
        elif isinstance(n, (ast.ListComp, ast.GeneratorExp, ast.DictComp)):
            for g in n.generators:
                src = unordered_source(ctx, fn, g.iter)
                if src is not None and _consumer_insensitive(ctx, fn, n) is None:
                    out.append((n, src, "comprehension"))
        elif isinstance(n, ast.Call) and call_name(n) in ("list", "tuple") and n.args:
            src = unordered_source(ctx, fn, n.args[0])
            if src is not None and not isinstance(n.args[0], (ast.ListComp, ast.GeneratorExp)) and _consumer_insensitive(ctx, fn, n) is None:
                out.append((n, src, "list()"))
    return out


# order-insensitive uses confirmed by reading: (function, source text prefix) -> reason
UNORDERED_OK = {
    ("codemodder.code_directory.files_for_directory", "Path($0).rglob"): "every consumer passes the list through match_files(), which sorts",
    ("codemodder.registry.CodemodRegistry.default_include_paths", "self._default_include_paths"): "only used as fnmatch include patterns (set algebra in match_files) and for logging",
    ("codemodder.context.CodemodExecutionContext.process_dependencies", "dependencies"): "each codemod adds at most one distinct Dependency (checked by R-NO-UNORDERED-ITER/one-dependency)",
    ("codemodder.context.CodemodExecutionContext.process_dependencies", "self.dependencies.get(codemod_id)"): "each codemod adds at most one distinct Dependency (checked by R-NO-UNORDERED-ITER/one-dependency)",
    ("codemodder.context.CodemodExecutionContext.process_dependencies", "self.dependencies.get($1)"): "each codemod adds at most one distinct Dependency (checked by R-NO-UNORDERED-ITER/one-dependency)",
    ("codemodder.context.CodemodExecutionContext.add_description", "self.dependencies.get($1.id, [])"): "each codemod adds at most one distinct Dependency (checked by R-NO-UNORDERED-ITER/one-dependency)",
    ("codemodder.context.CodemodExecutionContext.add_description", "self.dependencies.get(codemod.id, [])"): "each codemod adds at most one distinct Dependency (checked by R-NO-UNORDERED-ITER/one-dependency)",
}


def rule_max_workers(ctx, rep):
    rep.rule(
        "R-MAX-WORKERS",
        "ThreadPoolExecutor in _apply receives max_workers whose provenance is context.max_workers, which __init__ stores from its "
        "parameter, which run() binds to argv.max_workers",
        min_instances=3,
    )
    fn = apply_fn(ctx)
    r = ctx.resolver(fn)
    pools = [n for n in walk_no_nested(fn.node) if isinstance(n, ast.Call) and (r.callee_qname(n) or "").endswith(("ThreadPoolExecutor", "ProcessPoolExecutor"))]
    if not pools:
        raise AnalysisError("_apply no longer creates an executor pool")
    for p in pools:
        arg = next((k.value for k in p.keywords if k.arg == "max_workers"), p.args[0] if p.args else None)
        root = Prov(ctx, fn).root(arg) if arg is not None else None
        ok = root is not None and isinstance(root, ast.Attribute) and root.attr == "max_workers"
        rep.check("R-MAX-WORKERS", fn.qname, fn.loc(p), ok, "pool-size",
                  f"`{unparse(p)}` " + ("takes no max_workers argument: the pool uses min(32, cpu+4) threads whatever --max-workers says" if arg is None else f"is sized by `{unparse(arg)}`, not by context.max_workers"))
    init = ctx.prog.func(CONTEXT + ".__init__")
    stored = any(
        isinstance(n, ast.Assign) and isinstance(n.targets[0], ast.Attribute) and n.targets[0].attr == "max_workers" and isinstance(n.value, ast.Name) and n.value.id == "max_workers"
        for n in walk_no_nested(init.node)
    )
    rep.check("R-MAX-WORKERS", init.qname, init.loc(), stored, "stored", "CodemodExecutionContext.__init__ does not store its max_workers parameter")
    run = ctx.prog.func("codemodder.codemodder.run")
    ok = False
    for caller, call in ctx.cg.sites.get(init.qname, []):
        if caller.qname == run.qname:
            b = bind_args(call, init, True)
            a = b.get("max_workers")
            ok = a is not None and isinstance(a, ast.Attribute) and a.attr == "max_workers"
    rep.check("R-MAX-WORKERS", run.qname, run.loc(), ok, "cli->context", "run() does not pass argv.max_workers to the execution context")
    pa = ctx.prog.func("codemodder.cli.parse_args")
    has = any(isinstance(n, ast.Call) and last_attr(n.func) == "add_argument" and n.args and isinstance(n.args[0], ast.Constant) and n.args[0].value == "--max-workers"
              and any(k.arg == "type" and unparse(k.value) == "int" for k in n.keywords) for n in walk_no_nested(pa.node))
    rep.check("R-MAX-WORKERS", pa.qname, pa.loc(), has, "cli-option", "--max-workers is no longer parsed as an int option")


def rule_ordered_merge(ctx, rep):
    rep.rule(
        "R-ORDERED-MERGE",
        "the iterable handed to context.process_results derives from executor.map over the files list (input order); no "
        "as_completed/submit gathering; the files list derives from match_files() whose result is sorted",
        min_instances=3,
    )
    fn = apply_fn(ctx)
    pv = Prov(ctx, fn)
    prs = [n for n in walk_no_nested(fn.node) if isinstance(n, ast.Call) and last_attr(n.func) == "process_results"]
    if not prs:
        raise AnalysisError("_apply no longer calls process_results")
    for c in prs:
        arg = c.args[1] if len(c.args) > 1 else None
        root = pv.root(arg) if arg is not None else None
        ok = isinstance(root, ast.Call) and last_attr(root.func) == "map" and isinstance(root.func, ast.Attribute)
        rep.check("R-ORDERED-MERGE", fn.qname, fn.loc(c), ok, "merge-source",
                  f"results merged from `{unparse(root) if root is not None else '?'}` rather than from executor.map (completion order would leak into the report)")
    bad = [n for n in walk_no_nested(fn.node) if isinstance(n, ast.Call) and (last_attr(n.func) in ("as_completed", "submit", "imap_unordered", "wait"))]
    rep.check("R-ORDERED-MERGE", fn.qname, fn.loc(bad[0]) if bad else fn.loc(), not bad, "no-unordered-gather",
              "per-file results are gathered with " + ", ".join(unparse(b.func) for b in bad) + " (completion order)")
    mf = ctx.prog.func("codemodder.code_directory.match_files")
    from ..order import is_sorted_value

    rets = [n for n in walk_no_nested(mf.node) if isinstance(n, ast.Return) and n.value is not None]
    ok = bool(rets) and all(is_sorted_value(ctx, mf, n.value, n) for n in rets)
    rep.check("R-ORDERED-MERGE", mf.qname, mf.loc(), ok, "sorted-files", "match_files no longer returns a sorted list")
    # both get_files_to_analyze variants derive from match_files (see C05 R-FILESET-SOURCE)


def _context_mutators(ctx) -> dict[str, FuncInfo]:
    c = ctx.prog.cls(CONTEXT)
    out = {}
    for name, m in c.methods.items():
        if name == "__init__":
            continue
        for n in walk_no_nested(m.node):
            if isinstance(n, (ast.Assign, ast.AugAssign)):
                tg = n.targets if isinstance(n, ast.Assign) else [n.target]
                if any(isinstance(x, (ast.Attribute, ast.Subscript)) and "self" in names_in(x) for x in tg):
                    out[name] = m
            if isinstance(n, ast.Call) and last_attr(n.func) in ("append", "extend", "update", "setdefault", "add", "aggregate", "pop", "clear") and "self" in names_in(n.func):
                out[name] = m
    return out


PROCESS_WIDE_SETTERS = {
    "sys.setrecursionlimit", "sys.setswitchinterval", "sys.settrace", "sys.setprofile", "os.chdir", "os.umask", "os.putenv", "os.unsetenv",
    "locale.setlocale", "signal.signal", "socket.setdefaulttimeout", "random.seed", "warnings.simplefilter", "warnings.filterwarnings",
    "threading.settrace", "threading.stack_size", "gc.disable", "gc.enable", "gc.set_threshold", "decimal.setcontext", "resource.setrlimit",
    "faulthandler.enable", "tempfile.tempdir",
}
PROCESS_WIDE_OBJECTS = {"os.environ", "sys.path", "sys.modules", "sys.stdout", "sys.stderr", "sys.argv", "tempfile.tempdir"}


def rule_worker_isolation(ctx, rep):
    rep.rule(
        "R-WORKER-ISOLATION",
        "from the per-file worker (_process_file and everything it reaches) no mutator of CodemodExecutionContext is called, no "
        "attribute of the shared context is assigned, no module- or class-level state is written, and no process-wide setting "
        "(sys.setrecursionlimit, os.chdir, os.environ, locale, warnings filters, ...) is changed",
        min_instances=50,
    )
    muts = _context_mutators(ctx)
    if len(muts) < 5:
        raise AnalysisError(f"only {len(muts)} mutators of CodemodExecutionContext recognised")
    WORKER = worker_fn(ctx).qname
    reach = ctx.cg.reachable([WORKER])
    mut_q = {m.qname for m in muts.values()}
    per_file = _per_file_classes(ctx, reach)
    for q in sorted(reach):
        fn = ctx.prog.functions[q]
        r = ctx.resolver(fn)
        problems = []
        # `self` of a method reached from the worker is shared by all workers unless its class is created per file
        shared_self = (fn.cls is not None and fn.name not in ("__init__", "__new__", "__post_init__") and fn.params()[:1] == ["self"]
                       and not _is_per_file(ctx, fn.cls.qname, per_file))
        if shared_self:
            for n in walk_no_nested(fn.node):
                tg = n.targets if isinstance(n, ast.Assign) else ([n.target] if isinstance(n, (ast.AugAssign, ast.AnnAssign)) and getattr(n, "value", None) is not None else [])
                for t in tg:
                    base = t
                    while isinstance(base, (ast.Attribute, ast.Subscript)):
                        base = base.value
                    if isinstance(base, ast.Name) and base.id == "self" and isinstance(t, (ast.Attribute, ast.Subscript)):
                        problems.append((n, f"`{unparse(t)} = ...` on an object shared by all workers ({fn.cls.name} is created once per codemod, not per file): "
                                            "per-file data kept there is overwritten by the worker of another file between store and read"))
                if isinstance(n, ast.Call) and isinstance(n.func, ast.Attribute) and n.func.attr in ("append", "extend", "update", "add", "setdefault", "pop", "clear", "insert", "remove"):
                    base = n.func.value
                    depth_ = 0
                    while isinstance(base, (ast.Attribute, ast.Subscript)):
                        base = base.value
                        depth_ += 1
                    if isinstance(base, ast.Name) and base.id == "self" and depth_ >= 1:
                        problems.append((n, f"`{unparse(n)[:50]}` mutates state of an object shared by all workers ({fn.cls.name})"))
        if q in mut_q:
            problems.append((fn.node, f"context mutator {fn.name} is reachable from the worker"))
        for n in walk_no_nested(fn.node):
            if isinstance(n, ast.Global):
                problems.append((n, f"`global {', '.join(n.names)}`"))
            # interpreter- / process-wide settings: every worker thread shares them, so set-and-restore around one file's work races
            # with the worker of another file (the second file then runs under the restored value, or the first under the raised one)
            if isinstance(n, ast.Call):
                cq_ = r.callee_qname(n) or call_name(n) or ""
                if cq_ in PROCESS_WIDE_SETTERS:
                    problems.append((n, f"`{unparse(n)[:50]}` changes a process-wide setting from a worker thread"))
            if isinstance(n, (ast.Assign, ast.AugAssign, ast.Delete)):
                for t in (n.targets if not isinstance(n, ast.AugAssign) else [n.target]):
                    tt = t.value if isinstance(t, ast.Subscript) else t
                    if isinstance(tt, ast.Attribute) and (ctx.prog.resolve_expr_name(fn.module, tt) or unparse(tt)) in PROCESS_WIDE_OBJECTS:
                        problems.append((n, f"`{unparse(t)[:40]}` is process-wide state written from a worker thread"))
            if isinstance(n, (ast.Assign, ast.AugAssign)):
                tg = n.targets if isinstance(n, ast.Assign) else [n.target]
                for t in tg:
                    base = t
                    while isinstance(base, (ast.Attribute, ast.Subscript)):
                        base = base.value
                    if isinstance(base, ast.Name) and isinstance(t, (ast.Attribute, ast.Subscript)):
                        ty = r.type_of(base)
                        if ty == CONTEXT or (base.id == "context" and ty is None and "context" in fn.params() and fn.cls is not None and fn.cls.qname.startswith("codemodder.codemods.base")):
                            problems.append((n, f"assignment to shared context `{unparse(t)}`"))
                        elif base.id in fn.module.constants and base.id not in r._assign_counts if r.single_assignments() is not None else False:
                            problems.append((n, f"write to module-level `{unparse(t)}`"))
                        elif base.id == "cls" or (base.id in fn.module.classes):
                            problems.append((n, f"write to class-level state `{unparse(t)}`"))
            if isinstance(n, ast.Call) and isinstance(n.func, ast.Attribute):
                la = n.func.attr
                recv = n.func.value
                base = recv
                while isinstance(base, (ast.Attribute, ast.Subscript)):
                    base = base.value
                if la in ("append", "extend", "update", "add", "setdefault", "pop", "clear", "insert", "remove") and isinstance(base, ast.Name):
                    r.single_assignments()
                    if base.id in fn.module.constants and base.id not in r._assign_counts and base.id not in fn.params():
                        problems.append((n, f"mutation of module-level `{unparse(recv)}`"))
                    if r.type_of(base) == CONTEXT:
                        problems.append((n, f"mutation of shared context state `{unparse(recv)}`"))
                # the shared timer is only aggregated after the pool has finished; workers must use their FileContext's timer
                if la in ("measure", "aggregate", "start", "stop") and isinstance(recv, ast.Attribute) and recv.attr == "timer":
                    tb = recv.value
                    if isinstance(tb, ast.Name) and (r.type_of(tb) == CONTEXT or tb.id == "context"):
                        problems.append((n, f"worker uses the shared run timer `{unparse(recv)}.{la}()`"))
        rep.check("R-WORKER-ISOLATION", fn.qname, fn.loc(problems[0][0]) if problems else fn.loc(), not problems, "shared-state",
                  "worker-reachable code touches shared state: " + "; ".join(p for _, p in problems[:3]),
                  path=ctx.cg.path(WORKER, q) if problems else None)


VISITOR_BASES = ("libcst.CSTVisitor", "libcst.CSTTransformer", "libcst.codemod.", "libcst.MetadataDependent", "libcst.matchers.Matcher", "xml.sax")


def _per_file_classes(ctx, reach) -> set[str]:
    """classes instantiated by worker-reachable code (plus the default_factory fields of those that are dataclasses)"""
    out: set[str] = set()
    for q in reach:
        fn = ctx.prog.functions[q]
        r = ctx.resolver(fn)
        for n in walk_no_nested(fn.node):
            if isinstance(n, ast.Call):
                try:
                    ts = r.resolve_call(n)
                except Exception:
                    ts = []
                for t in ts:
                    if isinstance(t, FuncInfo) and t.name == "__init__" and t.cls is not None:
                        out.add(t.cls.qname)
                    elif isinstance(t, str) and t in ctx.prog.classes:
                        out.add(t)
    work = list(out)
    while work:
        cq = work.pop()
        ci = ctx.prog.classes.get(cq)
        if ci is None:
            continue
        for st in ci.node.body:
            if isinstance(st, ast.AnnAssign) and isinstance(st.value, ast.Call) and call_name(st.value) in ("field", "dataclasses.field"):
                for k in st.value.keywords:
                    if k.arg == "default_factory":
                        q2 = ctx.prog.resolve_expr_name(ci.module, k.value)
                        if q2 in ctx.prog.classes and q2 not in out:
                            out.add(q2)
                            work.append(q2)
    return out


def _is_per_file(ctx, cq: str, per_file: set[str]) -> bool:
    for m in ctx.prog.mro(cq):
        if m in per_file:
            return True
        if m in ctx.prog.classes and any(e.startswith(VISITOR_BASES) for e in ctx.prog.external_bases(m)):
            return True  # libcst / sax visitors and transformers are instantiated for each module they process
    return False


def _dependency_adds(ctx):
    """class qname -> set of dependency expressions passed to add_dependency in its own methods."""
    out: dict[str, set[str]] = {}
    for c in ctx.prog.classes.values():
        for m in c.methods.values():
            for n in walk_no_nested(m.node):
                if isinstance(n, ast.Call) and last_attr(n.func) == "add_dependency" and n.args:
                    if isinstance(n.args[0], ast.Name) and n.args[0].id in m.params():
                        continue  # forwarding wrapper
                    out.setdefault(c.qname, set()).add(unparse(n.args[0]))
    return out


def partial_key_sorts(ctx, fn: FuncInfo):
    """sort / sorted over an unordered source with a key that looks at one component only: ties keep hash order."""
    out = []
    r = ctx.resolver(fn)

    def partial(keyfn) -> bool:
        """the key looks at one projection of the element only (x[0], len(p.parts), p.name): elements that agree on it keep source order"""
        if not isinstance(keyfn, ast.Lambda) or len(keyfn.args.args) != 1:
            return False
        p = keyfn.args.args[0].arg
        uses = [n for n in ast.walk(keyfn.body) if isinstance(n, ast.Name) and n.id == p]
        pm = {id(c): par for par in ast.walk(keyfn.body) for c in ast.iter_child_nodes(par)}
        if not uses:
            return False
        # a key that is the source *position* of a node (PositionProvider metadata) is injective over distinct nodes: no ties to keep hash order
        if any(isinstance(c, ast.Call) and (last_attr(c.func) or "") in ("get_metadata", "node_position", "lineno_for_node") for c in ast.walk(keyfn.body)):
            return False
        proj = set()
        for u in uses:
            par = pm.get(id(u))
            if isinstance(par, ast.Subscript) and par.value is u:
                proj.add("[" + unparse(par.slice) + "]")
            elif isinstance(par, ast.Attribute) and par.value is u and par.attr not in ("as_posix", "resolve", "absolute", "lower", "casefold", "__str__", "__fspath__"):
                proj.add("." + par.attr)
            else:
                return False  # the element itself takes part in the key (bare, str(p), p.as_posix() ...)
        return len(proj) == 1  # one component only; several components are taken as the whole element

    for n in walk_no_nested(fn.node):
        if isinstance(n, ast.Call):
            key = next((k.value for k in n.keywords if k.arg == "key"), None)
            if key is None or not partial(key):
                continue
            if call_name(n) == "sorted" and n.args:
                src = n.args[0]
            elif isinstance(n.func, ast.Attribute) and n.func.attr == "sort":
                src = n.func.value
            else:
                continue
            # the sorted collection comes from an unordered source (directly or through list(...))
            e = src
            if isinstance(e, ast.Name):
                vals = [a.value for a in walk_no_nested(fn.node) if isinstance(a, ast.Assign) and any(isinstance(t, ast.Name) and t.id == e.id for t in a.targets)]
                e = vals[0] if len(vals) == 1 else e
            u = unordered_source(ctx, fn, e)
            if u is None and isinstance(e, ast.Call) and call_name(e) in ("list", "tuple") and e.args and isinstance(e.args[0], ast.Name):
                pname = e.args[0].id
                if pname in fn.params() and "set" in pname.lower():
                    u = e.args[0]
            if u is not None:
                out.append((n, u))
    return out


REPORTING_CALLS = {"add_change", "add_change_from_position", "report_change", "report_change_for_line", "report_unfixed", "add_unfixed_findings", "add_dependency", "add_changeset"}


def _reports_in_iteration_order(node: ast.AST) -> bool:
    """does the body of this loop record change entries / findings (whose order in the report is then the iteration order)?"""
    if not isinstance(node, (ast.For, ast.AsyncFor)):
        return False
    for st in node.body:
        for c in ast.walk(st):
            if isinstance(c, ast.Call) and ((last_attr(c.func) or "") in REPORTING_CALLS or (last_attr(c.func) == "append" and isinstance(c.func, ast.Attribute) and last_attr(c.func.value) == "codemod_changes")):
                return True
    return False


def rule_no_unordered_iter(ctx, rep):
    rep.rule(
        "R-NO-UNORDERED-ITER",
        "iteration over a set or a raw file-system enumeration whose effect is order-sensitive must go through sorted(); "
        "order-insensitive uses are exempt, exemptions listed per function with reason",
        min_instances=8,
    )
    n_checked = 0
    for fn in ctx.prog.live_functions():
        for node, src, kind in unordered_iterations(ctx, fn):
            n_checked += 1
            st = unparse(src)
            from ..model import unparse_positional

            stp = unparse_positional(fn, src)  # parameters by position: the table does not depend on what they are called
            ex = next((why for (q, pre), why in UNORDERED_OK.items() if q == fn.qname and (st.startswith(pre) or stp.startswith(pre))), None)
            if ex is None and fn.qname.startswith(("codemodder.codemods.utils_mixin.", "codemodder.codemods.transformations.", "core_codemods.", "codemodder.utils.", "codemodder.codemods.utils.")) \
                    and not _reports_in_iteration_order(node):
                # sets of CST nodes / scopes inside transformers are identity-hashed: their order is the order of memory addresses -- not seed
                # dependent, but not reproducible either.  That is harmless while the loop only decides (membership, any / all, building
                # another set) and is judged by C08/C16 rules on the emitted code; it is *not* harmless when the loop body records change
                # entries, because the report then lists them in address order (see _reports_in_iteration_order)
                rep.instance("R-NO-UNORDERED-ITER", fn.qname, fn.loc(node), True, detail=f"{kind}:{st[:40]}", exempt="identity-hashed CST-node/scope sets inside a transformer")
                continue
            rep.check("R-NO-UNORDERED-ITER", fn.qname, fn.loc(node), ex is not None, f"{kind}:{st[:40]}",
                      f"order-sensitive {kind} over unordered `{st[:60]}`: the result depends on the hash seed / directory enumeration order",
                      exempt=ex)
    for fn in ctx.prog.live_functions():
        for node, src in partial_key_sorts(ctx, fn):
            n_checked += 1
            rep.check("R-NO-UNORDERED-ITER", fn.qname, fn.loc(node), False, f"partial-key-sort:{unparse(src)[:30]}",
                      f"`{unparse(node)[:60]}` sorts an unordered collection with a key that looks at one component only: elements with equal keys "
                      "keep their hash order (PYTHONHASHSEED leaks into the emitted code)")
    # sub-check that keeps the `list(set_of_dependencies)` exemption honest
    adds = _dependency_adds(ctx)
    for cq, deps in sorted(adds.items()):
        total = set()
        for k in ctx.prog.mro(cq):
            total |= adds.get(k, set())
        rep.check("R-NO-UNORDERED-ITER", cq, ctx.prog.classes[cq].loc(), len(total) <= 1, "one-dependency",
                  f"transformer can add {len(total)} distinct dependencies {sorted(total)}: list(set) order (hash-seed dependent) would decide the manifest order and the notice",
                  deps=sorted(total))
    if n_checked < 3:
        raise AnalysisError("unordered-iteration detector found almost nothing: model regression")


FS_PROBES = {"exists", "is_file", "is_dir", "is_symlink", "glob", "rglob", "iterdir", "stat", "lstat", "resolve", "samefile", "listdir", "scandir", "walk", "isfile", "isdir", "realpath"}


def rule_lookup_no_fs(ctx, rep):
    rep.rule(
        "R-LOOKUP-NO-FS",
        "which findings a file gets is decided from the result set and the file's own path alone: the lookup methods of ResultSet and its "
        "subclasses (results_for_rule_and_file, files_for_rule, ...) never probe the file system (exists / is_file / glob / resolve ...) -- a "
        "fallback that asks whether *another* path exists makes the outcome for one file depend on which sibling files are present",
        min_instances=3,
    )
    n = 0
    fam = {"codemodder.result.ResultSet"} | ctx.prog.all_subclasses("codemodder.result.ResultSet")
    for cq in sorted(fam):
        c = ctx.prog.classes.get(cq)
        if c is None:
            continue
        for m in c.methods.values():
            if m.absorbed or not (m.name.startswith(("results_for", "files_for", "all_results", "__getitem__")) or "for_rule" in m.name):
                continue
            n += 1
            probes = []
            for q in sorted(ctx.cg.reachable([m.qname])):
                f = ctx.prog.functions[q]
                if not (f.module.name.startswith("codemodder.result") or f.cls is not None and f.cls.qname in fam):
                    continue
                for x in walk_no_nested(f.node):
                    if isinstance(x, ast.Call) and isinstance(x.func, ast.Attribute) and x.func.attr in FS_PROBES:
                        probes.append((f, x))
            rep.check("R-LOOKUP-NO-FS", m.qname, probes[0][0].loc(probes[0][1]) if probes else m.loc(), not probes, "no-file-system-probe",
                      f"`{unparse(probes[0][1])[:60]}` in {probes[0][0].name}: the findings attached to a file depend on what else is on disk" if probes else "")
    if n < 3:
        raise AnalysisError(f"only {n} lookup methods found on the ResultSet family")


def check(ctx, rep):
    rep.explanation = (
        "Pool construction, merge source and worker reachability are decided on the call graph and def-use roots; every "
        "iteration in the program is classified by the orderedness of its source (set/rglob/... vs sorted/list) and the "
        "order-sensitivity of its consumer."
    )
    rule_max_workers(ctx, rep)
    rule_ordered_merge(ctx, rep)
    rule_worker_isolation(ctx, rep)
    rule_no_unordered_iter(ctx, rep)
    rule_lookup_no_fs(ctx, rep)
    from .c10 import rule_accumulate_all

    rule_accumulate_all(ctx, rep)
    from .c09 import rule_no_shared_mutable_default

    rule_no_shared_mutable_default(ctx, rep)
    from .c09 import rule_finding_owns_rule

    # run(D)|f == run({f})|f: a Rule object interned per rule id / title is shared by the findings of every file that reports the rule; the
    # report-time back-fill renames it for all of them, so what one file's unfixed findings say depends on which sibling was fixed
    rule_finding_owns_rule(ctx, rep)
    from .c18 import rule_scan_targets

    # run(D)|f == run({f})|f: a directory scan lets semgrep's own ignore rules (and so the size and layout of the whole project) decide whether f is scanned
    rule_scan_targets(ctx, rep)
    rep.not_covered += ["sibling-file independence of arbitrary codemods", "thread-safety of libcst / functools.cache internals"]
