"""C09 — a multi-codemod run equals running the same codemods one at a time, in order.

R-SEQUENTIAL         one loop over the codemods; per iteration apply -> process_dependencies -> log; no executor outlives _apply
R-STATE-KEYED        per-codemod containers are rebound in __init__ and only accessed through the codemod-id parameter
R-FRESH-FILECONTEXT  a new FileContext per (codemod, file); mutable fields use default_factory; never stored beyond the call
R-NO-CONTENT-CACHE   shared with C03
"""
from __future__ import annotations

import ast

from ..flow import FlowAnalysis, has_event
from ..sites import apply_fn, worker_fn
from ..model import AnalysisError, FuncInfo, call_name, last_attr, names_in, unparse, walk_no_nested

CTX = "codemodder.context.CodemodExecutionContext"
APPLY = "codemodder.codemods.base_codemod.BaseCodemod._apply"


def rule_sequential(ctx, rep):
    rep.rule(
        "R-SEQUENTIAL",
        "apply_codemods handles codemods in one loop; in each iteration codemod.apply precedes process_dependencies which precedes "
        "log_changes on every path; in _apply the pool lives in a `with` that ends before process_results, and is never stored",
        min_instances=5,
    )
    ac = ctx.prog.func("codemodder.codemodder.apply_codemods")
    loops = [n for n in walk_no_nested(ac.node) if isinstance(n, ast.For)]
    if len(loops) != 1:
        rep.check("R-SEQUENTIAL", ac.qname, ac.loc(), False, "one-loop", f"apply_codemods has {len(loops)} loops over codemods (expected exactly one)")
        return
    lp = loops[0]
    var = lp.target.id if isinstance(lp.target, ast.Name) else "codemod"
    order = {"apply": "EV:apply", "process_dependencies": "EV:deps", "log_changes": "EV:log"}

    def ev(call):
        la = last_attr(call.func)
        if la in order:
            return order[la]
        return None

    fa = FlowAnalysis(lp, ev, body=lp.body)
    calls = {last_attr(c.func): c for c in walk_no_nested(lp) if isinstance(c, ast.Call) and last_attr(c.func) in order}
    rep.check("R-SEQUENTIAL", ac.qname, ac.loc(lp), set(calls) == set(order), "per-codemod-steps",
              f"loop body lacks {sorted(set(order) - set(calls))}")
    if set(calls) == set(order):
        ok1 = has_event(fa.state_at(calls["process_dependencies"]), "EV:apply")
        ok2 = has_event(fa.state_at(calls["log_changes"]), "EV:deps")
        r_ac = ctx.resolver(ac)
        dep_args = " ".join(unparse(r_ac.expand(a)) for a in list(calls["process_dependencies"].args) + [k.value for k in calls["process_dependencies"].keywords])
        recv_ok = unparse(calls["apply"].func).startswith(var + ".") and var + ".id" in dep_args
        rep.check("R-SEQUENTIAL", ac.qname, ac.loc(calls["process_dependencies"]), ok1 and ok2 and recv_ok, "apply->deps->log",
                  "the dependency update / logging of a codemod does not follow its own apply() on every path (another codemod's state could be consumed)")
    threads = [n for n in walk_no_nested(ac.node) if isinstance(n, ast.Call) and (last_attr(n.func) in ("submit", "Thread", "start", "create_task", "ThreadPoolExecutor", "ProcessPoolExecutor"))]
    rep.check("R-SEQUENTIAL", ac.qname, ac.loc(threads[0]) if threads else ac.loc(), not threads, "no-concurrency-across-codemods",
              "apply_codemods starts concurrent work across codemods")
    ap = apply_fn(ctx)
    r = ctx.resolver(ap)
    pools = [n for n in walk_no_nested(ap.node) if isinstance(n, ast.Call) and (r.callee_qname(n) or "").endswith("PoolExecutor")]
    pm = ctx.parents(ap)
    for p in pools:
        par = pm.get(id(p))
        in_with = isinstance(par, ast.withitem)
        w = pm.get(id(par)) if in_with else None
        pr = [n for n in walk_no_nested(ap.node) if isinstance(n, ast.Call) and last_attr(n.func) == "process_results"]
        after = bool(pr) and isinstance(w, ast.With) and all(c.lineno > w.end_lineno for c in pr)
        rep.check("R-SEQUENTIAL", ap.qname, ap.loc(p), in_with and after, "pool-lifetime",
                  "the executor is not confined to a `with` block that completes before process_results (work of one codemod could overlap the next)")
    stored = [n for n in walk_no_nested(ap.node) if isinstance(n, ast.Assign) and any(isinstance(t, ast.Attribute) for t in n.targets) and any("executor" in unparse(x).lower() or "future" in unparse(x).lower() for x in [n.value])]
    rep.check("R-SEQUENTIAL", ap.qname, ap.loc(stored[0]) if stored else ap.loc(), not stored, "pool-not-stored", "_apply stores an executor/future on an object that outlives the call")


def rule_state_keyed(ctx, rep):
    rep.rule(
        "R-STATE-KEYED",
        "every dict-valued class-level default of CodemodExecutionContext is rebound per instance in __init__; every method that reads "
        "or writes a per-codemod container indexes it with its own codemod-id parameter (or <param>.id); callers pass the id of the "
        "codemod they are handling",
        min_instances=12,
    )
    c = ctx.prog.cls(CTX)
    init = c.methods["__init__"]
    init_assigned = {t.attr for n in walk_no_nested(init.node) if isinstance(n, (ast.Assign, ast.AnnAssign)) for t in (n.targets if isinstance(n, ast.Assign) else [n.target]) if isinstance(t, ast.Attribute) and isinstance(t.value, ast.Name) and t.value.id == "self"}
    containers = set()
    for name, val in c.attrs.items():
        if isinstance(val, (ast.Dict, ast.List, ast.Set)) or (isinstance(val, ast.Call) and call_name(val) in ("dict", "list", "set", "defaultdict")):
            containers.add(name)
            rep.check("R-STATE-KEYED", f"{CTX}.{name}", c.loc(val), name in init_assigned, "rebound-in-init",
                      f"class-level mutable default `{name}` is not rebound in __init__: all contexts of the process (and all runs in one process) share it")
    for n in walk_no_nested(init.node):
        if isinstance(n, (ast.Assign, ast.AnnAssign)):
            tg = n.targets[0] if isinstance(n, ast.Assign) else n.target
            if isinstance(tg, ast.Attribute) and tg.attr.endswith("_by_codemod"):
                containers.add(tg.attr)
    containers |= {"dependencies"}
    for name, m in c.methods.items():
        if name == "__init__":
            continue
        params = set(m.params()) - {"self"}
        for n in walk_no_nested(m.node):
            key = None
            cont = None
            if isinstance(n, ast.Subscript) and isinstance(n.value, ast.Attribute) and n.value.attr in containers and isinstance(n.value.value, ast.Name) and n.value.value.id == "self":
                key, cont = n.slice, n.value.attr
            elif isinstance(n, ast.Call) and isinstance(n.func, ast.Attribute) and n.func.attr in ("get", "setdefault", "pop") and isinstance(n.func.value, ast.Attribute) and n.func.value.attr in containers and n.args:
                key, cont = n.args[0], n.func.value.attr
            if key is None:
                continue
            kt = unparse(key)
            ok = (isinstance(key, ast.Name) and key.id in params) or (isinstance(key, ast.Attribute) and key.attr == "id" and isinstance(key.value, ast.Name) and key.value.id in params)
            rep.check("R-STATE-KEYED", m.qname, m.loc(n), ok, f"{cont}[{kt}]",
                      f"per-codemod container `{cont}` is accessed with key `{kt}`, which is not this method's codemod-id parameter")
    # callers pass the id of the codemod at hand
    wanted = {
        "process_results": (apply_fn(ctx).qname, "self.id"),
        "process_dependencies": ("codemodder.codemodder.apply_codemods", None),
        "log_changes": ("codemodder.codemodder.apply_codemods", None),
    }
    for meth, (caller_q, want) in wanted.items():
        caller = ctx.prog.func(caller_q)
        calls = [n for n in walk_no_nested(caller.node) if isinstance(n, ast.Call) and last_attr(n.func) == meth]
        r_c = ctx.resolver(caller)

        def first_arg(c2):
            a = c2.args[0] if c2.args else (c2.keywords[0].value if c2.keywords else None)
            return unparse(r_c.expand(a)) if a is not None else ""

        ok = bool(calls) and all((first_arg(c2) == want if want else first_arg(c2).endswith(".id")) for c2 in calls)
        rep.check("R-STATE-KEYED", caller.qname, caller.loc(calls[0]) if calls else caller.loc(), ok, f"{meth}(id)",
                  f"{meth} is not called with the id of the codemod being handled")


def rule_runwide_state(ctx, rep):
    rep.rule(
        "R-RUNWIDE-STATE",
        "every mutable container the execution context creates for the run (attribute initialised to an empty dict/list/set in "
        "__init__) is partitioned per codemod: wherever it is read or written, in any module, the key is a codemod id; a run-wide "
        "container keyed by anything else (a path, a rule) is a channel through which one codemod's work reaches the next",
        min_instances=10,
    )
    c = ctx.prog.cls(CTX)
    init = c.methods["__init__"]
    containers = {}
    for n in walk_no_nested(init.node):
        if isinstance(n, (ast.Assign, ast.AnnAssign)) and n.value is not None:
            tg = n.targets[0] if isinstance(n, ast.Assign) else n.target
            v = n.value
            empty = (isinstance(v, (ast.Dict, ast.List, ast.Set)) and not getattr(v, "keys", getattr(v, "elts", None))) or (
                isinstance(v, ast.Call) and call_name(v) in ("dict", "list", "set", "defaultdict", "OrderedDict")
            )
            if isinstance(tg, ast.Attribute) and isinstance(tg.value, ast.Name) and tg.value.id == "self" and empty:
                containers[tg.attr] = n
    if len(containers) < 4:
        raise AnalysisError(f"only {len(containers)} run-wide containers found in CodemodExecutionContext.__init__")

    def codemod_key(fn: FuncInfo, k: ast.expr) -> bool:
        if isinstance(k, ast.Name):
            return "codemod" in k.id.lower() and k.id in fn.params()
        if isinstance(k, ast.Attribute) and k.attr == "id":
            base = k.value
            return isinstance(base, ast.Name) and ("codemod" in base.id.lower() or base.id == "self")
        return False

    # the execution of one codemod: everything reachable from the body of apply_codemods' loop
    ac = ctx.prog.func("codemodder.codemodder.apply_codemods")
    rac = ctx.resolver(ac)
    roots = set()
    for lp in walk_no_nested(ac.node):
        if isinstance(lp, ast.For):
            for c_ in ast.walk(lp):
                if isinstance(c_, ast.Call):
                    roots |= {t.qname for t in rac.resolve_call(c_) if isinstance(t, FuncInfo)}
    if not roots:
        raise AnalysisError("apply_codemods: no per-codemod calls found in its loop")
    region = ctx.cg.reachable(roots)

    def region_roots_first(q):
        for r0 in sorted(roots):
            if q in ctx.cg.reachable([r0]):
                return r0
        return sorted(roots)[0]

    # objects that live as long as the run: the context's collaborators (types of what __init__ stores)
    rinit = ctx.resolver(init)
    collaborators = {}
    for n in walk_no_nested(init.node):
        if isinstance(n, (ast.Assign, ast.AnnAssign)) and n.value is not None:
            tg = n.targets[0] if isinstance(n, ast.Assign) else n.target
            if isinstance(tg, ast.Attribute) and isinstance(tg.value, ast.Name) and tg.value.id == "self":
                t = rinit.type_of(n.value)
                if t in ctx.prog.classes and t != CTX:
                    collaborators[t] = tg.attr
    MEASUREMENT_ONLY = {"codemodder.utils.timer.Timer": "phase timers: read only by the final log report, never by codemod logic"}
    for cq, attr in sorted(collaborators.items()):
        if cq in MEASUREMENT_ONLY:
            rep.instance("R-RUNWIDE-STATE", cq, ctx.prog.classes[cq].loc(), True, detail=f"collaborator:{attr}", exempt=MEASUREMENT_ONLY[cq])
            continue
        for m in ctx.prog.classes[cq].methods.values():
            if m.name == "__init__" or m.qname not in region:
                continue
            for a in walk_no_nested(m.node):
                if not isinstance(a, (ast.Assign, ast.AugAssign, ast.AnnAssign)):
                    continue
                tgs = a.targets if isinstance(a, ast.Assign) else [a.target]
                for t in tgs:
                    base, key = t, None
                    if isinstance(base, ast.Subscript):
                        base, key = base.value, base.slice
                    if isinstance(base, ast.Attribute) and isinstance(base.value, ast.Name) and base.value.id == "self":
                        ok = key is not None and codemod_key(m, key)
                        rep.check("R-RUNWIDE-STATE", m.qname, m.loc(a), ok, f"collaborator:{attr}.{base.attr}",
                                  f"`{unparse(a)[:60]}` updates `{cq.split('.')[-1]}` (held by the context for the whole run as `{attr}`) while a codemod executes, "
                                  "not keyed by the codemod: the next codemod's outcome depends on what this one did")
        rep.instance("R-RUNWIDE-STATE", cq, ctx.prog.classes[cq].loc(), True, detail=f"collaborator:{attr}:scanned")

    for fn in ctx.prog.live_functions():
        if fn.qname == init.qname:
            continue
        r = ctx.resolver(fn)
        for n in walk_no_nested(fn.node):
            if not (isinstance(n, ast.Attribute) and n.attr in containers):
                continue
            recv = n.value
            is_ctx = (isinstance(recv, ast.Name) and recv.id == "self" and fn.cls is not None and fn.cls.qname == CTX) or r.type_of(recv) == CTX or (
                isinstance(recv, ast.Name) and recv.id in ("context", "execution_context")
            )
            if not is_ctx:
                continue
            par = ctx.parents(fn).get(id(n))
            key = None
            how = None
            if isinstance(par, ast.Subscript) and par.value is n:
                key, how = par.slice, "subscript"
            elif isinstance(par, ast.Attribute) and par.value is n:
                gp = ctx.parents(fn).get(id(par))
                if isinstance(gp, ast.Call) and gp.func is par:
                    if par.attr in ("get", "setdefault", "pop") and gp.args:
                        key, how = gp.args[0], par.attr
                    elif par.attr in ("values", "keys", "items"):
                        how = "aggregate-read"  # reporting over all codemods (log_report): reads only
                    else:
                        how = par.attr
            elif isinstance(par, (ast.Assign, ast.AnnAssign)) and (n in getattr(par, "targets", []) or getattr(par, "target", None) is n):
                how = "rebind"
            elif isinstance(par, ast.Compare) and len(par.ops) == 1 and isinstance(par.ops[0], (ast.In, ast.NotIn)) and par.comparators[0] is n:
                key, how = par.left, "membership"  # `<id> in container`: a keyed look-up like .get(<id>)
            else:
                how = "other:" + type(par).__name__
            if how == "aggregate-read":
                # reading across all codemods is reporting; inside the execution of a codemod it is a channel from the earlier ones
                in_region = fn.qname in region
                rep.check("R-RUNWIDE-STATE", fn.qname, fn.loc(n), not in_region, f"{n.attr}:{how}",
                          f"`{fn.name}` reads run-wide container `{n.attr}` across all codemods and is reachable from the execution of a single codemod "
                          f"({' -> '.join(ctx.cg.path(region_roots_first(fn.qname), fn.qname)[-3:]) if in_region else ''}): what earlier codemods recorded steers a later one")
                continue
            ok = key is not None and codemod_key(fn, key)
            rep.check("R-RUNWIDE-STATE", fn.qname, fn.loc(n), ok, f"{n.attr}:{how}:{unparse(key)[:20] if key is not None else ''}",
                      f"run-wide container `{n.attr}` is accessed via {how} with key `{unparse(key) if key is not None else '-'}`, not a codemod id: "
                      "state that outlives a codemod and is not partitioned per codemod lets an earlier codemod alter a later one's outcome")


def rule_detector_fresh(ctx, rep):
    rep.rule(
        "R-DETECTOR-FRESH",
        "a codemod's own detector looks at the tree as it is when the codemod starts: SemgrepRuleDetector.apply returns the result of a "
        "semgrep run on every path; the run-wide prefilter scan (taken before any rewrite) is consulted only for rule ids and file "
        "names, never for findings/positions",
        min_instances=3,
    )
    fn = ctx.prog.func("codemodder.codemods.semgrep.SemgrepRuleDetector.apply")
    r = ctx.resolver(fn)
    rets = [n for n in walk_no_nested(fn.node) if isinstance(n, ast.Return) and n.value is not None]
    ok = bool(rets)
    for rt in rets:
        v = r.expand(rt.value)
        is_run = isinstance(v, ast.Call) and any(getattr(t, "qname", None) == "codemodder.semgrep.run" for t in r.resolve_call(v))
        ok = ok and is_run
    rep.check("R-DETECTOR-FRESH", fn.qname, fn.loc(), ok, "returns-fresh-scan",
              "some path of SemgrepRuleDetector.apply returns something other than a fresh semgrep run (stale findings whose positions pre-date earlier rewrites)")
    allowed = {"files_for_rule", "all_rule_ids"}
    n = 0
    for f in ctx.prog.live_functions():
        for node in walk_no_nested(f.node):
            if isinstance(node, ast.Attribute) and node.attr == "semgrep_prefilter_results" and isinstance(node.ctx, ast.Load):
                n += 1
                par = ctx.parents(f).get(id(node))
                use = "truthiness"
                ok2 = True
                if isinstance(par, ast.Attribute) and par.value is node:
                    use = par.attr
                    ok2 = par.attr in allowed
                elif isinstance(par, (ast.Subscript, ast.Return, ast.Call)) and not (isinstance(par, ast.Call) and par.func is node):
                    use = type(par).__name__
                    ok2 = isinstance(par, ast.Call) and unparse(par.func).startswith(("bool", "len")) or False
                rep.check("R-DETECTOR-FRESH", f.qname, f.loc(node), ok2, f"prefilter:{use}",
                          f"the pre-run semgrep prefilter result is used through `{use}`: only rule ids / file names may be taken from it")
    if n < 3:
        raise AnalysisError("uses of semgrep_prefilter_results not found")


def rule_fresh_filecontext(ctx, rep):
    rep.rule(
        "R-FRESH-FILECONTEXT",
        "_process_file constructs a new FileContext on every call and returns it; no mutable FileContext field has a shared default; "
        "no FileContext is stored on self/context/module",
        min_instances=8,
    )
    pf = worker_fn(ctx)
    r = ctx.resolver(pf)
    fcq = "codemodder.file_context.FileContext"
    ctor = [n for n in walk_no_nested(pf.node) if isinstance(n, ast.Call) and r.callee_qname(n) == fcq]
    rets = [n.value for n in walk_no_nested(pf.node) if isinstance(n, ast.Return) and n.value is not None]
    ok = len(ctor) == 1 and bool(rets) and all(isinstance(r.expand(v), ast.Call) and r.callee_qname(r.expand(v)) == fcq for v in rets)
    rep.check("R-FRESH-FILECONTEXT", pf.qname, pf.loc(), ok, "constructs-and-returns", "_process_file does not construct exactly one FileContext and return it on every path")
    stored = [n for n in walk_no_nested(pf.node) if isinstance(n, ast.Assign) and any(isinstance(t, (ast.Attribute, ast.Subscript)) for t in n.targets) and "file_context" in names_in(n.value)]
    rep.check("R-FRESH-FILECONTEXT", pf.qname, pf.loc(stored[0]) if stored else pf.loc(), not stored, "not-stored", "_process_file stores the FileContext on a longer-lived object")
    fc = ctx.prog.cls(fcq)
    for name, ann in fc.ann.items():
        val = fc.attrs.get(name)
        if val is None:
            rep.instance("R-FRESH-FILECONTEXT", f"{fcq}.{name}", fc.loc(ann), True, detail="required field")
            continue
        factory = isinstance(val, ast.Call) and last_attr(val.func) == "field" and any(k.arg == "default_factory" for k in val.keywords)
        immutable = isinstance(val, ast.Constant)
        rep.check("R-FRESH-FILECONTEXT", f"{fcq}.{name}", fc.loc(val), factory or immutable, "default",
                  f"FileContext.{name} has a shared mutable default `{unparse(val)}`")
    deco = [unparse(d) for d in fc.node.decorator_list]
    rep.check("R-FRESH-FILECONTEXT", fcq, fc.loc(), any("dataclass" in d for d in deco), "dataclass", "FileContext is no longer a dataclass (field defaults would be class attributes shared by all instances)")


def rule_no_shared_mutable_default(ctx, rep, rule_id="R-NO-SHARED-MUTABLE-DEFAULT", module_prefixes=("codemodder.", "core_codemods.")):
    """Shared by C09 / C11 / C19: per-file / per-codemod objects must not accumulate into a container that is a *class* attribute."""
    rep.rule(
        rule_id,
        "no class declares a mutable container as a class-level default (`x: list = []`, `{}`, `set()`) that its methods then fill "
        "through `self.x` (append / extend / add / update / item assignment) without every constructor path rebinding `self.x` first: "
        "such a container is shared by all instances, so what one file or codemod recorded shows up in the next one's result",
        min_instances=1,
    )
    n = 0
    for c in ctx.prog.classes.values():
        if not c.module.name.startswith(module_prefixes):
            continue
        if any("dataclass" in unparse(d) for d in c.node.decorator_list):
            continue  # dataclass defaults are per-instance or rejected by dataclasses itself when mutable
        if any(b.split(".")[-1] in ("BaseModel",) for b in ctx.prog.external_bases(c.qname)) or any(m.endswith(("BaseModel",)) for m in ctx.prog.mro(c.qname)):
            continue  # pydantic copies defaults per instance
        for st in c.node.body:
            tgt = val = None
            if isinstance(st, ast.AnnAssign) and st.value is not None and isinstance(st.target, ast.Name):
                tgt, val = st.target.id, st.value
            elif isinstance(st, ast.Assign) and len(st.targets) == 1 and isinstance(st.targets[0], ast.Name):
                tgt, val = st.targets[0].id, st.value
            if tgt is None:
                continue
            mutable = isinstance(val, (ast.List, ast.Dict, ast.Set)) or (isinstance(val, ast.Call) and call_name(val) in ("list", "dict", "set", "defaultdict", "OrderedDict", "deque"))
            if not mutable:
                continue
            # filled through self.<tgt> anywhere in the hierarchy below?
            fillers = []
            rebinding_inits = []
            for cq in [c.qname] + sorted(ctx.prog.all_subclasses(c.qname)):
                for m in ctx.prog.classes[cq].methods.values():
                    for x in walk_no_nested(m.node):
                        if isinstance(x, ast.Call) and isinstance(x.func, ast.Attribute) and x.func.attr in ("append", "extend", "add", "update", "insert", "setdefault", "appendleft") \
                                and isinstance(x.func.value, ast.Attribute) and x.func.value.attr == tgt and isinstance(x.func.value.value, ast.Name) and x.func.value.value.id == "self":
                            fillers.append((m, x))
                        if isinstance(x, (ast.Assign, ast.AugAssign)):
                            for t in (x.targets if isinstance(x, ast.Assign) else [x.target]):
                                if isinstance(t, ast.Subscript) and isinstance(t.value, ast.Attribute) and t.value.attr == tgt and isinstance(t.value.value, ast.Name) and t.value.value.id == "self":
                                    fillers.append((m, x))
                                if isinstance(t, ast.Attribute) and t.attr == tgt and isinstance(t.value, ast.Name) and t.value.id == "self" and m.name == "__init__" and isinstance(x, ast.Assign):
                                    rebinding_inits.append(m)
                        if isinstance(x, ast.AnnAssign) and isinstance(x.target, ast.Attribute) and x.target.attr == tgt and isinstance(x.target.value, ast.Name) and x.target.value.id == "self" and m.name == "__init__" and x.value is not None:
                            rebinding_inits.append(m)
            if not fillers:
                continue
            n += 1
            init = ctx.prog.lookup_method(c.qname, "__init__")
            ok = init is not None and any(r_.qname == init.qname for r_ in rebinding_inits)
            rep.check(rule_id, c.qname, c.loc(st), ok, f"{tgt}",
                      f"`{c.name}.{tgt}` is a class-level {type(val).__name__.lower()} filled through `self.{tgt}` in {fillers[0][0].name}() and not rebound in __init__: "
                      "all instances share it (entries of an earlier file / codemod appear in later results)")
    if n == 0:
        rep.instance(rule_id, "codebase", "src/", True, detail="no class-level mutable container is filled through self")


MUTATORS = {"append", "extend", "update", "add", "setdefault", "pop", "popitem", "clear", "remove", "discard", "insert", "sort", "reverse", "__setitem__", "__delitem__"}


def _self_attr(e: ast.AST, selfname: str = "self"):
    """`self.a` (possibly under subscripts / further attribute reads / method calls such as self.a.values()) -> 'a'"""
    while True:
        if isinstance(e, ast.Attribute) and isinstance(e.value, ast.Name) and e.value.id == selfname:
            return e.attr
        if isinstance(e, (ast.Attribute, ast.Subscript)):
            e = e.value
        elif isinstance(e, ast.Call):
            e = e.func
        else:
            return None


def self_attr_mutations(fn: FuncInfo) -> dict[str, ast.AST]:
    """attributes of `self` that the method rebinds or mutates in place (stores, deletes, mutating container methods)"""
    out: dict[str, ast.AST] = {}
    pp = fn.positional_params()
    if not pp:
        return out
    s = pp[0]
    for n in walk_no_nested(fn.node):
        tgts = []
        if isinstance(n, ast.Assign):
            tgts = n.targets
        elif isinstance(n, (ast.AugAssign, ast.AnnAssign)) and getattr(n, "value", None) is not None:
            tgts = [n.target]
        elif isinstance(n, ast.Delete):
            tgts = n.targets
        for t in tgts:
            for leaf in (t.elts if isinstance(t, (ast.Tuple, ast.List)) else [t]):
                if isinstance(leaf, (ast.Attribute, ast.Subscript)):
                    a = _self_attr(leaf, s)
                    if a:
                        out.setdefault(a, n)
        if isinstance(n, ast.Call) and isinstance(n.func, ast.Attribute) and n.func.attr in MUTATORS:
            a = _self_attr(n.func.value, s)
            if a:
                out.setdefault(a, n)
    return out


def rule_memo_coherent(ctx, rep, rule_id="R-MEMO-COHERENT", only_prefixes=None):
    """Shared by C09 / C14 / C17: a memoised view of an object's state must not outlive a change of that state."""
    from ..prov import is_cached

    rep.rule(
        rule_id,
        "a memoised method or property (functools.cache / lru_cache / cached_property) of a class reads only attributes of `self` that no "
        "method of the class hierarchy other than the constructor rebinds or mutates in place: otherwise whoever reads the memo after "
        "such a mutation (a registry filled collection by collection, a package store a writer registers new requirements in, a context "
        "updated codemod by codemod) acts on a stale view",
        min_instances=8,
    )
    n = 0
    for fn in ctx.prog.live_functions():
        if fn.cls is None or not is_cached(fn):
            continue
        if only_prefixes and not fn.qname.startswith(tuple(only_prefixes)):
            continue
        decos = fn.decorators()
        if any(d.split("(")[0].split(".")[-1] in ("classmethod", "staticmethod") for d in decos):
            continue  # keyed by explicit arguments only (result-file loaders): inputs of the run, judged by R-NO-CONTENT-CACHE
        pp = fn.positional_params()
        if not pp:
            continue
        s = pp[0]
        # attributes read by the memoised body, following plain (un-memoised) self-method / property reads two levels deep
        reads: dict[str, str] = {}
        seen: set[str] = set()

        def collect(f: FuncInfo, via: str, depth: int):
            if f.qname in seen:
                return
            seen.add(f.qname)
            fp = f.positional_params()
            if not fp:
                return
            for x in walk_no_nested(f.node):
                if isinstance(x, ast.Attribute) and isinstance(x.value, ast.Name) and x.value.id == fp[0] and isinstance(x.ctx, ast.Load):
                    m = ctx.prog.lookup_method(fn.cls.qname, x.attr)
                    if m is not None:
                        if depth > 0 and not is_cached(m):
                            collect(m, via + "->" + x.attr, depth - 1)
                    else:
                        reads.setdefault(x.attr, via)

        collect(fn, fn.name, 2)
        # who mutates: every method of the class, its bases and its subclasses except constructors and the memoised method itself
        family = {c.qname for c in ctx.prog.mro_classes(fn.cls.qname)} | ctx.prog.all_subclasses(fn.cls.qname) | {fn.cls.qname}
        stale = []
        for cq in sorted(family):
            try:
                c = ctx.prog.cls(cq)
            except AnalysisError:
                continue
            for mname, m in c.methods.items():
                if mname in ("__init__", "__post_init__", "__new__") or m.qname == fn.qname or m.absorbed:
                    continue
                for attr, node in self_attr_mutations(m).items():
                    if attr in reads:
                        stale.append((attr, m, node))
        n += 1
        rep.check(rule_id, fn.qname, fn.loc(), not stale, "reads-only-frozen-state",
                  (f"memoised `{fn.name}` reads self.{stale[0][0]} (via {reads[stale[0][0]]}), which `{stale[0][1].name}` changes after construction "
                   f"(`{unparse(stale[0][2])[:60]}`): later readers get the value computed before that change") if stale else "",
                  reads=sorted(reads))
    if n < 8 and not only_prefixes:
        raise AnalysisError(f"only {n} memoised methods found (expected the context's path listings, the repo manager's parsers/stores, "
                            "results_for_node, the codemods' docs/description, ...)")


def rule_finding_owns_rule(ctx, rep, rule_id="R-FINDING-OWNS-RULE"):
    """Shared by C09 / C12 / C15."""
    rep.rule(
        rule_id,
        "the report-time back-fill of rule names (update_finding_metadata) assigns `finding.rule.name / .url` in place, per codemod; as long as "
        "it does, every Finding the result readers build owns a Rule object of its own (`rule=Rule(...)` built at the construction, or the rule "
        "of the finding being copied) -- a Rule interned per rule id / message and shared between findings is renamed for all of them at once, so "
        "two codemods of one run that are driven by the same tool rule under different names report each other's name",
        min_instances=4,
    )
    mutators = []
    for fn in ctx.prog.live_functions():
        if not fn.module.name.startswith(("codemodder.", "core_codemods.")):
            continue
        for a in walk_no_nested(fn.node):
            if isinstance(a, (ast.Assign, ast.AugAssign)):
                flat = []
                for t in (a.targets if isinstance(a, ast.Assign) else [a.target]):
                    # `finding.rule.name, finding.rule.url = ...` assigns both attributes: tuple targets are flattened
                    flat.extend(x for x in ast.walk(t) if isinstance(x, ast.Attribute) and isinstance(x.ctx, ast.Store)) if isinstance(t, (ast.Tuple, ast.List)) else flat.append(t)
                for t in flat:
                    if isinstance(t, ast.Attribute) and isinstance(t.value, ast.Attribute) and t.value.attr == "rule":
                        mutators.append((fn, a))
                        break
            if isinstance(a, ast.Call) and call_name(a) == "setattr" and a.args and isinstance(a.args[0], ast.Attribute) and a.args[0].attr == "rule":
                mutators.append((fn, a))
    n = 0
    for fn in ctx.prog.live_functions():
        if not fn.module.name.startswith(("codemodder.", "core_codemods.")):
            continue
        r = None
        for c in walk_no_nested(fn.node):
            if not (isinstance(c, ast.Call) and (last_attr(c.func) in ("Finding", "UnfixedFinding"))):
                continue
            rv = next((k.value for k in c.keywords if k.arg == "rule"), None)
            if rv is None:
                continue
            r = r or ctx.resolver(fn)
            n += 1
            v = r.expand(rv) if isinstance(rv, ast.Name) else rv
            fresh = isinstance(v, ast.Call) and last_attr(v.func) == "Rule"
            copied = isinstance(v, ast.Attribute) and v.attr == "rule" and isinstance(v.value, ast.Name)
            if fresh and isinstance(rv, ast.Name):
                # bound once to a constructor call -- but where?  a binding outside the loop / comprehension that builds the findings is shared
                pm = ctx.parents(fn)
                def loops_of(node):
                    out, cur = [], pm.get(id(node))
                    while cur is not None and cur is not fn.node:
                        if isinstance(cur, (ast.For, ast.While, ast.ListComp, ast.GeneratorExp, ast.SetComp, ast.DictComp)):
                            out.append(id(cur))
                        cur = pm.get(id(cur))
                    return out
                bind = next((a for a in walk_no_nested(fn.node) if isinstance(a, ast.Assign) and any(isinstance(t, ast.Name) and t.id == rv.id for t in a.targets)), None)
                if bind is not None and loops_of(c) != loops_of(bind):
                    fresh = False
            ok = fresh or copied or not mutators
            rep.check(rule_id, fn.qname, fn.loc(c), ok, "rule-object-per-finding",
                      f"`rule={unparse(rv)[:40]}` is not a Rule built for this finding, while {mutators[0][0].qname if mutators else ''} renames `finding.rule` in place: "
                      "the findings that share the object are renamed together")
    if n < 4:
        raise AnalysisError(f"only {n} Finding(rule=...) constructions found in the result readers")


def rule_fresh_visitor(ctx, rep, rule_id="R-FRESH-VISITOR"):
    """Shared by C06 / C09 / C18."""
    rep.rule(
        rule_id,
        "a libcst visitor that gathers into its own attributes while it walks (comments seen, names found, nodes to replace) is built for the "
        "one walk it is used for: in every `<node>.visit(V)`, V is a constructor call, a local of the calling function bound to one, or the "
        "visitor itself (`self`).  A gathering visitor kept in an attribute and walked again carries what it gathered for the previous node "
        "(a `# noqa` comment of an earlier call then disables every later call of the file)",
        min_instances=15,
    )
    n = 0
    for fn in ctx.prog.live_functions():
        if not fn.module.name.startswith(("core_codemods.", "codemodder.")) or fn.module.name.startswith("codemodder.codemods.test"):
            continue
        r = None
        for c in walk_no_nested(fn.node):
            if not (isinstance(c, ast.Call) and isinstance(c.func, ast.Attribute) and c.func.attr == "visit" and len(c.args) == 1 and not c.keywords):
                continue
            v = c.args[0]
            n += 1
            r = r or ctx.resolver(fn)
            ok = True
            why = ""
            if isinstance(v, ast.Call) or (isinstance(v, ast.Name) and v.id in ("self",)):
                ok = True
            elif isinstance(v, ast.Name):
                src = r.expand(v)
                ok = isinstance(src, ast.Call) or v.id in fn.params()  # a parameter: judged where the caller builds it
            elif isinstance(v, ast.Attribute):
                # kept in an attribute: fine only for a visitor that gathers nothing
                cls_q = r.type_of(v)
                gathers = True
                if cls_q in ctx.prog.classes:
                    gathers = False
                    for cq in [cls_q] + [m for m in ctx.prog.mro(cls_q) if m in ctx.prog.classes]:
                        for m in ctx.prog.classes[cq].methods.values():
                            if m.name.startswith(("visit_", "leave_", "on_visit", "on_leave")) and self_attr_mutations(m):
                                gathers = True
                ok = not gathers
                why = f"`{unparse(c)[:60]}` walks with a visitor kept in `{unparse(v)}`: what it gathered on an earlier walk is still there"
            rep.check(rule_id, fn.qname, fn.loc(c), ok, f"visit({unparse(v)[:30]})", why)
    if n < 15:
        raise AnalysisError(f"only {n} visitor walks found")


def check(ctx, rep):
    rep.explanation = (
        "Cross-talk between codemods of one run can only travel through shared state: the execution context's containers, objects "
        "that outlive a codemod's apply, and caches. The per-codemod loop, the context's keyed accesses, the pool lifetime and the "
        "FileContext construction are decided structurally."
    )
    rule_sequential(ctx, rep)
    rule_state_keyed(ctx, rep)
    rule_runwide_state(ctx, rep)
    rule_detector_fresh(ctx, rep)
    rule_fresh_filecontext(ctx, rep)
    from .c03 import rule_no_content_cache

    rule_no_content_cache(ctx, rep)
    from .c10 import rule_accumulate_all

    rule_accumulate_all(ctx, rep)
    from .c17 import rule_exec_order

    rule_exec_order(ctx, rep)
    rule_no_shared_mutable_default(ctx, rep)
    from .c14 import rule_store_coherent

    # the package stores are parsed once per run and shared by every codemod: a stale view of them is cross-talk between codemods
    rule_store_coherent(ctx, rep)
    rule_memo_coherent(ctx, rep)
    rule_finding_owns_rule(ctx, rep)
    rule_fresh_visitor(ctx, rep)
    rep.not_covered += [
        "semgrep_prefilter_results is computed once before any rewrite and gates each later detector run: whether one codemod's "
        "rewrite can enable another's rule needs semgrep semantics (declined; no enabling pair could be constructed)",
        "memoised result-file loaders (functools.cache keyed by file names): result files are inputs, not rewritten by the run",
    ]
