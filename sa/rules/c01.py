"""C01 — every file codemodder rewrites is still syntactically valid Python (three structural necessary conditions).

libcst re-validates anything that goes through parse_expression/parse_statement and node invariants on construction, but
not the *text of leaf tokens* nor the *types of children*. Those gaps are visible in the source:

R-STRLIT      hand-built string-literal tokens: foreign text wrapped in a fixed quote needs a guard excluding the quote character
R-COMMA-TAIL  a filtered import-alias list resets the trailing comma of its last element
R-NODETYPE    the operator slot of a rebuilt ComparisonTarget receives an operator node
R-TEMPLATE-PARSES every constant code template handed to parse_expression / parse_statement parses (holes filled with a name)
"""
from __future__ import annotations

import ast

from ..flow import fact_exprs
from ..model import AnalysisError, FuncInfo, call_name, dotted_name, last_attr, names_in, unparse, walk_no_nested
from ..templates import HOLE, emits_in, eval_templates

QUOTES = ("'", '"')
# sites where the interpolated text cannot contain the fixed delimiter, by construction (reason confirmed by reading)
# construction sites where the interpolated text cannot contain the fixed quote; keyed by the *owner* (class or module) of the
# site, not by the function, so that extracting / renaming a helper inside the owner does not lapse the entry
STRLIT_SAFE = {
    ("core_codemods.sql_parameterization.SQLQueryParameterizationTransformer", "'"):
        "the pieces are raw values taken between SQL quote delimiters (') the code split on: they cannot contain '",
    ("codemodder.dependency_management.setup_py_writer", '"'):
        "requirement strings come from the Dependency constants of codemodder/dependency.py (checked below: none contains a quote)",
}


def _strlit_safe(fn, q):
    owners = [fn.cls.qname] if fn.cls is not None else []
    owners.append(fn.module.name)
    for o in owners:
        r = STRLIT_SAFE.get((o, q))
        if r:
            return r
    return None


def _literal_sites(ctx):
    """(fn, call, value expr) for SimpleString / FormattedStringText constructions and .with_changes(value=..) on them."""
    out = []
    for fn in ctx.prog.live_functions():
        if not fn.module.name.startswith(("core_codemods.", "codemodder.codemods", "codemodder.utils", "codemodder.dependency_management")):
            continue
        if fn.module.name.startswith("core_codemods.refactor"):
            continue
        for c in walk_no_nested(fn.node):
            if not isinstance(c, ast.Call):
                continue
            f = unparse(c.func)
            if f in ("cst.SimpleString", "SimpleString", "cst.FormattedStringText", "FormattedStringText"):
                v = c.args[0] if c.args else next((k.value for k in c.keywords if k.arg == "value"), None)
                if v is not None:
                    out.append((fn, c, v, f.split(".")[-1]))
    return out


def _fixed_delims(template: str) -> str | None:
    """If the template starts (after an optional constant prefix) and ends with the same constant quote: that quote."""
    t = template
    i = 0
    while i < len(t) and t[i] in "rRbBuUfF":
        i += 1
    if i < len(t) and t[i] in QUOTES and t.endswith(t[i]) and len(t) > i + 1:
        return t[i]
    return None


def rule_strlit(ctx, rep):
    rep.rule(
        "R-STRLIT",
        "every hand-built string-literal token (cst.SimpleString(value=E) / FormattedStringText(value=E)) is constant, or re-uses the "
        "prefix/quote of the literal whose raw text it contains, or — when foreign text is wrapped in a fixed quote — is dominated by "
        "a guard excluding that quote character (listed construction-site facts otherwise)",
        min_instances=10,
    )
    sites = _literal_sites(ctx)
    if len(sites) < 10:
        raise AnalysisError(f"only {len(sites)} string-literal construction sites found (13 confirmed by hand)")
    for fn, c, v, kind in sites:
        tmpls = eval_templates(ctx, fn, v)
        where = fn.loc(c)
        if all(HOLE not in t for t in tmpls):
            rep.instance("R-STRLIT", fn.qname, where, True, detail=f"constant:{tmpls[0][:20]}", templates=tmpls[:3])
            continue
        # same-literal construction: node.prefix + node.quote + <raw> + node.quote
        txt = unparse(ctx.resolver(fn).expand(v))
        if ".quote" in txt and txt.count(".quote") >= 2:
            rep.instance("R-STRLIT", fn.qname, where, True, detail="same-literal-quote", expr=txt[:80])
            continue
        if kind == "FormattedStringText":
            # text inside an existing f-string: joined from sibling FormattedStringText values of the same literal
            rep.instance("R-STRLIT", fn.qname, where, True, detail="f-string-text-of-same-literal", expr=txt[:80])
            continue
        if ".join(" in txt:
            # raw text of several literals joined into one token: whatever quote is chosen (fixed, or that of one of the
            # literals) some other literal's text may contain it
            must = ctx.flow(fn).must_at(c)
            guarded = any(
                isinstance(cmp_, ast.Compare) and isinstance(cmp_.ops[0], (ast.In, ast.NotIn)) and isinstance(cmp_.left, ast.Constant) and cmp_.left.value in QUOTES
                for pol, e in fact_exprs(must) for cmp_ in ast.walk(e)
            )
            rep.check("R-STRLIT", fn.qname, where, guarded, "multi-literal-join",
                      f"string token `{txt[:60]}` pastes the raw text of several literals into one literal without excluding/escaping its "
                      "delimiter: a piece containing that quote yields a malformed token (e.g. logging.info('say \"hi\" ' + name) -> "
                      "logging.info(\"say \"hi\" %s\", name); 'User ' + name + \" can't log in\" -> 'User %s can't log in')",
                      expr=txt[:80])
            continue
        for t in tmpls:
            if HOLE not in t:
                continue
            q = _fixed_delims(t)
            if q is None:
                rep.instance("R-STRLIT", fn.qname, where, True, detail="no-fixed-delimiter", template=t[:40])
                continue
            safe = _strlit_safe(fn, q)
            # a dominating guard that mentions the quote character
            must = ctx.flow(fn).must_at(c)
            guarded = any(isinstance(e, ast.Compare) and any(isinstance(x, ast.Constant) and x.value == q for x in ast.walk(e)) for pol, e in fact_exprs(must))
            rep.check("R-STRLIT", fn.qname, where, bool(safe) or guarded, f"fixed-quote:{q}",
                      f"string token `{t[:50]}` wraps interpolated text in a fixed {q} without excluding that character: "
                      f"text containing {q} yields a malformed token (e.g. logging.info('say \"hi\" ' + name) -> logging.info(\"say \"hi\" %s\", name))",
                      template=t[:60], safe_reason=safe)
    # the constants the setup.py writer interpolates
    dep = ctx.prog.module("codemodder.dependency")
    bad = []
    n = 0
    for node in ast.walk(dep.tree):
        if isinstance(node, ast.Call) and last_attr(node.func) == "Requirement" and node.args and isinstance(node.args[0], ast.Constant):
            n += 1
            if any(ch in str(node.args[0].value) for ch in QUOTES):
                bad.append(node.args[0].value)
    rep.check("R-STRLIT", "codemodder.dependency", "src/codemodder/dependency.py:1", not bad and n >= 3, "requirement-constants",
              f"requirement constants {bad} contain quote characters but setup_py_writer wraps them in a fixed \"", count=n)


def _local_values(fn, name: str) -> list[ast.expr]:
    out = []
    for a in walk_no_nested(fn.node):
        if isinstance(a, (ast.Assign, ast.AnnAssign)) and a.value is not None:
            for tg in (a.targets if isinstance(a, ast.Assign) else [a.target]):
                if isinstance(tg, ast.Name) and tg.id == name:
                    out.append(a.value)
                # `*head, last = xs` / `first, *rest = xs`: the starred name is a slice of xs, a plain one an element of it
                elif isinstance(tg, (ast.Tuple, ast.List)) and any(isinstance(t, ast.Starred) for t in tg.elts):
                    for i, t in enumerate(tg.elts):
                        if isinstance(t, ast.Starred) and isinstance(t.value, ast.Name) and t.value.id == name:
                            out.append(ast.Subscript(value=a.value, slice=ast.Slice(lower=None, upper=None, step=None), ctx=ast.Load()))
                        elif isinstance(t, ast.Name) and t.id == name:
                            star_at = next(j for j, u in enumerate(tg.elts) if isinstance(u, ast.Starred))
                            idx = i if i < star_at else i - len(tg.elts)
                            out.append(ast.Subscript(value=a.value, slice=ast.Constant(value=idx), ctx=ast.Load()))
    return out


def _derives_filtered_names(fn, e: ast.expr, depth: int = 4) -> bool:
    """Is `e` (part of) a filtered sub-list of some node's `.names`?"""
    if isinstance(e, (ast.ListComp, ast.GeneratorExp)):
        g = e.generators[0]
        return bool(g.ifs) and last_attr(g.iter) == "names" and len(e.generators) == 1
    if isinstance(e, ast.Call) and isinstance(e.func, ast.Name) and e.func.id in ("list", "tuple") and len(e.args) == 1:
        return _derives_filtered_names(fn, e.args[0], depth)
    if isinstance(e, ast.Call) and isinstance(e.func, ast.Name) and e.func.id == "filter" and len(e.args) == 2:
        return last_attr(e.args[1]) == "names"
    if isinstance(e, (ast.List, ast.Tuple)):
        return any(_derives_filtered_names(fn, x.value if isinstance(x, ast.Starred) else x, depth) for x in e.elts if isinstance(x, (ast.Starred, ast.Name)))
    if isinstance(e, ast.Subscript) and isinstance(e.slice, ast.Slice):
        return _derives_filtered_names(fn, e.value, depth)
    if isinstance(e, ast.BinOp) and isinstance(e.op, ast.Add):
        return _derives_filtered_names(fn, e.left, depth) or _derives_filtered_names(fn, e.right, depth)
    if isinstance(e, ast.Name) and depth:
        return any(_derives_filtered_names(fn, v, depth - 1) for v in _local_values(fn, e.id))
    return False


def _is_comma_reset(fn, v: ast.expr, depth: int = 3) -> bool:
    if isinstance(v, ast.Call) and last_attr(v.func) == "with_changes":
        return any(k.arg == "comma" and unparse(k.value).endswith("MaybeSentinel.DEFAULT") for k in v.keywords)
    if isinstance(v, ast.Name) and depth:
        vals = _local_values(fn, v.id)
        return bool(vals) and all(_is_comma_reset(fn, x, depth - 1) for x in vals)
    return False


def _guards_of(fn, node: ast.AST) -> set[tuple[bool, str]]:
    """(polarity, test) of every if-statement / conditional expression that encloses `node` inside fn."""
    pm = {}
    for p in ast.walk(fn.node):
        for c in ast.iter_child_nodes(p):
            pm[id(c)] = p
    out = set()
    cur = node
    while id(cur) in pm:
        par = pm[id(cur)]
        if isinstance(par, ast.If):
            if any(cur is x for x in par.body):
                out.add((True, unparse(par.test)))
            elif any(cur is x for x in par.orelse):
                out.add((False, unparse(par.test)))
        elif isinstance(par, ast.IfExp):
            if cur is par.body:
                out.add((True, unparse(par.test)))
            elif cur is par.orelse:
                out.add((False, unparse(par.test)))
        cur = par
    return out


def _last_element_reset(ctx, fn, e: ast.expr, use: ast.AST, depth: int = 4) -> bool:
    """Is the last element of the list `e`, as it is when `use` is evaluated, a `<alias>.with_changes(comma=MaybeSentinel.DEFAULT)`?"""
    if isinstance(e, (ast.List, ast.Tuple)) and e.elts:
        last = e.elts[-1]
        if isinstance(last, ast.Starred):
            return _last_element_reset(ctx, fn, last.value, use, depth)
        return _is_comma_reset(fn, last)
    if isinstance(e, ast.BinOp) and isinstance(e.op, ast.Add):
        return _last_element_reset(ctx, fn, e.right, use, depth)
    if isinstance(e, ast.Name) and depth:
        held = _guards_of(fn, use) | {(pol, txt) for pol, txt in ctx.flow(fn).must_at(use)}
        for a in walk_no_nested(fn.node):
            if isinstance(a, ast.Assign) and isinstance(a.targets[0], ast.Subscript) and isinstance(a.targets[0].value, ast.Name) and a.targets[0].value.id == e.id \
                    and unparse(a.targets[0].slice) == "-1" and a.lineno < use.lineno and _is_comma_reset(fn, a.value):
                # the store happens whenever the use happens (a guard on the list being non-empty costs nothing: an empty list has no last element)
                need = _guards_of(fn, a) - {(True, e.id), (True, f"len({e.id})"), (True, f"len({e.id}) > 0")}
                if need <= held:
                    return True
        vals = _local_values(fn, e.id)
        return len(vals) == 1 and _last_element_reset(ctx, fn, vals[0], use, depth - 1)
    return False


def rule_comma_tail(ctx, rep):
    rep.rule(
        "R-COMMA-TAIL",
        "a hook that returns Import/ImportFrom.with_changes(names=<list derived from a filtered sub-list of a node's aliases>) makes the "
        "last kept alias one whose comma was reset (`.with_changes(comma=MaybeSentinel.DEFAULT)`, stored at [-1] before the use or placed "
        "last in the list literal); otherwise `from m import a, b` with b removed is emitted as `from m import a, `",
        min_instances=2,
    )
    n = 0
    for fn in ctx.prog.live_functions():
        if fn.cls is None:
            continue
        for c in walk_no_nested(fn.node):
            if isinstance(c, ast.Call) and last_attr(c.func) == "with_changes":
                nm = next((k.value for k in c.keywords if k.arg == "names"), None)
                if nm is None or not _derives_filtered_names(fn, nm):
                    continue
                n += 1
                reset = _last_element_reset(ctx, fn, nm, c)
                rep.check("R-COMMA-TAIL", fn.qname, fn.loc(c), reset, "filtered-names",
                          f"`{unparse(c)[:60]}` keeps a filtered alias list without resetting the last alias' comma: "
                          "`from __future__ import annotations, print_function` becomes `from __future__ import annotations, ` (SyntaxError)")
    if n < 2:
        raise AnalysisError("filtered import-alias rewrites not found (2 confirmed by hand)")


def rule_bare_genexp(ctx, rep):
    rep.rule(
        "R-BARE-GENEXP",
        "a GeneratorExp built without its own parentheses (lpar=[] or dynamic **kwargs) is placed in a freshly constructed cst.Arg as "
        "the sole argument; re-using an existing Arg (with_changes(value=gen)) can carry a trailing comma: `sum(x for x in xs,)` is a "
        "SyntaxError that libcst does not reject",
        min_instances=1,
    )
    n = 0
    for fn in ctx.prog.live_functions():
        if not fn.module.name.startswith(("core_codemods.", "codemodder.codemods")):
            continue
        r = ctx.resolver(fn)
        for c in walk_no_nested(fn.node):
            if isinstance(c, ast.Call) and unparse(c.func) in ("cst.GeneratorExp", "GeneratorExp"):
                kw = {k.arg: k.value for k in c.keywords}
                bare = (None in kw) or ("lpar" in kw and isinstance(kw["lpar"], (ast.List, ast.Tuple)) and not kw["lpar"].elts)
                if not bare:
                    continue
                n += 1
                # where does the generator go?
                par = ctx.parents(fn).get(id(c))
                holder = None
                if isinstance(par, ast.keyword):
                    holder = ctx.parents(fn).get(id(par))
                elif isinstance(par, (ast.Assign, ast.AnnAssign)):
                    name = (par.targets[0] if isinstance(par, ast.Assign) else par.target)
                    if isinstance(name, ast.Name):
                        # uses in the same statement list (branch) come first
                        owner = ctx.parents(fn).get(id(par))
                        scope_nodes = [fn.node]
                        for fld in ("body", "orelse", "finalbody"):
                            lst = getattr(owner, fld, None)
                            if isinstance(lst, list) and par in lst:
                                later = lst[lst.index(par) + 1 :]
                                if any(isinstance(u, ast.Name) and u.id == name.id for st in later for u in ast.walk(st)):
                                    scope_nodes = later
                        for u in [x for sn in scope_nodes for x in (walk_no_nested(sn) if sn is fn.node else ast.walk(sn))]:
                            if isinstance(u, ast.keyword) and isinstance(u.value, ast.Name) and u.value.id == name.id and u.arg == "value":
                                h = ctx.parents(fn).get(id(u))
                                if holder is None or (isinstance(h, ast.Call) and last_attr(h.func) == "with_changes"):
                                    holder = h
                fresh = isinstance(holder, ast.Call) and unparse(holder.func) in ("cst.Arg", "Arg")
                rep.check("R-BARE-GENEXP", fn.qname, fn.loc(c), fresh, "paren-less-generator",
                          f"paren-less generator is put into `{unparse(holder)[:50] if holder is not None else '?'}` rather than a fresh cst.Arg: "
                          "an inherited trailing comma makes the output unparseable")
    if n == 0:
        rep.instance("R-BARE-GENEXP", "codebase", "src/", True, detail="no paren-less GeneratorExp construction")


def rule_parens_not_stripped(ctx, rep):
    rep.rule(
        "R-PARENS-NOT-STRIPPED",
        "an expression taken from the source never has its own parentheses taken away (`<node>.with_changes(lpar=[], rpar=[])` on anything "
        "but a node the transformer has just constructed): the parentheses may be the only thing that lets the expression span several "
        "lines (a black-style wrapped call chain), and wherever the stripped node is placed outside brackets the file no longer parses.  "
        "Moving them to an enclosing node is no substitute once a later step unwraps that node again",
        min_instances=1,
    )
    n = 0
    for fn in ctx.prog.live_functions():
        if not fn.module.name.startswith(("core_codemods.", "codemodder.codemods")):
            continue
        r = None
        for c in walk_no_nested(fn.node):
            if not (isinstance(c, ast.Call) and isinstance(c.func, ast.Attribute) and c.func.attr == "with_changes"):
                continue
            strips = [k for k in c.keywords if k.arg in ("lpar", "rpar") and isinstance(k.value, (ast.List, ast.Tuple)) and not k.value.elts]
            if not strips:
                continue
            n += 1
            r = r or ctx.resolver(fn)
            recv = r.expand(c.func.value) if isinstance(c.func.value, ast.Name) else c.func.value
            fresh = isinstance(recv, ast.Call) and (dotted_name(recv.func) or "").startswith(("cst.", "libcst.")) and (last_attr(recv.func) or "")[:1].isupper()
            rep.check("R-PARENS-NOT-STRIPPED", fn.qname, fn.loc(c), fresh, f"strip:{unparse(c.func.value)[:30]}",
                      f"`{unparse(c)[:70]}` removes the parentheses of an expression that comes from the source: a value that spans several lines only "
                      "because of them is emitted bare")
    if n == 0:
        rep.instance("R-PARENS-NOT-STRIPPED", "codebase", "src/", True, detail="no with_changes(lpar=[] / rpar=[]) on any node")


def rule_template_parses(ctx, rep):
    rep.rule(
        "R-TEMPLATE-PARSES",
        "every code template a transformer hands to parse_expression / parse_statement / update_call_target / NewArg / update_assign_rhs "
        "parses as Python once its holes are filled with an identifier (a template that cannot parse makes every affected file fail)",
        min_instances=40,
    )
    seen = set()
    for tq in sorted(ctx.registry.transformer_classes()):
        if tq not in ctx.prog.classes:
            continue
        tm = ctx.tmodel(tq)
        for owner, m in tm.all_methods():
            if m.qname in seen:
                continue
            seen.add(m.qname)
            for em in emits_in(ctx, m):
                if em.api == "cst.Name":
                    continue
                for t in em.templates:
                    if t == HOLE:
                        continue
                    code = t
                    ok = True
                    try:
                        if em.api == "parse_statement":
                            ast.parse(__import__("textwrap").dedent(code))
                        else:
                            ast.parse(code.strip(), mode="eval")
                    except SyntaxError:
                        ok = False
                    rep.check("R-TEMPLATE-PARSES", tq, m.loc(em.node), ok, f"{m.name}:{em.api}:{t[:24]}",
                              f"template `{t[:60]}` given to {em.api} is not valid Python")


# attributes of libcst nodes that hold layout only (Sequence[EmptyLine] / whitespace): not statements, not expressions
LAYOUT_ATTRS = {"leading_lines", "lines_after_decorators", "header", "footer", "empty_lines", "lines_after_else"}
LAYOUT_CTORS = {"EmptyLine", "Comment", "Newline", "TrailingWhitespace", "SimpleWhitespace"}
# confirmed exception (one named class): the statement line it empties is never the last statement of its block
FLATTEN_LAYOUT_OK = {
    "core_codemods.use_walrus_if.UseWalrusIf":
        "the only line this transformer empties is the assignment folded into the `if` that directly follows it in the same block, so the block keeps "
        "a statement (the type mismatch is acknowledged in the source)",
}


def rule_flatten_elements(ctx, rep, rule_id="R-NODETYPE"):
    """clause of R-NODETYPE: what a hook hands back in a FlattenSentinel takes the place of the node in its parent's sequence, so it must be of
    the parent's element kind; layout-only nodes (EmptyLine, Comment) are not statements: a block reduced to them has no body
    (`elif debug:` + a comment line -> "expected an indented block")."""
    from ..derive import ElemSources

    n = 0
    for fn in ctx.prog.live_functions():
        if fn.cls is None:
            continue
        es = None
        for c in walk_no_nested(fn.node):
            if not (isinstance(c, ast.Call) and last_attr(c.func) == "FlattenSentinel" and c.args):
                continue
            es = es or ElemSources(ctx, fn, order_matters=True)
            n += 1
            bad = None
            work = [c.args[0]]
            for leaf, _facts in es.sources(c.args[0]):
                work.append(leaf)
            for w in work:
                for x in ast.walk(w) if w is not None else []:
                    if isinstance(x, ast.Attribute) and x.attr in LAYOUT_ATTRS:
                        bad = x
                    elif isinstance(x, ast.Call) and (last_attr(x.func) or "") in LAYOUT_CTORS:
                        bad = x
            if bad is not None and fn.cls.qname in FLATTEN_LAYOUT_OK:
                rep.instance(rule_id, fn.qname, fn.loc(c), True, detail="flatten-elements", exempt=FLATTEN_LAYOUT_OK[fn.cls.qname])
                continue
            rep.check(rule_id, fn.qname, fn.loc(c), bad is None, "flatten-elements",
                      f"`{unparse(c)[:70]}` puts layout nodes (`{unparse(bad)[:40] if bad is not None else ''}`: empty lines / comments) where the parent expects statements: "
                      "when they are all that is left of a block, the emitted block has no body and the file no longer parses")
    if n < 5:
        raise AnalysisError(f"only {n} FlattenSentinel constructions found (9 confirmed by hand)")


TIGHT_OPERAND_CTORS = {
    # constructor -> operand keywords whose value is parsed at a tighter level than "any expression"
    "StarredElement": ("value",), "StarredDictElement": ("value",), "Await": ("expression",),
}
ATOMIC_CST = {"Name", "Attribute", "Call", "Subscript", "SimpleString", "ConcatenatedString", "FormattedString", "Integer", "Float", "List", "Tuple", "Set", "Dict",
              "ListComp", "SetComp", "DictComp", "GeneratorExp", "Ellipsis"}


def rule_starred_operand(ctx, rep):
    rep.rule(
        "R-STARRED-OPERAND",
        "where a transformer builds `*<expr>` / `**<expr>` / `await <expr>` around an expression it found in the source, that expression "
        "is known to be atomic (a match / isinstance restricts its node class, or it was just built as a name / call / literal) or it is "
        "given parentheses: the operand of a starred element is parsed tighter than `or`, `if-else`, `not`, comparisons and lambdas, so "
        "`validation_rules=rules or []` moved under a star becomes `[*rules or [], ...]`, which no longer parses",
        min_instances=1,
    )
    n = 0
    for fn in ctx.prog.live_functions():
        if not fn.module.name.startswith(("core_codemods.", "codemodder.codemods", "codemodder.utils")) or fn.module.name.startswith("codemodder.codemods.test"):
            continue
        r = None
        fa = None
        for c in walk_no_nested(fn.node):
            if not isinstance(c, ast.Call):
                continue
            ctor = last_attr(c.func) or ""
            operands = []
            if ctor in TIGHT_OPERAND_CTORS:
                operands = [k.value for k in c.keywords if k.arg in TIGHT_OPERAND_CTORS[ctor]] + (list(c.args[:1]) if c.args else [])
            elif ctor == "Arg" and any(k.arg == "star" and isinstance(k.value, ast.Constant) and k.value.value in ("*", "**") for k in c.keywords):
                operands = [k.value for k in c.keywords if k.arg == "value"] + (list(c.args[:1]) if c.args else [])
            for e in operands:
                n += 1
                r = r or ctx.resolver(fn)
                v = r.expand(e) if isinstance(e, ast.Name) and e.id not in fn.params() else e
                fresh = isinstance(v, ast.Call) and (last_attr(v.func) in ATOMIC_CST or last_attr(v.func) in ("parse_expression",) and v.args and isinstance(v.args[0], ast.Constant))
                wrapped = isinstance(v, ast.Call) and last_attr(v.func) == "with_changes" and any(k.arg == "lpar" and not (isinstance(k.value, (ast.List, ast.Tuple)) and not k.value.elts) for k in v.keywords)
                restricted = False
                if isinstance(e, ast.Name):
                    fa = fa or ctx.flow(fn)
                    must = fa.must_at(c)
                    for pol, txt in must:
                        # MATCH:<subject>:<Class> facts from `match e: case cst.Name() | cst.Call():`, isinstance(e, (cst.Name, ...))
                        if pol and txt.startswith("MATCH:") and txt.split(":")[1] == e.id and all(t_.split(".")[-1].split("(")[0] in ATOMIC_CST for t_ in txt.split(":", 2)[2].split("|")):
                            restricted = True
                        if pol and txt.startswith(f"isinstance({e.id},") and all(w.strip(" ()").split(".")[-1] in ATOMIC_CST for w in txt[len(f"isinstance({e.id},"):-1].split(",") if w.strip(" ()")):
                            restricted = True
                    ann = r.param_annotation(e.id) if e.id in fn.params() else None
                    if ann is not None and unparse(ann).split(".")[-1] in ATOMIC_CST:
                        restricted = True
                rep.check("R-STARRED-OPERAND", fn.qname, fn.loc(c), fresh or wrapped or restricted, f"{ctor}:{unparse(e)[:30]}",
                          f"`{unparse(c)[:70]}` puts an expression taken from the source under a star / await without parentheses and without knowing its "
                          "node class: `a or b`, `x if c else y`, `not x`, comparisons and lambdas there produce code that does not parse")
    if n == 0:
        rep.instance("R-STARRED-OPERAND", "codebase", "src/", True, detail="no starred / awaited operand is built from a source expression")


def check(ctx, rep):
    rep.explanation = (
        "Parseability of libcst's output for arbitrary inputs is not decidable here and is declined. Decided instead: the two gaps in "
        "libcst's own validation that are visible in this repository's source — hand-built leaf tokens (string literals, trailing "
        "commas of filtered alias lists) and the type of children put into node slots — plus validity of every constant code template."
    )
    rule_strlit(ctx, rep)
    rule_comma_tail(ctx, rep)
    from .c02 import rule_nodetype

    rule_nodetype(ctx, rep)
    rule_flatten_elements(ctx, rep)
    rule_bare_genexp(ctx, rep)
    rule_parens_not_stripped(ctx, rep)
    rule_template_parses(ctx, rep)
    from .c07 import rule_no_dup_keyword

    rule_no_dup_keyword(ctx, rep)
    from .c03 import rule_codec_agree

    rule_codec_agree(ctx, rep)
    from .c18 import rule_metadata_original

    # names chosen without the scope metadata collide with names in use (walrus target = comprehension variable: SyntaxError)
    rule_metadata_original(ctx, rep)
    rule_starred_operand(ctx, rep)
    rep.not_covered += [
        "validity of libcst code generation for arbitrary trees (the core of the property)",
        "node removal / flattening inside blocks (RemovalSentinel leaving an empty suite) — libcst raises, the pipeline records a failure",
        "CRLF / tab layouts, codemod sequences",
    ]
