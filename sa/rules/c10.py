"""C10 — an unprocessable file is left intact, reported, and does not stop the run.

R-FAIL-ISOLATED            every input-dependent call of a pipeline's apply() that precedes the write lies in a try whose broad
                           handler records the failure, returns None and reaches no write
R-FAILURE-UNFIXED          add_failure marks every finding unfixed; process_results merges failures/unfixed of every file context
R-NO-CHANGESET-ON-FAILURE  any path through add_failure returns None
R-EXIT-ZERO                after apply_codemods, run() has no non-zero status that depends on file failures (see C20)
"""
from __future__ import annotations

import ast
import re

from ..flow import FlowAnalysis, has_event, may_event
from ..model import bind_args, AnalysisError, FuncInfo, call_name, dotted_name, last_attr, names_in, unparse, walk_no_nested
from ..sites import pipeline_applies, site_writes, apply_fn, worker_fn

# calls whose success depends on the content / existence of the target file
INPUT_DEP_ATTRS = {"read_bytes", "read_text", "decode", "parse_module", "transform", "parse", "readlines", "read", "splitlines"}
INPUT_DEP_FUNCS = {"open"}
BROAD = {"Exception", "BaseException", "<bare>"}


def _handler_types(h: ast.ExceptHandler) -> set[str]:
    if h.type is None:
        return {"<bare>"}
    if isinstance(h.type, ast.Tuple):
        return {last_attr(e) or unparse(e) for e in h.type.elts}
    return {last_attr(h.type) or unparse(h.type)}


def _enclosing_try(ctx, fn, node):
    """Innermost (try, in_body) such that node lies in try.body."""
    pm = ctx.parents(fn)
    cur = node
    while cur is not None:
        par = pm.get(id(cur))
        if isinstance(par, ast.Try) and any(cur is st for st in par.body):
            return par
        cur = par
    return None


def _chain(call: ast.Call) -> str:
    parts = []
    cur: ast.AST = call
    while isinstance(cur, ast.Call):
        parts.append(last_attr(cur.func) or "?")
        cur = cur.func.value if isinstance(cur.func, ast.Attribute) else None
    return ".".join(reversed(parts))


def input_dependent_calls(ctx, fn):
    """Outermost calls of each input-dependent call chain (x.read_bytes().decode().splitlines() is one instance)."""
    from ..prov import Prov

    pv = Prov(ctx, fn)
    allc = _all_input_dependent_calls(ctx, fn)
    inner = {id(c.func.value) for c in allc if isinstance(c.func, ast.Attribute)}
    out = []
    for c in allc:
        if id(c) in inner:
            continue
        # reads of the pipeline's own temporary output cannot fail because of the target's content
        base = c
        while isinstance(base, ast.Call) and isinstance(base.func, ast.Attribute):
            base = base.func.value
        root = pv.root(base) if isinstance(base, ast.expr) else None
        if isinstance(root, ast.Call) and (call_name(root) or "").split(".")[-1] in ("TemporaryFile", "NamedTemporaryFile", "StringIO", "BytesIO"):
            continue
        out.append(c)
    return out


def _all_input_dependent_calls(ctx, fn, _depth: int = 0):
    r = ctx.resolver(fn)
    out = []
    for n in walk_no_nested(fn.node):
        if isinstance(n, ast.Call):
            la = last_attr(n.func)
            if isinstance(n.func, ast.Attribute) and la in INPUT_DEP_ATTRS:
                # `"".join(x).encode()` / splitlines on constants are not input dependent
                if isinstance(n.func.value, ast.Constant):
                    continue
                out.append(n)
            elif call_name(n) in INPUT_DEP_FUNCS:
                out.append(n)
            else:
                # a repo helper that reads/decodes one of its parameters (`read_lines(path)`): the call is as input dependent
                # as what it wraps
                for t in r.resolve_call(n):
                    if isinstance(t, FuncInfo) and t.cls is None and _depth < 2 and n.args:
                        inner = _all_input_dependent_calls(ctx, t, _depth + 1)
                        ps = set(t.params())
                        if any(ps & {x.id for x in ast.walk(c) if isinstance(x, ast.Name)} for c in inner):
                            out.append(n)
                            break
    return out


def _returns_none(ex, event: str | None = None) -> bool:
    """The exit hands back None -- on every alternative of its state, or (event given) on every alternative that saw the event."""
    v = ex.value
    if ex.kind == "end" or v is None or (isinstance(v, ast.Constant) and v.value is None):
        return True
    if isinstance(v, ast.Name):
        return all((True, f"{v.id} is None") in must for must, may in ex.state.parts if event is None or event in may)
    return False


def rule_fail_isolated(ctx, rep):
    rep.rule(
        "R-FAIL-ISOLATED",
        "each input-dependent call (read/decode/open/parse/transform) that precedes the write in a pipeline's apply() lies in a "
        "try with a broad handler that calls add_failure, returns None and reaches no write sink",
        min_instances=5,
    )
    for fn in pipeline_applies(ctx):
        writes = site_writes(ctx, fn)
        wids = {id(w["call"]) for w in writes}
        first_write_line = min((w["call"].lineno for w in writes), default=10**9)
        inner_of_write = {id(x) for w in writes for x in ast.walk(w["call"])}
        for call in input_dependent_calls(ctx, fn):
            if id(call) in inner_of_write or call.lineno > first_write_line:
                continue  # part of the write itself / after it
            # calls nested in an outer input-dependent call are covered by the outer one's verdict too, still check each
            tr = _enclosing_try(ctx, fn, call)
            ok = False
            why = "is not inside any try block: an exception aborts the whole run through executor.map"
            while tr is not None:
                broad = [h for h in tr.handlers if _handler_types(h) & BROAD]
                if broad:
                    h = broad[0]
                    fail_calls = [x for st in h.body for x in ast.walk(st) if isinstance(x, ast.Call) and last_attr(x.func) == "add_failure"]
                    calls_fail = bool(fail_calls)
                    evn = f"EV:fail@{id(h)}"
                    fids = {id(x) for x in fail_calls}
                    fa_h = FlowAnalysis(fn.node, lambda c, _f=fids, _e=evn: _e if id(c) in _f else None)
                    after = [e for e in fa_h.exits if e.kind != "raise" and may_event(e.state, evn)]
                    # every way out of the function after this handler ran hands back None (no changeset for a failed file)
                    returns_none = all(_returns_none(e, evn) for e in after)
                    writes_in_h = any(may_event(fa_h.state_at(w["call"]), evn) for w in writes)
                    ok = calls_fail and returns_none and not writes_in_h
                    why = (
                        "its handler "
                        + ", ".join(
                            w for w, c in (("does not call add_failure", not calls_fail), ("does not return None", not returns_none), ("writes the file", writes_in_h)) if c
                        )
                    )
                    break
                why = "the enclosing try has no broad (Exception) handler"
                tr = _enclosing_try(ctx, fn, tr)
            rep.check(
                "R-FAIL-ISOLATED", fn.qname, fn.loc(call), ok, _chain(call),
                f"input-dependent call `{unparse(call)[:70]}` {why}",
            )


def _maps_all(e: ast.expr, p: str) -> bool:
    """e yields one element per element of parameter p (a map without filter)."""
    if isinstance(e, ast.Name):
        return e.id == p
    if isinstance(e, ast.Call) and isinstance(e.func, ast.Name) and e.func.id in ("list", "tuple", "iter") and len(e.args) == 1:
        return _maps_all(e.args[0], p)
    if isinstance(e, ast.Call) and isinstance(e.func, ast.Name) and e.func.id == "map" and len(e.args) == 2:
        return _maps_all(e.args[1], p)
    if isinstance(e, (ast.ListComp, ast.GeneratorExp)) and len(e.generators) == 1 and not e.generators[0].ifs:
        return _maps_all(e.generators[0].iter, p)
    return False


def rule_accumulate_all(ctx, rep, rule_id="R-ACCUMULATE-ALL"):
    """Shared by C09 / C10 / C11 / C15: what a file or codemod reports must reach the run-wide record whole."""
    from ..derive import ElemSources

    rep.rule(
        rule_id,
        "every accumulator of the execution context and of the file context that takes a collection parameter (add_changesets, "
        "add_failures, add_unfixed_findings, add_dependencies, ...) stores *all* elements of that parameter, unconditionally and on "
        "every path: a filter there (de-duplication against other codemods' or other files' records, 'already reported' tests) makes "
        "one file's or one codemod's report depend on its siblings and loses failures / findings",
        min_instances=4,
    )
    n = 0
    for cq in ("codemodder.context.CodemodExecutionContext", "codemodder.file_context.FileContext"):
        cls = ctx.prog.cls(cq)
        for name, m in cls.methods.items():
            if not name.startswith("add_") or m.absorbed:
                continue
            params = m.positional_params()[1:]
            r = ctx.resolver(m)
            coll_params = []
            ordered_params: set[str] = set()
            for p in params:
                ann = r.param_annotation(p)
                t = unparse(ann) if ann is not None else ""
                if re.search(r"(?<![A-Za-z_])(list|List|set|Set|Sequence|Iterable|dict|Dict)(\[|$)", t):
                    coll_params.append(p)
                    if re.match(r"(typing\.)?(list|List|Sequence)(\[|$)", t):
                        ordered_params.add(p)
            if not coll_params:
                continue
            es = ElemSources(ctx, m)
            def on_self(c):
                recv = r.expand(c.func.value) if isinstance(c.func.value, ast.Name) else c.func.value
                return "self" in names_in(recv)

            fa = FlowAnalysis(m.node, lambda c: "EV:store" if isinstance(c.func, ast.Attribute) and c.func.attr in ("extend", "update", "append", "add") and on_self(c) else None)
            stores = [c for c in walk_no_nested(m.node) if isinstance(c, ast.Call) and isinstance(c.func, ast.Attribute) and c.func.attr in ("extend", "update", "append", "add") and on_self(c) and c.args]
            pm = ctx.parents(m)
            for p in coll_params:
                mine = []
                ordered = p in ordered_params
                for c in stores:
                    if c.func.attr in ("append", "add"):
                        # element-wise store inside `for v in p:` -- the same thing as extend(p) when nothing guards it
                        a = c.args[0]
                        cur = pm.get(id(c))
                        loop = None
                        while cur is not None and cur is not m.node:
                            if isinstance(cur, ast.For) and isinstance(cur.target, ast.Name) and isinstance(a, ast.Name) and cur.target.id == a.id:
                                loop = cur
                                break
                            cur = pm.get(id(cur))
                        if loop is not None and any(isinstance(leaf, ast.Name) and leaf.id == p for leaf, _f in es.sources(loop.iter)):
                            mine.append((c, [(ast.Name(id=p, ctx=ast.Load()), frozenset())]))
                        continue
                    leaves = es.sources(c.args[0])
                    if any(isinstance(leaf, ast.Name) and leaf.id == p for leaf, _f in leaves) or p in names_in(c.args[0]):
                        mine.append((c, leaves))
                if not mine:
                    # a keyed store (`self.x[...][key_of(v)] = v` in a loop over p, or a dict built from p) is a store all the same
                    keyed = [a for a in walk_no_nested(m.node) if isinstance(a, ast.Assign) and isinstance(a.targets[0], ast.Subscript)
                             and "self" in names_in(r.expand(a.targets[0].value) if isinstance(a.targets[0].value, ast.Name) else a.targets[0].value)]
                    if keyed and ordered:
                        n += 1
                        rep.check(rule_id, m.qname, m.loc(keyed[0]), False, f"{name}({p})",
                                  f"`{unparse(keyed[0])[:70]}` files the elements of the list `{p}` under a key: two elements with the same key "
                                  "(two changesets for one path, two findings of one rule) overwrite each other and one of them never reaches the report")
                        continue
                    if any(p in names_in(x) for x in walk_no_nested(m.node) if isinstance(x, ast.Call)):
                        raise AnalysisError(f"{m.qname}: how the collection parameter `{p}` is stored is not understood")
                    if any(isinstance(x, ast.Name) and x.id == p for st in m.node.body for x in ast.walk(st)):
                        continue  # used in a way this rule does not follow (element-wise conversion into a local list, ...): no verdict
                    # the parameter is not used at all: an accumulator that accepts what a file / codemod reports and keeps nothing of it
                    n += 1
                    rep.check(rule_id, m.qname, m.loc(), False, f"{name}({p})",
                              f"the accumulator takes the collection `{p}` and never stores it: what the caller reports is lost")
                    continue
                n += 1
                ok = True
                why = ""
                for c, leaves in mine:
                    whole = any(isinstance(leaf, ast.Name) and leaf.id == p and not f for leaf, f in leaves) or _maps_all(c.args[0], p)
                    if not whole:
                        ok = False
                        why = f"`{unparse(c)[:70]}` stores only some elements of `{p}` (filtered or transformed)"
                    if ordered and c.func.attr in ("update", "add"):
                        # the parameter is a list (changesets, failures, findings: duplicates and same-key items are all meant to be kept)
                        ok = False
                        why = (f"`{unparse(c)[:70]}` files the elements of the list `{p}` in a set/dict: elements that are equal or share a key "
                               "(two changesets for one path) collapse into one and the other never reaches the report")
                    # a condition that holds on *every* way of reaching the store (one alternative's branch history is not a guard)
                    guarded = any(
                        txt for pol, txt in fa.must_at(c)
                        if not txt.startswith(("EV:", "ITER:", "MATCH:")) and txt not in (p, f"{p} is None")
                    )
                    if guarded:
                        ok = False
                        why = f"`{unparse(c)[:70]}` is executed only under a condition"
                exits = [e for e in fa.exits if e.kind != "raise"]
                elementwise = all(c.func.attr in ("append", "add") for c, _ in mine)  # a loop over an empty parameter stores nothing, rightly
                if ok and not elementwise and not all(has_event(e.state, "EV:store") for e in exits):
                    ok = False
                    why = "some path returns without storing the parameter"
                rep.check(rule_id, m.qname, m.loc(mine[0][0]), ok, f"{name}({p})", why)
    if n < 4:
        raise AnalysisError(f"only {n} collection accumulators found on the execution / file context")


def rule_iter_no_resume(ctx, rep, rule_id="R-ITER-NO-RESUME"):
    """Shared by C03 / C10."""
    rep.rule(
        rule_id,
        "no iterator is asked for another element after `next()` on it raised something other than StopIteration (`try: x = next(it)` / "
        "`except SomeError: ...; continue` in a loop).  The iterators of the merge path are generators (`executor.map(...)`, generator "
        "functions): a generator that has raised is finished, the following `next()` answers StopIteration, and the results of every remaining "
        "file -- already rewritten on disk by their workers -- never reach the report",
        min_instances=1,
    )
    n = 0
    for fn in ctx.prog.live_functions():
        if not fn.module.name.startswith(("codemodder.", "core_codemods.")):
            continue
        pm = None
        for t in walk_no_nested(fn.node):
            if not isinstance(t, ast.Try):
                continue
            nexts = [c for st in t.body for c in ast.walk(st) if isinstance(c, ast.Call) and call_name(c) == "next" and len(c.args) == 1]
            if not nexts:
                continue
            n += 1
            pm = pm or ctx.parents(fn)
            cur, in_loop = pm.get(id(t)), False
            while cur is not None and cur is not fn.node:
                if isinstance(cur, (ast.While, ast.For)):
                    in_loop = True
                    break
                cur = pm.get(id(cur))
            bad = None
            for h in t.handlers:
                names = {(dotted_name(x) or "").split(".")[-1] for x in ([h.type] if h.type is not None and not isinstance(h.type, ast.Tuple) else (h.type.elts if h.type is not None else []))}
                only_stop = names and names <= {"StopIteration", "StopAsyncIteration"}
                leaves = any(isinstance(x, (ast.Break, ast.Return, ast.Raise)) for st in h.body[-1:] for x in [st])
                if in_loop and not only_stop and not leaves:
                    bad = h
            rep.check(rule_id, fn.qname, fn.loc(bad if bad is not None else t), bad is None, f"next:{unparse(nexts[0].args[0])[:30]}",
                      f"after `{unparse(nexts[0])[:40]}` raised, the handler carries on with the loop: a generator that raised is exhausted, the remaining elements are lost")
    if n == 0:
        rep.instance(rule_id, "codebase", "src/", True, detail="no `next()` under a handler inside a loop")


def rule_failure_unfixed(ctx, rep):
    rep.rule(
        "R-FAILURE-UNFIXED",
        "FileContext.add_failure records the file and marks all of its findings unfixed on every path; "
        "CodemodExecutionContext.process_results merges failures and unfixed findings of every file context on every path",
        min_instances=5,
    )
    af = ctx.prog.func("codemodder.file_context.FileContext.add_failure")

    r_af = ctx.resolver(af)
    auf = ctx.prog.func("codemodder.file_context.FileContext.add_unfixed_findings")

    def ev_af(call):
        la = last_attr(call.func)
        if la in ("append", "add") and isinstance(call.func, ast.Attribute) and last_attr(call.func.value) == "failures":
            return "EV:recorded"
        if la == "add_unfixed_findings":
            # the findings argument (positional or by keyword, possibly through a local) is the complete list of the file's findings
            b = bind_args(call, auf, True)
            fp = auf.positional_params()[1] if len(auf.positional_params()) > 1 else "findings"
            a = b.get(fp)
            a = r_af.expand(a) if a is not None else None
            if isinstance(a, ast.Call) and last_attr(a.func) == "get_all_findings":
                return "EV:unfixed-all"
        return None

    fa = FlowAnalysis(af.node, ev_af)
    for evn, msg in (("EV:recorded", "does not append the file to `failures`"), ("EV:unfixed-all", "does not mark every finding of the file unfixed")):
        ok = bool(fa.exits) and all(has_event(e.state, evn) for e in fa.exits if e.kind != "raise")
        rep.check("R-FAILURE-UNFIXED", af.qname, af.loc(), ok, evn[3:], f"add_failure {msg} on every path")

    pr = ctx.prog.func("codemodder.context.CodemodExecutionContext.process_results")
    loops = [n for n in walk_no_nested(pr.node) if isinstance(n, ast.For)] or [n for n in walk_no_nested(pr.node) if isinstance(n, ast.While)]
    if not loops:
        raise AnalysisError("process_results no longer loops over the file contexts")
    loop = loops[0]
    wanted = {"add_failures": "failures", "add_unfixed_findings": "unfixed_findings", "add_changesets": "changesets", "add_dependencies": "dependencies"}

    r_pr = ctx.resolver(pr)
    ctx_cls = ctx.prog.cls("codemodder.context.CodemodExecutionContext")

    def ev_pr(call):
        la = last_attr(call.func)
        if la in wanted and la in ctx_cls.methods:
            m_ = ctx_cls.methods[la]
            pp_ = m_.positional_params()
            b = bind_args(call, m_, True)
            a = b.get(pp_[2]) if len(pp_) > 2 else None  # (self, codemod id, items)
            a = r_pr.expand(a) if isinstance(a, ast.Name) else a
            if a is not None and last_attr(a) == wanted[la]:
                return "EV:" + la
        return None

    fb = FlowAnalysis(loop, ev_pr, body=loop.body)
    for name in wanted:
        ends = [e for e in fb.exits if e.kind == "end"] + [fb]  # loop body normal end
        ok = all(has_event(e.state, "EV:" + name) for e in fb.exits if e.kind in ("end",)) and bool([e for e in fb.exits if e.kind == "end"])
        # `continue` inside the body would skip merges
        has_continue = any(isinstance(x, (ast.Continue, ast.Break)) for st in loop.body for x in ast.walk(st))
        rep.check("R-FAILURE-UNFIXED", pr.qname, pr.loc(loop), ok and not has_continue, name,
                  f"process_results does not call {name}(codemod_id, file_context.{wanted[name]}) for every file context on every path")


def rule_no_changeset_on_failure(ctx, rep):
    rep.rule(
        "R-NO-CHANGESET-ON-FAILURE",
        "in every pipeline, every exit reached after add_failure returns None (a failed file has no changeset)",
        min_instances=2,
    )
    n = 0
    for fn in pipeline_applies(ctx):
        def ev(call):
            return "EV:fail" if last_attr(call.func) == "add_failure" else None

        fa = FlowAnalysis(fn.node, ev)
        for ex in fa.exits:
            if ex.kind == "raise" or not may_event(ex.state, "EV:fail"):
                continue
            n += 1
            ok = _returns_none(ex, "EV:fail")
            rep.check("R-NO-CHANGESET-ON-FAILURE", fn.qname, fn.loc(ex.node) if ex.node is not None else fn.loc(), ok,
                      f"after-failure:{unparse(ex.node)[:30] if ex.node is not None else 'end'}",
                      "a path that recorded a failure for the file does not return None (file both failed and changed)")
    if n == 0:
        raise AnalysisError("no pipeline path records a failure: add_failure anchor vanished")


FS_TOUCH = {"stat", "lstat", "exists", "is_file", "is_dir", "read_bytes", "read_text", "open", "resolve", "samefile", "owner", "readlink"}


def rule_worker_no_raise(ctx, rep):
    rep.rule(
        "R-WORKER-NO-RAISE",
        "the per-file worker _process_file touches the file system for its file only through the pipeline (whose apply() isolates "
        "failures): no stat/exists/read/open on the file outside a try in the worker itself — an exception there escapes through "
        "executor.map and aborts the run (e.g. a file vanishing mid-run)",
        min_instances=1,
    )
    fn = worker_fn(ctx)
    bad = []
    for c in walk_no_nested(fn.node):
        if isinstance(c, ast.Call):
            la = last_attr(c.func)
            touches = (isinstance(c.func, ast.Attribute) and la in FS_TOUCH and "filename" in names_in(c.func.value)) or (
                call_name(c) in ("open", "os.stat", "os.path.getsize", "os.path.exists", "os.path.isfile", "os.path.getmtime") and c.args and "filename" in names_in(c.args[0])
            )
            if touches and _enclosing_try(ctx, fn, c) is None:
                bad.append(c)
    rep.check("R-WORKER-NO-RAISE", fn.qname, fn.loc(bad[0]) if bad else fn.loc(), not bad, "fs-access-in-worker",
              "worker accesses the file system outside any try: " + ", ".join(f"`{unparse(b)[:40]}`" for b in bad))
    # the pipeline call itself is the only thing that handles the file
    applies = [c for c in walk_no_nested(fn.node) if isinstance(c, ast.Call) and last_attr(c.func) == "apply" and "transformer" in unparse(c.func)]
    rep.check("R-WORKER-NO-RAISE", fn.qname, fn.loc(applies[0]) if applies else fn.loc(), len(applies) == 1, "single-pipeline-call", "worker does not hand the file to exactly one pipeline call")


def rule_exit_zero(ctx, rep):
    from .c20 import rule_zero_after_report

    rule_zero_after_report(ctx, rep)


# semgrep options that turn what the scan merely *notices* in a target (findings, files it can only partly parse) into a failing exit status
SEMGREP_FAILING_FLAGS = {"--strict": "exit 3 when a target can only be partially parsed", "--error": "exit 1 when there are findings"}


def rule_scan_tolerant(ctx, rep, rule_id="R-SCAN-TOLERANT"):
    rep.rule(
        rule_id,
        "codemodder.semgrep.run raises on every non-zero exit status of the scan, so the command line must not ask semgrep to fail because "
        "of what it sees in a *target*: none of the constant words of the command is `--strict` (exit 3 on a target it can only partially "
        "parse) or `--error` (exit 1 on findings).  With them one unparsable file aborts the whole run - no other file, no other codemod, no report",
        min_instances=1,
    )
    fn = ctx.prog.func("codemodder.semgrep.run")
    words: list[tuple[str, ast.AST]] = []
    spawn = None
    for c in walk_no_nested(fn.node):
        if isinstance(c, ast.Call) and (ctx.resolver(fn).callee_qname(c) or "").startswith("subprocess."):
            spawn = c
    if spawn is None:
        raise AnalysisError("codemodder.semgrep.run no longer starts a process")
    raises = any(isinstance(x, ast.Raise) for x in walk_no_nested(fn.node)) or any(k.arg == "check" and isinstance(k.value, ast.Constant) and k.value.value for k in spawn.keywords)
    for x in walk_no_nested(fn.node):
        if isinstance(x, ast.Constant) and isinstance(x.value, str) and x.value.startswith("-"):
            for w in x.value.split():
                words.append((w.split("=")[0], x))
    if "--sarif" not in {w for w, _ in words} and "scan" not in {x.value for x in walk_no_nested(fn.node) if isinstance(x, ast.Constant) and isinstance(x.value, str)}:
        raise AnalysisError("codemodder.semgrep.run: the semgrep command line was not recognised")
    bad = [(w, x) for w, x in words if w in SEMGREP_FAILING_FLAGS]
    rep.check(rule_id, fn.qname, fn.loc(bad[0][1]) if bad else fn.loc(spawn), not (bad and raises), "failing-flags",
              f"the scan is started with `{bad[0][0]}` ({SEMGREP_FAILING_FLAGS[bad[0][0]]}) and run() raises on a non-zero status: a single such file ends the run" if bad else "",
              flags=sorted({w for w, _ in words}))


def check(ctx, rep):
    rep.explanation = (
        "For the three transformer pipelines the input-dependent calls before the write are enumerated and each is required to "
        "lie under a broad handler that records the failure and returns None; must-event analysis decides the merge of failure "
        "records on every path."
    )
    rule_fail_isolated(ctx, rep)
    rule_failure_unfixed(ctx, rep)
    rule_iter_no_resume(ctx, rep)
    from .c09 import rule_runwide_state

    # `every other codemod exactly as it would have without the bad file`: what an earlier codemod recorded (its failed files) is not read while a later one runs
    rule_runwide_state(ctx, rep)
    rule_accumulate_all(ctx, rep)
    rule_no_changeset_on_failure(ctx, rep)
    rule_worker_no_raise(ctx, rep)
    from .c18 import rule_no_swallow

    rule_no_swallow(ctx, rep)
    from .c03 import rule_codec_agree

    rule_codec_agree(ctx, rep)
    rule_exit_zero(ctx, rep)
    rule_scan_tolerant(ctx, rep)
    from .c12 import MANIFEST_MODULES, rule_every_input_read

    # one unreadable dependency manifest must not end the discovery of the others (they decide which store is written)
    rule_every_input_read(ctx, rep, modules=MANIFEST_MODULES, min_loops=1)
    from .c15 import rule_report_complete

    # the unfixed findings and failed files of a codemod reach the report whole (no filtering copy on the way)
    rule_report_complete(ctx, rep)
    rep.not_covered += [
        "that other files get byte-identical outcomes under a fault (runtime behaviour)",
        "faults inside semgrep / result-file loading (raised before per-file processing)",
    ]
