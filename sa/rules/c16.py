"""C16 — hardening codemods make only their documented edit.

R-DOC-DELTA       the identifiers / constants a hardening codemod introduces occur in the `+` lines of the ```diff block of its own
                  docs file; value tokens must not be ones that occur only in `-` lines (docs <-> code sibling agreement)
R-ARGS-PRESERVED  a hardening hook that rebuilds the argument list keeps every argument it does not replace
R-HELPER-CONTRACT replace_args / add_arg_to_call / update_call_target / update_arg_target start from the node's own arguments
"""
from __future__ import annotations

import ast
import re

from ..argsrule import rule_args_preserved
from ..model import AnalysisError, FuncInfo, call_name, last_attr, names_in, unparse, walk_no_nested
from ..templates import HOLE, emits_in, eval_templates, import_events

HARDENING_MODULES = [
    "requests_verify", "add_requests_timeouts", "harden_pyyaml", "harden_ruamel", "jwt_decode_verify", "enable_jinja2_autoescape",
    "lxml_safe_parser_defaults", "lxml_safe_parsing", "secure_random", "secure_flask_cookie", "subprocess_shell_false",
    "process_creation_sandbox", "url_sandbox", "use_defused_xml", "harden_pickle_load", "https_connection", "upgrade_sslcontext_tls",
    "upgrade_sslcontext_minimum_version", "limit_readline", "timezone_aware_datetime", "django_json_response_type", "fix_math_isclose",
]
TOKEN_RE = re.compile(r"[A-Za-z_][A-Za-z0-9_]*|\d+(?:\.\d+)?(?:e-?\d+)?")
# tokens a codemod may introduce although the doc example does not show them: (codemod name, token) -> reason
DOC_EXCEPTIONS = {
    ("https-connection", "_proxy_config"): "keyword given to the 10th positional argument only when a call has 10 positional arguments; not part of the doc example",
}
NOISE = {"self", "cst", "None"}


def hardening_codemods(ctx):
    out = []
    for cm in ctx.registry.codemods:
        if cm.origin == "pixee" and cm.module.split(".")[-1] in HARDENING_MODULES:
            out.append(cm)
    if len(out) < 20:
        raise AnalysisError(f"only {len(out)} hardening codemods found in the registry (22 anchored)")
    return out


def doc_tokens(ctx, cm):
    path = f"src/core_codemods/docs/{cm.origin}_python_{cm.name}.md"
    try:
        text = ctx.prog.read_text(path)
    except OSError:
        return None, None, None, path
    plus, minus, context = set(), set(), set()
    in_diff = False
    n_blocks = 0
    for line in text.splitlines():
        if line.strip().startswith("```"):
            if in_diff:
                in_diff = False
            elif line.strip().startswith("```diff"):
                in_diff = True
                n_blocks += 1
            continue
        if not in_diff:
            continue
        st = line.lstrip()
        toks = set(TOKEN_RE.findall(st[1:] if st[:1] in "+-" else st))
        if st.startswith("+"):
            plus |= toks
        elif st.startswith("-"):
            minus |= toks
        else:
            context |= toks
    if n_blocks == 0:
        return None, None, None, path
    return plus, minus, context, path


def introduced_tokens(ctx, cm):
    """(token, kind, where, source text) introduced by the codemod's transformer family."""
    out = []
    seen_m = set()
    for tq in cm.transformers:
        if tq not in ctx.prog.classes:
            continue
        tm = ctx.tmodel(tq)
        for owner, m in tm.all_methods():
            if m.qname in seen_m or m.module.name.startswith("codemodder.codemods.utils") or m.module.name.startswith("codemodder.utils"):
                continue
            seen_m.add(m.qname)
            for em in emits_in(ctx, m):
                if em.api == "cst.Name":
                    continue
                kind = "value" if em.api in ("NewArg", "add_arg_to_call", "make_new_arg", "update_assign_rhs") else "callee"
                for t in em.templates:
                    for tok in TOKEN_RE.findall(t.replace(HOLE, " ")):
                        out.append((tok, kind, m.loc(em.node), t[:40]))
                if em.slot:
                    out.append((em.slot, "keyword", m.loc(em.node), em.slot))
            for c in walk_no_nested(m.node):
                if isinstance(c, ast.Call):
                    if last_attr(c.func) == "update_call_target":
                        nf = next((k.value for k in c.keywords if k.arg == "new_func"), c.args[2] if len(c.args) > 2 else None)
                        if nf is not None:
                            for t in eval_templates(ctx, m, nf):
                                for tok in TOKEN_RE.findall(t.replace(HOLE, " ")):
                                    out.append((tok, "callee", m.loc(c), t[:40]))
                    if last_attr(c.func) in ("add_needed_import", "add_import"):
                        args = list(c.args)
                        if unparse(c.func).split(".")[0] not in ("self",):
                            args = args[1:]
                        for a in args[:2] + [k.value for k in c.keywords if k.arg in ("module", "obj")]:
                            for t in eval_templates(ctx, m, a):
                                for tok in TOKEN_RE.findall(t.replace(HOLE, " ")):
                                    out.append((tok, "import", m.loc(c), t[:40]))
        # mapping tables of import-modifier codemods: {"requests.get": "safe_requests"}
        for c in ctx.prog.mro_classes(tq):
            mp = c.methods.get("mapping")
            if mp is not None:
                for d in ast.walk(mp.node):
                    if isinstance(d, ast.Dict):
                        for v in d.values:
                            for t in eval_templates(ctx, mp, v):
                                for tok in TOKEN_RE.findall(t.replace(HOLE, " ")):
                                    out.append((tok, "callee", mp.loc(d), t[:40]))
                break
    return out


def rule_doc_delta(ctx, rep):
    rep.rule(
        "R-DOC-DELTA",
        "for each hardening codemod every identifier/constant its transformer introduces by name (keyword names and values, callee "
        "templates, import names, mapping targets) occurs in a `+` or context line of the ```diff block of its own docs file, and a "
        "value token does not occur only in `-` lines (the documented edit is taken from the repository)",
        min_instances=40,
    )
    for cm in hardening_codemods(ctx):
        plus, minus, context, path = doc_tokens(ctx, cm)
        if plus is None:
            rep.check("R-DOC-DELTA", cm.id, cm.where, False, "docs", f"{path} is missing or has no ```diff block documenting the edit")
            continue
        toks = introduced_tokens(ctx, cm)
        seen = set()
        for tok, kind, where, src in toks:
            if tok in NOISE or (tok, kind) in seen:
                continue
            seen.add((tok, kind))
            ex = DOC_EXCEPTIONS.get((cm.name, tok))
            in_plus = tok in plus or tok in context
            only_minus = tok in minus and not in_plus
            ok = in_plus or ex is not None
            msg = (
                f"introduces `{tok}` ({kind}, from `{src}`) which the documented edit removes (it occurs only in `-` lines of {path})"
                if only_minus
                else f"introduces `{tok}` ({kind}, from `{src}`) which does not occur in the documented edit of {path}"
            )
            rep.check("R-DOC-DELTA", cm.id, where, ok, f"{kind}:{tok}", msg, exception=ex)


def rule_args(ctx, rep):
    fams = {}
    for cm in hardening_codemods(ctx):
        for tq in cm.transformers:
            if tq in ctx.prog.classes:
                fams[tq] = ctx.tmodel(tq)
    for cm in ctx.registry.codemods:
        if cm.module.endswith("semgrep_rsa_key_size") or "secure_set_cookie" in cm.module:
            for tq in cm.transformers:
                if tq in ctx.prog.classes:
                    fams[tq] = ctx.tmodel(tq)
    rule_args_preserved(
        ctx, rep, "R-ARGS-PRESERVED", fams,
        "in hardening codemods the new argument list is replace_args(...), [*node.args, new...], node.args itself, or an explicit list "
        "under a dominating arity fact; a list that keeps a prefix of the arguments and drops the rest is a violation",
        min_instances=15,
    )


def rule_helper_contract(ctx, rep):
    from ..argsrule import classify_args_expr
    from ..flow import FlowAnalysis, has_event, may_event

    rep.rule(
        "R-HELPER-CONTRACT",
        "replace_args appends exactly one element per original argument on every path (the argument itself unless its keyword matches) "
        "and adds extras only under add_if_missing; add_arg_to_call and update_call_target build on the node's own argument list; "
        "update_arg_target changes only args",
        min_instances=4,
    )
    base = "codemodder.codemods.libcst_transformer.LibcstResultTransformer."
    ra = ctx.prog.func(base + "replace_args")
    node_param = ra.positional_params()[1]
    loops = [n for n in walk_no_nested(ra.node) if isinstance(n, ast.For)]
    over_args = [l for l in loops if isinstance(l.iter, ast.Attribute) and l.iter.attr == "args" and isinstance(l.iter.value, ast.Name) and l.iter.value.id == node_param]
    ok = False
    why = "no loop over the original node's arguments"
    if over_args:
        l0 = over_args[0]
        out_lists = {unparse(c.func.value) for c in ast.walk(l0) if isinstance(c, ast.Call) and last_attr(c.func) == "append"}

        def ev(call):
            return "EV:append" if last_attr(call.func) == "append" and unparse(call.func.value) in out_lists else None

        fa = FlowAnalysis(l0, ev, body=l0.body)
        ends = [e.state for e in fa.exits if e.kind == "end"] + [fa.state_at(st) for st in ast.walk(l0) if isinstance(st, ast.Continue) and fa.state_at(st) is not None]
        appends = [c for c in ast.walk(l0) if isinstance(c, ast.Call) and ev(c)]
        one_each = bool(ends) and all(has_event(e, "EV:append") for e in ends)
        double = [c for c in appends if fa.state_at(c) is not None and may_event(fa.state_at(c), "EV:append")]
        early = any(isinstance(x, (ast.Break, ast.Return)) for x in ast.walk(l0))
        # what is appended: the loop variable or a rebuilt copy of it
        lv = l0.target.id if isinstance(l0.target, ast.Name) else None
        vals_ok = True
        for c in appends:
            a = c.args[0] if c.args else None
            srcs = [a]
            if isinstance(a, ast.Name) and a.id != lv:
                srcs = [x.value for x in ast.walk(l0) if isinstance(x, ast.Assign) and any(isinstance(t, ast.Name) and t.id == a.id for t in x.targets)]
            for v in srcs:
                keeps = (isinstance(v, ast.Name) and v.id == lv) or (isinstance(v, ast.Call) and last_attr(v.func) in ("make_new_arg", "with_changes"))
                vals_ok = vals_ok and keeps
        ok = one_each and not double and not early and vals_ok and len(out_lists) == 1
        why = "an original argument can be dropped, duplicated or replaced by something unrelated on some path of the loop"
    rep.check("R-HELPER-CONTRACT", ra.qname, ra.loc(), ok, "keeps-unmatched", f"replace_args: {why}")
    extras = [l for l in loops if l not in over_args]
    fa_all = ctx.flow(ra)
    extra_ok = bool(extras)
    for l in extras:
        for c in [x for x in ast.walk(l) if isinstance(x, ast.Call) and last_attr(x.func) == "append"]:
            gated = any(pol and "add_if_missing" in txt for pol, txt in fa_all.must_at(c))
            extra_ok = extra_ok and gated
    rep.check("R-HELPER-CONTRACT", ra.qname, ra.loc(), extra_ok, "extras-only-if-missing", "replace_args adds new arguments without honouring add_if_missing")
    aa = ctx.prog.func(base + "add_arg_to_call")
    sites = [c for c in walk_no_nested(aa.node) if isinstance(c, ast.Call) and last_attr(c.func) == "with_changes"]
    ok = False
    for c in sites:
        a = next((k.value for k in c.keywords if k.arg == "args"), None)
        if a is not None and classify_args_expr(ctx, aa, a, c)[0] == "complete":
            ok = True
    rep.check("R-HELPER-CONTRACT", aa.qname, aa.loc(), ok, "extends-node-args", "add_arg_to_call no longer extends the node's own argument list")
    uc = ctx.prog.func(base + "update_call_target")
    ctor = [c for c in walk_no_nested(uc.node) if isinstance(c, ast.Call) and unparse(c.func) in ("cst.Call", "Call")]
    ok = False
    for c in ctor:
        a = next((k.value for k in c.keywords if k.arg == "args"), None)
        if isinstance(a, ast.Name):
            a = ctx.resolver(uc).expand(a)  # `call_args = replacement or node.args` bound first
        alts = []
        if isinstance(a, ast.IfExp):
            alts = [a.body, a.orelse]
        elif isinstance(a, ast.BoolOp):
            alts = a.values
        elif a is not None:
            alts = [a]
        ok = any(isinstance(x, ast.Attribute) and x.attr == "args" for x in alts)
    rep.check("R-HELPER-CONTRACT", uc.qname, uc.loc(), ok, "keeps-args", "update_call_target no longer keeps the original call's args when no replacement is given")
    ua = ctx.prog.func(base + "update_arg_target")
    wc = [c for c in walk_no_nested(ua.node) if isinstance(c, ast.Call) and last_attr(c.func) == "with_changes"]
    ok = len(wc) == 1 and {k.arg for k in wc[0].keywords} == {"args"}
    rep.check("R-HELPER-CONTRACT", ua.qname, ua.loc(), ok, "only-args", "update_arg_target changes more than the argument list")


def rule_args_info_fresh(ctx, rep, rule_id="R-ARGS-INFO-FRESH"):
    rep.rule(
        rule_id,
        "replace_args consumes its args_info list (`del args_info[idx]` for every keyword it finds): every call site passes a list built "
        "for that call (literal, local, helper result), never a class- or module-level list — a shared list loses its entries after the "
        "first call that matches them, and later calls silently stop adding the safe argument",
        min_instances=8,
    )
    ra = ctx.prog.func("codemodder.codemods.libcst_transformer.LibcstResultTransformer.replace_args")
    consumes = any(isinstance(n, ast.Delete) and "args_info" in unparse(n) for n in walk_no_nested(ra.node))
    n = 0
    for fn in ctx.prog.live_functions():
        r = ctx.resolver(fn)
        for c in walk_no_nested(fn.node):
            if isinstance(c, ast.Call) and last_attr(c.func) == "replace_args" and len(c.args) >= 2 and fn.qname != ra.qname:
                n += 1
                a = c.args[1]
                v = r.expand(a)

                def is_shared(f, rr, v, depth=2) -> bool:
                    from ..prov import is_cached

                    if isinstance(v, ast.Attribute) and isinstance(v.value, ast.Name) and v.value.id in ("self", "cls"):
                        if f.cls is None:
                            return False
                        if ctx.prog.lookup_attr(f.cls.qname, v.attr) is not None:
                            return True
                        m_ = ctx.prog.lookup_method(f.cls.qname, v.attr)
                        return m_ is not None and is_cached(m_)  # a memoised property hands out the same list every time
                    if isinstance(v, ast.Name) and v.id in f.module.constants and v.id not in f.params():
                        rr.single_assignments()
                        return v.id not in rr._assign_counts
                    if isinstance(v, ast.Attribute):
                        q = ctx.prog.resolve_expr_name(f.module, v)
                        return bool(q) and (q.rpartition(".")[0] in ctx.prog.classes or q.rpartition(".")[0] in ctx.prog.modules)
                    if isinstance(v, ast.Call) and depth > 0:
                        # a helper that chooses the list: shared if any of its answers is
                        for t in rr.resolve_call(v):
                            if isinstance(t, FuncInfo):
                                tr = ctx.resolver(t)
                                for rt in [x for x in walk_no_nested(t.node) if isinstance(x, ast.Return) and x.value is not None]:
                                    rv = tr.expand(rt.value) if isinstance(rt.value, ast.Name) else rt.value
                                    if is_shared(t, tr, rv, depth - 1):
                                        return True
                    return False

                shared = is_shared(fn, r, v)
                rep.check(rule_id, fn.qname, fn.loc(c), not (shared and consumes), f"args_info:{unparse(a)[:30]}",
                          f"`{unparse(c)[:60]}` passes the shared list `{unparse(v)[:40]}` to replace_args, which deletes matched entries from it: "
                          "after the first call site that already has the keyword, the entry is gone for every later call in the process")
    if n < 8:
        raise AnalysisError(f"only {n} replace_args call sites found")


RESOLUTION_MODULES = ("codemodder.codemods.utils_mixin", "codemodder.codemods.base_visitor")


def rule_resolution_not_memoised(ctx, rep, rule_id="R-RESOLUTION-NOT-MEMOISED"):
    rep.rule(
        rule_id,
        "in visitor/transformer classes, the result of a scope- or position-dependent resolution helper (the mixin methods of "
        "utils_mixin / base_visitor taking a CST node: find_base_name, get_aliased_prefix_name, find_assignments, node_position, ...) "
        "is never stored in a `self.<dict>[key]` memo whose key is not that node: the same text resolves differently in another "
        "scope (a local `import x as y`, a shadowing assignment), so a text-keyed memo makes the codemod edit, or skip, the wrong call",
        min_instances=1,
    )
    n_classes = 0
    for c in ctx.prog.classes.values():
        mro = ctx.prog.mro(c.qname)
        if not any(m.startswith(RESOLUTION_MODULES) for m in mro):
            continue
        n_classes += 1
        for m in c.methods.values():
            r = ctx.resolver(m)
            for n in walk_no_nested(m.node):
                if not (isinstance(n, ast.Assign) and len(n.targets) == 1 and isinstance(n.targets[0], ast.Subscript)):
                    continue
                tgt = n.targets[0]
                if not (isinstance(tgt.value, ast.Attribute) and isinstance(tgt.value.value, ast.Name) and tgt.value.value.id == "self"):
                    continue
                v = n.value
                if not (isinstance(v, ast.Call) and isinstance(v.func, ast.Attribute) and isinstance(v.func.value, ast.Name) and v.func.value.id == "self" and v.args):
                    continue
                targets = [t for t in r.resolve_call(v) if isinstance(t, FuncInfo)]
                if not targets or not all(t.module.name in RESOLUTION_MODULES for t in targets):
                    continue
                key_names = {unparse(x) for x in ast.walk(tgt.slice) if isinstance(x, (ast.Name, ast.Attribute))}
                arg_texts = {unparse(a) for a in v.args}
                keyed_by_node = bool(arg_texts & key_names) and not any(isinstance(x, ast.Call) for x in ast.walk(tgt.slice))
                rep.check(rule_id, c.qname, m.loc(n), keyed_by_node, f"{m.name}:{unparse(tgt.value)}",
                          f"`{unparse(n)[:80]}` memoises {targets[0].name}() under the key `{unparse(tgt.slice)[:40]}`, which is not the resolved node: "
                          "another occurrence of the same text in a different scope gets the first occurrence's answer")
    if n_classes < 20:
        raise AnalysisError(f"only {n_classes} classes using the resolution mixins found")
    rep.instance(rule_id, "codemodder.codemods.utils_mixin", "src/codemodder/codemods/utils_mixin.py:1", True, detail=f"{n_classes} classes scanned")


CHILD_ATTRS = {"elements", "args", "body", "names", "targets", "comparisons", "decorators", "params", "items", "bases", "keywords", "values", "parts", "expressions"}
# confirmed exception, keyed by the (public, registered) class and the *shape* of the loop, not by a private method name:
REBUILD_EXEMPT_PARTITION = {
    "core_codemods.fix_async_task_instantiation.FixAsyncTaskInstantiation":
        "partitions the arguments into (loop, eager_start, others) with a `match` that has no wildcard: the first two are returned separately and "
        "re-inserted or dropped by the documented edit; the only unmatched shape is a keyword argument literally named `None`, which is not valid Python",
}


def _unroll_inner_loops(stmts):
    """Inner `for` loops of a rebuild iteration are taken to run at least once: replacing one child by a *sequence* of children is a rewrite of
    that child (str-concat flattening), not a drop; what the rule looks for is a path that skips the child altogether."""
    import copy

    class T(ast.NodeTransformer):
        def visit_For(self, n):
            self.generic_visit(n)
            return n.body

        def visit_FunctionDef(self, n):
            return n

    return [x for st in copy.deepcopy(stmts) for x in (lambda r: r if isinstance(r, list) else [r])(T().visit(st))]


def _following(fn_node, loop):
    """Statements that can run after `loop` inside fn_node (the rest of every enclosing block)."""
    out = []

    def rec(stmts):
        for i, st in enumerate(stmts):
            if st is loop:
                out.extend(stmts[i + 1:])
                return True
            for fld in ("body", "orelse", "finalbody"):
                sub = getattr(st, fld, None)
                if isinstance(sub, list) and sub and isinstance(sub[0], ast.stmt) and rec(sub):
                    out.extend(stmts[i + 1:])
                    return True
            for h in getattr(st, "handlers", []) or []:
                if rec(h.body):
                    out.extend(stmts[i + 1:])
                    return True
            for cs in getattr(st, "cases", []) or []:
                if rec(cs.body):
                    out.extend(stmts[i + 1:])
                    return True
        return False

    rec(fn_node.body)
    return out


def rule_rebuild_keeps_all(ctx, rep, rule_id="R-REBUILD-KEEPS-ALL"):
    rep.rule(
        rule_id,
        "in the classes of registered codemods, a loop that rebuilds a node's children element by element (iterates `<node>.args/.elements/...` "
        "or an argument-list parameter, carries the loop element over in at least one branch and appends to a new list) appends on *every* "
        "path of an iteration: a `continue` / missing else before the append silently drops children (`**mapping` entries, starred args) "
        "that are no part of the documented edit; confirmed exceptions are listed with their reason",
        min_instances=4,
    )
    from ..flow import FlowAnalysis, has_event

    classes = set(ctx.registry.transformer_classes().keys())
    closure = set()
    for cq in classes:
        closure |= {m for m in ctx.prog.mro(cq) if m in ctx.prog.classes}
    n = 0
    for cq in sorted(closure):
        for m in ctx.prog.classes[cq].methods.values():
            for lp in walk_no_nested(m.node):
                if not isinstance(lp, ast.For) or not isinstance(lp.target, ast.Name):
                    continue
                it = lp.iter
                if not ((isinstance(it, ast.Attribute) and it.attr in CHILD_ATTRS) or (isinstance(it, ast.Name) and it.id in m.params())):
                    continue
                lv = lp.target.id
                apps = [c for c in ast.walk(lp) if isinstance(c, ast.Call) and isinstance(c.func, ast.Attribute) and c.func.attr == "append" and isinstance(c.func.value, ast.Name)]
                if not apps:
                    continue
                carried = any(isinstance(a, ast.Assign) and isinstance(a.value, ast.Name) and a.value.id == lv for a in ast.walk(lp)) or any(
                    c.args and isinstance(c.args[0], ast.Name) and c.args[0].id == lv for c in apps)
                if not carried:
                    continue
                n += 1
                body = _unroll_inner_loops(lp.body)
                # an element stored into a plain variable that is used after the loop (a partition: `loop_arg = arg`) is kept as well
                after_names = {x.id for st in _following(m.node, lp) for x in ast.walk(st) if isinstance(x, ast.Name) and isinstance(x.ctx, ast.Load)}
                part_stores = {id(a) for st in body for a in ast.walk(st) if isinstance(a, ast.Assign) and isinstance(a.value, ast.Name) and a.value.id == lv
                               and len(a.targets) == 1 and isinstance(a.targets[0], ast.Name) and a.targets[0].id in after_names}

                def ev(c, _lv=lv):
                    if isinstance(c, ast.Call) and isinstance(c.func, ast.Attribute) and c.func.attr == "append" and isinstance(c.func.value, ast.Name):
                        return "EV:app"
                    return None

                # partition stores are modelled as appends (rewritten into a marker call)
                class P(ast.NodeTransformer):
                    def visit_Assign(self, a):
                        if id(a) in part_stores:
                            return ast.copy_location(ast.Expr(value=ast.Call(func=ast.Attribute(value=ast.Name(id="__kept", ctx=ast.Load()), attr="append", ctx=ast.Load()), args=[a.value], keywords=[])), a)
                        return a

                body = [P().visit(st) for st in body]
                wrapper = ast.For(target=lp.target, iter=lp.iter, body=body, orelse=[], lineno=lp.lineno, col_offset=lp.col_offset)
                ast.fix_missing_locations(wrapper)
                fa = FlowAnalysis(wrapper, ev, body=body)
                ends = [e.state for e in fa.exits if e.kind == "end"] + [fa.state_at(s_) for st in body for s_ in ast.walk(st) if isinstance(s_, ast.Continue) and fa.state_at(s_) is not None]
                ok = bool(ends) and all(has_event(s_, "EV:app") for s_ in ends)
                if not ok and ends:
                    # an element that was put into the output list *before* the loop (`new = [receiver]` ... `if d != receiver: new.append(d)`)
                    # is not lost when its own iteration appends nothing: accept an iteration without append only under `elem == K` for such a K
                    out_names = {c.func.value.id for c in apps}
                    prefilled: set[str] = set()
                    for a in walk_no_nested(m.node):
                        if isinstance(a, ast.Assign) and len(a.targets) == 1 and isinstance(a.targets[0], ast.Name) and a.targets[0].id in out_names \
                                and isinstance(a.value, (ast.List, ast.Tuple)) and a.lineno < lp.lineno:
                            prefilled |= {e.id for e in a.value.elts if isinstance(e, ast.Name)}

                    def moved_earlier(state) -> bool:
                        for must, _may in state.parts:
                            if (True, "EV:app") in must:
                                continue
                            eq = False
                            for pol, txt in must:
                                for k in prefilled:
                                    if (not pol and txt in (f"{lv} != {k}", f"{lv} is not {k}", f"{k} != {lv}")) or (pol and txt in (f"{lv} == {k}", f"{lv} is {k}", f"{k} == {lv}", f"{k} is {lv}")):
                                        eq = True
                            if not eq:
                                return False
                        return True

                    ok = bool(prefilled) and all(moved_earlier(s_) for s_ in ends)
                ex = REBUILD_EXEMPT_PARTITION.get(cq) if part_stores else None
                if not ok and ex:
                    rep.instance(rule_id, m.qname, m.loc(lp), True, detail=f"for {lv} in {unparse(it)[:30]}", exempt=ex)
                    continue
                rep.check(rule_id, m.qname, m.loc(lp), ok, f"for {lv} in {unparse(it)[:30]}",
                          f"an iteration of the rebuild loop over `{unparse(it)[:40]}` can end without appending anything: that child of the node disappears from the rewritten code")
    if n < 4:
        raise AnalysisError(f"only {n} element-wise rebuild loops found in codemod classes")


def rule_edit_targeted(ctx, rep, rule_id="R-EDIT-TARGETED"):
    rep.rule(
        rule_id,
        "no method of a registered transformer rewrites by *pattern over a subtree* (`libcst.matchers.replace(tree, matcher, ...)`): it changes "
        "every node below the reported one that happens to match (the `verify=` of a call nested in the reported call), not the node the "
        "codemod documents; identity-addressed edits (with_changes, deep_replace(node, ...), with_deep_changes(node, ...)) are the idiom",
        min_instances=1,
    )
    from .c02 import families

    n = 0
    seen = set()
    for tq, tm in families(ctx).items():
        for _owner, m in tm.all_methods():
            if m.qname in seen:
                continue
            seen.add(m.qname)
            n += 1
            bad = None
            for c in walk_no_nested(m.node):
                if isinstance(c, ast.Call) and isinstance(c.func, (ast.Name, ast.Attribute)):
                    q = ctx.prog.resolve_expr_name(m.module, c.func) or ""
                    if q in ("libcst.matchers.replace", "libcst.matchers._matcher_base.replace"):
                        bad = c
            if bad is not None:
                rep.check(rule_id, m.qname, m.loc(bad), False, "pattern-replace",
                          f"`{unparse(bad)[:70]}` replaces every match inside the subtree: nodes nested in the reported one that merely look alike are rewritten too")
    rep.instance(rule_id, "registered transformers", "src/core_codemods", True, detail=f"{n} methods scanned, no pattern-wide subtree rewrite")
    if n < 50:
        raise AnalysisError(f"only {n} transformer methods scanned")


def check(ctx, rep):
    rep.explanation = (
        "Sibling agreement between documentation and code: the tokens each hardening transformer introduces by name are recovered "
        "with the template evaluator and compared with the `+`/`-` lines of the codemod's own docs diff; argument-list rebuilding is "
        "classified (complete / tail / partial / dropped) with dominating arity facts; the shared argument helpers' contracts are checked."
    )
    rule_doc_delta(ctx, rep)
    rule_args(ctx, rep)
    rule_helper_contract(ctx, rep)
    rule_args_info_fresh(ctx, rep)
    rule_resolution_not_memoised(ctx, rep)
    rule_rebuild_keeps_all(ctx, rep)
    rule_edit_targeted(ctx, rep)
    from .c09 import rule_detector_fresh

    # the edit lands where the detector says: positions taken before an earlier codemod of the run shifted the file point at other code
    rule_detector_fresh(ctx, rep)
    from .c06 import rule_rule_keyed
    from .c03 import rule_codec_agree

    # only the documented edit, only at the reported place: the per-file findings reach the transformer unfiltered, and the text that is
    # parsed is the text that is written back (a file decoded by its PEP 263 cookie and written as UTF-8 changes every non-ASCII literal)
    rule_rule_keyed(ctx, rep)
    rule_codec_agree(ctx, rep)
    rep.not_covered += ["preservation of every token of arbitrary call shapes through libcst", "argument order for star-args"]
