"""C19 — regex and XML pipelines edit only their targets and preserve everything else.

R-LINE-INDEX-AGREE     Change(lineNumber=e1, findings=get_findings_for_location(e2)) => e1 == e2
R-ONE-APPEND-PER-LINE  both regex _apply loops append exactly one element per input line (the line or its substitution);
                       the SAST variant substitutes only under line_matches_result
R-CDATA-STATE          a SAX handler that writes <![CDATA[ / ]]> itself must not escape characters() inside the section
R-OPTIONAL-FORMAT      an Optional parameter is not interpolated into emitted text without an `is None` test
+ shared: R-FAIL-ISOLATED (C10), R-DRYRUN-GUARD (C04), R-DIFF-WRITE-AGREE (C03) restricted to the two pipelines
"""
from __future__ import annotations

import ast

from ..flow import FlowAnalysis, fact_exprs, has_event, may_event
from ..model import AnalysisError, FuncInfo, call_name, last_attr, names_in, unparse, walk_no_nested

REGEX_MOD = "codemodder.codemods.regex_transformer"
XML_MOD = "codemodder.codemods.xml_transformer"
XMLT = XML_MOD + ".XMLTransformer"


def _same(ctx, fn, a: ast.expr, b: ast.expr) -> bool:
    r = ctx.resolver(fn)
    return unparse(r.expand(a)) == unparse(r.expand(b)) or unparse(a) == unparse(b)


def rule_line_index(ctx, rep):
    rep.rule(
        "R-LINE-INDEX-AGREE",
        "in the regex and XML pipelines every Change(lineNumber=e1, findings=...get_findings_for_location(e2)) has e1 == e2 "
        "(after alias expansion): the findings attached to a change are those of the changed line",
        min_instances=3,
    )
    n = 0
    for mod in (REGEX_MOD, XML_MOD):
        m = ctx.prog.module(mod)
        for fn in [f for f in ctx.prog.live_functions() if f.module is m]:
            r = ctx.resolver(fn)
            for c in walk_no_nested(fn.node):
                if isinstance(c, ast.Call) and r.callee_qname(c) == "codemodder.codetf.Change":
                    kw = {k.arg: k.value for k in c.keywords}
                    ln, fd = kw.get("lineNumber"), kw.get("findings")
                    if ln is None or fd is None:
                        continue
                    look = [x for x in ast.walk(r.expand(fd)) if isinstance(x, ast.Call) and last_attr(x.func) == "get_findings_for_location" and x.args]
                    n += 1
                    if not look:
                        rep.check("R-LINE-INDEX-AGREE", fn.qname, fn.loc(c), False, f"lineNumber={unparse(ln)}",
                                  f"findings of the change come from `{unparse(fd)[:50]}` instead of file_context.get_findings_for_location(<its line>): "
                                  "findings that share or span the line are lost or misattributed")
                        continue
                    e2 = look[0].args[0]
                    ok = _same(ctx, fn, ln, e2)
                    rep.check("R-LINE-INDEX-AGREE", fn.qname, fn.loc(c), ok, f"lineNumber={unparse(ln)}",
                              f"change is reported on line `{unparse(ln)}` but its findings are looked up at `{unparse(e2)}` "
                              "(0-based enumerate index vs 1-based line: the finding of the edited line is not attached)")
    if n < 3:
        raise AnalysisError("Change(...) constructions with finding lookup not found in the regex/xml pipelines")


def rule_one_append(ctx, rep):
    rep.rule(
        "R-ONE-APPEND-PER-LINE",
        "in each `_apply` loop over the input lines every path through the body appends exactly one element to the output list, "
        "and that element is the line itself or `_apply_regex(line)`; in the SAST variant the substitution happens only under "
        "line_matches_result",
        min_instances=2,
    )
    for q in (REGEX_MOD + ".RegexTransformerPipeline._apply", REGEX_MOD + ".SastRegexTransformerPipeline._apply"):
        fn = ctx.prog.func(q)
        pp_ = fn.positional_params()
        lines_param = pp_[1] if len(pp_) > 1 else "original_lines"
        loops = [n for n in walk_no_nested(fn.node) if isinstance(n, ast.For) and lines_param in names_in(n.iter)]
        if not loops:
            ok1, ok2, why = _comprehension_form(ctx, fn, lines_param)
            rep.check("R-ONE-APPEND-PER-LINE", q, fn.loc(), ok1, "one-append", why or "the output lines are not one (possibly substituted) line per input line")
            rep.check("R-ONE-APPEND-PER-LINE", q, fn.loc(), ok2, "change-iff-edited", why or "a Change is not recorded exactly for the lines whose substitution differs")
            continue
        lp = loops[0]
        # loop var for the line
        line_var = None
        if isinstance(lp.target, ast.Tuple) and len(lp.target.elts) == 2 and isinstance(lp.target.elts[1], ast.Name):
            line_var = lp.target.elts[1].id
        elif isinstance(lp.target, ast.Name):
            line_var = lp.target.id
        appends = []
        r = ctx.resolver(fn)

        def ev(call, _appends=appends):
            if last_attr(call.func) == "append" and isinstance(call.func, ast.Attribute) and "lines" in unparse(call.func.value):
                _appends.append(call)
                return "EV:append"
            return None

        # count appends per path: run twice with must/may and additionally detect double appends by a second event
        fa = FlowAnalysis(lp, ev, body=lp.body)
        seen = {}
        for c in appends:
            seen[id(c)] = c
        appends = list(seen.values())
        exits_ok = True
        loop_frame_states = []
        # every way of finishing an iteration: normal end + continue; FlowAnalysis over a bare body records `continue`
        # nowhere, so analyse exits by wrapping: treat Continue as end by scanning states at Continue statements
        ends = [e.state for e in fa.exits if e.kind == "end"]
        for st in ast.walk(lp):
            if isinstance(st, ast.Continue) and fa.state_at(st) is not None:
                ends.append(fa.state_at(st))
        one_on_all = all(has_event(s, "EV:append") for s in ends) and bool(ends)
        # no path with two appends: each append must be reached in a state where no append may have happened yet
        double = [c for c in appends if fa.state_at(c) is not None and may_event(fa.state_at(c), "EV:append")]
        # appended values
        vals_ok = True
        bad_val = None
        for c in appends:
            v = r.expand(c.args[0]) if c.args else None
            is_line = isinstance(c.args[0], ast.Name) and c.args[0].id == line_var
            is_sub = _is_substitution(v, line_var)
            if not (is_line or is_sub):
                vals_ok = False
                bad_val = c
        removals = [
            c for c in ast.walk(lp)
            if isinstance(c, ast.Call) and last_attr(c.func) in ("pop", "remove", "clear") and isinstance(c.func, ast.Attribute) and "lines" in unparse(c.func.value)
        ] + [d for d in ast.walk(lp) if isinstance(d, ast.Delete)]
        ok = one_on_all and not double and vals_ok and not removals
        why = []
        if removals:
            why.append("the output list is shrunk inside the loop (a line is dropped)")
        if not one_on_all:
            why.append("some path through the loop body appends nothing (a line is dropped)")
        if double:
            why.append("some path appends twice (a line is duplicated)")
        if not vals_ok:
            why.append(f"`{unparse(bad_val)}` appends something other than the line or its substitution")
        rep.check("R-ONE-APPEND-PER-LINE", q, fn.loc(lp), ok, "one-append", "; ".join(why), appends=len(appends))
        # one change per *edit*: a Change is recorded exactly when the substituted line differs from the original one
        fa_l = FlowAnalysis(lp, body=lp.body)
        change_calls = [c for c in walk_no_nested(lp) if isinstance(c, ast.Call) and (last_attr(c.func) or "") == "Change"]
        sub_names = {t.id for a in walk_no_nested(lp) if isinstance(a, ast.Assign) and _is_substitution(a.value, line_var) for t in a.targets if isinstance(t, ast.Name)}

        def differs(must) -> bool | None:
            """True: line != substituted known; False: known equal; None: unknown"""
            for pol, txt in must:
                try:
                    e = ast.parse(txt, mode="eval").body
                except SyntaxError:
                    continue
                if isinstance(e, ast.Compare) and len(e.ops) == 1 and isinstance(e.ops[0], ast.Eq):
                    sides = {unparse(e.left), unparse(e.comparators[0])}
                    if line_var in sides and (sides - {line_var}) <= sub_names and len(sides) == 2:
                        return not pol
            return None

        ok_c = bool(change_calls)
        why_c = "no Change(...) recorded in the loop"
        for c in change_calls:
            st = fa_l.state_at(c)
            for must, _may in (st.parts if st is not None else []):
                if differs(must) is not True:
                    ok_c = False
                    why_c = f"`{unparse(c)[:50]}` is recorded on a path where the line is not known to differ from its substitution (a change entry for an unedited line)"
        rep.check("R-ONE-APPEND-PER-LINE", q, fn.loc(change_calls[0]) if change_calls else fn.loc(lp), ok_c, "change-iff-edited", why_c)
        if "Sast" in q:
            # substitution only under line_matches_result
            subs = [c for c in walk_no_nested(lp) if _is_substitution(c, line_var)]
            fa2 = ctx.flow(fn)
            ok2 = bool(subs) and all(
                any(pol and isinstance(e, ast.Call) and last_attr(e.func) == "line_matches_result" for pol, e in fact_exprs(fa2.must_at(c)))
                for c in subs
            )
            rep.check("R-ONE-APPEND-PER-LINE", q, fn.loc(subs[0]) if subs else fn.loc(), ok2, "sast-gate",
                      "the SAST regex pipeline substitutes on a line that is not gated by line_matches_result (lines without a finding are edited)")


def _comprehension_form(ctx, fn: FuncInfo, lines_param: str):
    """The loop-free spelling: `updated = [sub(line) for line in lines]` and `changes = [Change(..) for i, (line, new) in
    enumerate(zip(lines, updated)) if line != new]`.  -> (one output line per input line, change iff edited, why not)"""
    r = ctx.resolver(fn)
    updated_name = None
    for a in walk_no_nested(fn.node):
        if isinstance(a, ast.Assign) and len(a.targets) == 1 and isinstance(a.targets[0], ast.Name) and isinstance(a.value, ast.ListComp):
            c = a.value
            if len(c.generators) == 1 and not c.generators[0].ifs and isinstance(c.generators[0].target, ast.Name) \
                    and isinstance(c.generators[0].iter, ast.Name) and c.generators[0].iter.id == lines_param:
                v = c.generators[0].target.id
                if (isinstance(c.elt, ast.Name) and c.elt.id == v) or _is_substitution(c.elt, v):
                    updated_name = a.targets[0].id
    if updated_name is None:
        return False, False, "no list built with one (substituted) element per input line"
    rets = [x.value for x in walk_no_nested(fn.node) if isinstance(x, ast.Return) and x.value is not None]
    returned = bool(rets) and all(updated_name in names_in(v) for v in rets)
    stores = [c for c in walk_no_nested(fn.node) if isinstance(c, ast.Call) and isinstance(c.func, ast.Attribute) and isinstance(c.func.value, ast.Name)
              and c.func.value.id == updated_name and c.func.attr in ("append", "extend", "insert", "pop", "remove", "clear")]
    ok1 = returned and not stores
    ok2 = False
    why = ""
    for c in walk_no_nested(fn.node):
        if isinstance(c, ast.ListComp) and isinstance(c.elt, ast.Call) and (last_attr(c.elt.func) or "") == "Change" and len(c.generators) == 1:
            g = c.generators[0]
            it = g.iter
            while isinstance(it, ast.Call) and isinstance(it.func, ast.Name) and it.func.id in ("enumerate", "list") and it.args:
                it = it.args[0]
            it = r.expand(it) if isinstance(it, ast.Name) else it
            pair = None
            if isinstance(it, ast.Call) and isinstance(it.func, ast.Name) and it.func.id == "zip" and len(it.args) == 2 and all(isinstance(x, ast.Name) for x in it.args):
                if [x.id for x in it.args] == [lines_param, updated_name]:
                    names = [x.id for x in ast.walk(g.target) if isinstance(x, ast.Name)]
                    pair = names[-2:] if len(names) >= 2 else None
            differs = pair is not None and any(
                isinstance(f, ast.Compare) and len(f.ops) == 1 and isinstance(f.ops[0], ast.NotEq) and {unparse(f.left), unparse(f.comparators[0])} == set(pair) for f in g.ifs)
            ok2 = differs and len(g.ifs) == 1
            if not ok2:
                why = "the Change entries are not filtered by `line != substituted line` over zip(input lines, output lines)"
    return ok1, ok2, why


def _is_substitution(v, line_var: str) -> bool:
    """A regex substitution applied to the current line: re.sub(p, r, line) / <pattern>.sub(r, line) / a helper taking the line."""
    if not isinstance(v, ast.Call):
        return False
    takes_line = any(isinstance(a, ast.Name) and a.id == line_var for a in list(v.args) + [k.value for k in v.keywords])
    name = last_attr(v.func) or ""
    return takes_line and (name in ("sub", "subn") or "regex" in name or "replace" in name.lower() and isinstance(v.func, ast.Attribute) and unparse(v.func.value) == "self")


def _sub_of(v, param: str) -> bool:
    """re.sub(p, r, <param>[, ...]) / <compiled>.sub(r, <param>) with the bare parameter as the subject string"""
    if not (isinstance(v, ast.Call) and last_attr(v.func) == "sub"):
        return False
    kw = next((k.value for k in v.keywords if k.arg == "string"), None)
    if kw is not None:
        subj = kw
    else:
        is_module_fn = isinstance(v.func, ast.Attribute) and isinstance(v.func.value, ast.Name) and v.func.value.id == "re"
        idx = 2 if is_module_fn else 1
        subj = v.args[idx] if len(v.args) > idx else None
    return isinstance(subj, ast.Name) and subj.id == param


def rule_no_match_identity(ctx, rep):
    rep.rule(
        "R-NO-MATCH-IDENTITY",
        "the per-line substitution helpers of the regex pipelines return either their argument itself or the result of one regex `sub` whose "
        "subject is that very argument: any other string operation on the line (strip and re-append of the terminator, case folding, "
        "normalisation) alters lines the pattern does not match -- they are then written and reported as changes",
        min_instances=1,
    )
    m = ctx.prog.module(REGEX_MOD)
    n = 0
    for fn in [f for f in ctx.prog.live_functions() if f.module is m and f.cls is not None]:
        # a helper is a method that one of the `_apply` loops calls with the current line
        if fn.name in ("_apply", "apply", "__init__"):
            continue
        pp = fn.positional_params()
        if len(pp) != 2:
            continue
        called_with_line = False
        for ap in [f for f in ctx.prog.live_functions() if f.module is m and f.name == "_apply"]:
            for c in walk_no_nested(ap.node):
                if isinstance(c, ast.Call) and isinstance(c.func, ast.Attribute) and c.func.attr == fn.name and len(c.args) == 1:
                    called_with_line = True
        if not called_with_line:
            continue
        r = ctx.resolver(fn)
        rets = [x for x in walk_no_nested(fn.node) if isinstance(x, ast.Return)]
        bad = None
        for x in rets:
            v = x.value
            if isinstance(v, ast.Name) and v.id != pp[1]:
                v = r.expand(v)
            if v is None or not ((isinstance(v, ast.Name) and v.id == pp[1]) or _sub_of(v, pp[1])):
                bad = x
        # the parameter itself must not be rebound before the substitution
        rebinds = [a for a in walk_no_nested(fn.node) if isinstance(a, (ast.Assign, ast.AugAssign)) and any(isinstance(t, ast.Name) and t.id == pp[1] for t in (a.targets if isinstance(a, ast.Assign) else [a.target]))]
        n += 1
        rep.check("R-NO-MATCH-IDENTITY", fn.qname, fn.loc(bad or (rebinds[0] if rebinds else None)), bool(rets) and bad is None and not rebinds, "returns-line-or-sub-of-line",
                  f"`{unparse(bad or rebinds[0])[:70]}`: the helper does not return the line or one substitution over the unmodified line" if (bad or rebinds) else "no return")
    if n == 0:
        # the substitution is written inline in the loops: R-ONE-APPEND-PER-LINE judges the appended value itself
        rep.instance("R-NO-MATCH-IDENTITY", REGEX_MOD, "src/codemodder/codemods/regex_transformer.py:1", True, detail="no per-line helper: substitution is inline")


SAX_LEXICAL = {"comment", "startDTD", "endDTD", "processingInstruction", "startCDATA", "endCDATA", "skippedEntity", "ignorableWhitespace", "startEntity", "endEntity"}


def rule_xml_verbatim(ctx, rep):
    rep.rule(
        "R-XML-VERBATIM",
        "the SAX callbacks of XMLTransformer that re-emit constructs other than elements (comments, DOCTYPE, processing instructions, CDATA "
        "delimiters, CDATA content) pass their string parameters into the written text verbatim: no call transforms them (escape, quoteattr, "
        "replace, strip, ...) -- none of these constructs recognises character or entity references, so an escaped `&` or `<` is a "
        "different document",
        min_instances=2,
    )
    m = ctx.prog.module(XML_MOD)
    n = 0
    for fn in [f for f in ctx.prog.live_functions() if f.module is m and f.cls is not None and XMLT in ctx.prog.mro(f.cls.qname)]:
        cdata_chars = fn.name == "characters"
        if fn.name not in SAX_LEXICAL and not cdata_chars:
            continue
        params = set(fn.positional_params()[1:])
        if not params:
            continue
        # names carrying (a piece of) a parameter
        tainted = set(params)
        changed = True
        while changed:
            changed = False
            for a in walk_no_nested(fn.node):
                if isinstance(a, ast.Assign) and names_in(a.value) & tainted:
                    for t in a.targets:
                        if isinstance(t, ast.Name) and t.id not in tainted:
                            tainted.add(t.id)
                            changed = True
        fa = ctx.flow(fn) if cdata_chars else None
        bad = None
        for c in walk_no_nested(fn.node):
            if not isinstance(c, ast.Call):
                continue
            la = last_attr(c.func)
            is_write = isinstance(c.func, ast.Attribute) and unparse(c.func.value) == "self" and la in ("_write", "write")
            is_super = isinstance(c.func, ast.Attribute) and isinstance(c.func.value, ast.Call) and call_name(c.func.value) == "super"
            is_plain = isinstance(c.func, ast.Name) and c.func.id in ("str", "len", "isinstance", "bool")
            is_log = isinstance(c.func, ast.Attribute) and unparse(c.func.value) in ("logger", "logging")
            recv_tainted = isinstance(c.func, ast.Attribute) and bool(names_in(c.func.value) & tainted) and not is_super
            args_tainted = any(names_in(a) & tainted for a in list(c.args) + [k.value for k in c.keywords])
            if cdata_chars and is_super:
                continue  # outside CDATA the inherited characters() escapes, rightly (judged by R-CDATA-STATE)
            # embedding a piece verbatim into a larger text: "sep".join(pieces), "...{}".format(x), pieces.append(x)
            is_embed = la in ("join", "format", "append", "extend") and isinstance(c.func, ast.Attribute)
            if is_embed and la in ("join", "format") and not isinstance(c.func.value, (ast.Constant, ast.JoinedStr)):
                is_embed = False
            if (recv_tainted and not (is_embed and la in ("append", "extend"))) or (args_tainted and not (is_write or is_super or is_plain or is_log or is_embed)):
                bad = c
                break
        n += 1
        rep.check("R-XML-VERBATIM", fn.qname, fn.loc(bad), bad is None, "parameters-verbatim",
                  f"`{unparse(bad)[:70]}` transforms what the parser reported before it is written back: the construct is re-emitted with other content" if bad is not None else "")
    if n < 2:
        raise AnalysisError("XMLTransformer no longer overrides the lexical SAX callbacks (comment / startDTD): how they are re-emitted is not understood")


def rule_cdata_state(ctx, rep):
    rep.rule(
        "R-CDATA-STATE",
        "XMLTransformer writes the CDATA delimiters itself in startCDATA/endCDATA; therefore its characters() must consult a flag "
        "that startCDATA sets and endCDATA clears, and must not escape content while it is set",
        min_instances=1,
    )
    c = ctx.prog.cls(XMLT)
    start, end, chars = c.methods.get("startCDATA"), c.methods.get("endCDATA"), c.methods.get("characters")
    emits = start is not None and any(isinstance(n, ast.Constant) and isinstance(n.value, str) and "CDATA[" in n.value for n in ast.walk(start.node))
    if not emits:
        rep.instance("R-CDATA-STATE", XMLT, c.loc(), True, detail="handler does not emit CDATA delimiters itself")
        return

    def self_attrs_assigned(fn, value: bool | None = None):
        out = set()
        if fn is None:
            return out
        for n in walk_no_nested(fn.node):
            if isinstance(n, ast.Assign):
                for t in n.targets:
                    if isinstance(t, ast.Attribute) and isinstance(t.value, ast.Name) and t.value.id == "self":
                        if value is None or (isinstance(n.value, ast.Constant) and bool(n.value.value) is value):
                            out.add(t.attr)
        return out

    flags = self_attrs_assigned(start, True) & self_attrs_assigned(end, False)
    reads = set()
    raw_write = False
    if chars is not None:
        fa = ctx.flow(chars)
        for n in walk_no_nested(chars.node):
            if isinstance(n, ast.Attribute) and isinstance(n.value, ast.Name) and n.value.id == "self" and isinstance(n.ctx, ast.Load):
                reads.add(n.attr)
            # an unescaped write under the flag
            if isinstance(n, ast.Call) and last_attr(n.func) in ("_write", "write", "ignorableWhitespace"):
                if any(pol and isinstance(e, ast.Attribute) and e.attr in flags for pol, e in fact_exprs(fa.must_at(n))):
                    raw_write = True
    ok = bool(flags & reads) and raw_write
    rep.check("R-CDATA-STATE", XMLT + ".characters", (chars or c).loc(), ok, "cdata-flag",
              "startCDATA/endCDATA write `<![CDATA[`/`]]>` verbatim but characters() escapes unconditionally: "
              "`<![CDATA[a<b]]>` is rewritten to `<![CDATA[a&lt;b]]>` (content changed)")


def _optional_params(fn: FuncInfo) -> set[str]:
    out = set()
    a = fn.node.args
    for p in a.posonlyargs + a.args + a.kwonlyargs:
        ann = p.annotation
        if ann is None:
            continue
        t = unparse(ann)
        if "None" in t or "Optional" in t:
            out.add(p.arg)
    return out


def rule_optional_format(ctx, rep):
    rep.rule(
        "R-OPTIONAL-FORMAT",
        "in the SAX handlers of xml_transformer a parameter annotated Optional / `| None` is interpolated into written text only "
        "under a dominating `is None` / `is not None` / truthiness test of that parameter",
        min_instances=1,
    )
    m = ctx.prog.module(XML_MOD)
    n_checked = 0
    for fn in [f for f in ctx.prog.live_functions() if f.module is m and f.cls is not None]:
        opt = _optional_params(fn)
        if not opt:
            continue
        fa = ctx.flow(fn)
        for n in walk_no_nested(fn.node):
            if isinstance(n, ast.JoinedStr):
                used = {x.id for fv in n.values if isinstance(fv, ast.FormattedValue) for x in ast.walk(fv.value) if isinstance(x, ast.Name)} & opt
                # only text that is emitted (argument of a write-like call)
                par = ctx.parents(fn).get(id(n))
                if not (isinstance(par, ast.Call) and last_attr(par.func) in ("_write", "write")):
                    continue
                for p in sorted(used):
                    n_checked += 1
                    must = fa.must_at(n)
                    tested = any(
                        (isinstance(e, ast.Name) and e.id == p and pol)
                        or (isinstance(e, ast.Compare) and p in names_in(e) and any(isinstance(c, ast.Constant) and c.value is None for c in e.comparators))
                        for pol, e in fact_exprs(must)
                    )
                    rep.check("R-OPTIONAL-FORMAT", fn.qname, fn.loc(n), tested, f"{p}",
                              f"Optional parameter `{p}` is formatted into emitted text `{unparse(n)[:60]}` without a None test: "
                              "`<!DOCTYPE root>` is rewritten to `<!DOCTYPE root PUBLIC 'None' 'None'>`")
    if n_checked == 0:
        rep.instance("R-OPTIONAL-FORMAT", XML_MOD, "src/codemodder/codemods/xml_transformer.py:1", True, detail="no Optional parameter is interpolated into emitted text")


def rule_raw_write_flush(ctx, rep):
    rep.rule(
        "R-RAW-WRITE-FLUSH",
        "SAX handlers of XMLTransformer that write markup directly (self._write) bypass XMLGenerator's pending start tag: either they "
        "flush it first (_finish_pending_start_element) or no construction site enables short_empty_elements (with it, a comment/CDATA "
        "right after a start tag is written inside the tag)",
        min_instances=2,
    )
    c = ctx.prog.cls(XMLT)
    raw = []
    for cq in [XMLT] + sorted(ctx.prog.all_subclasses(XMLT)):
        for name, m in ctx.prog.classes[cq].methods.items():
            calls = {last_attr(x.func) for x in walk_no_nested(m.node) if isinstance(x, ast.Call)}
            if "_write" in calls and "_finish_pending_start_element" not in calls:
                raw.append(m)
    if not raw:
        rep.instance("R-RAW-WRITE-FLUSH", XMLT, c.loc(), True, detail="every raw-writing handler flushes the pending start tag")
        return
    # defaults and construction sites
    n = 0
    for cq in [XMLT] + sorted(ctx.prog.all_subclasses(XMLT)):
        init = ctx.prog.classes[cq].methods.get("__init__")
        if init is None:
            continue
        a = init.node.args
        names = [x.arg for x in a.args]
        if "short_empty_elements" in names:
            idx = names.index("short_empty_elements") - (len(names) - len(a.defaults))
            d = a.defaults[idx] if 0 <= idx < len(a.defaults) else None
            n += 1
            ok = isinstance(d, ast.Constant) and d.value is False
            rep.check("R-RAW-WRITE-FLUSH", init.qname, init.loc(), ok, "default",
                      f"short_empty_elements defaults to `{unparse(d) if d is not None else '?'}` while {', '.join(m.name for m in raw[:4])} write markup without flushing the pending start tag")
    for fn in ctx.prog.live_functions():
        if not fn.module.name.startswith(("codemodder.", "core_codemods.")):
            continue
        for call in walk_no_nested(fn.node):
            if isinstance(call, ast.Call):
                kw = next((k for k in call.keywords if k.arg == "short_empty_elements"), None)
                if kw is None:
                    continue
                if isinstance(call.func, ast.Attribute) and last_attr(call.func) == "__init__":
                    continue  # forwarding to the base constructor
                n += 1
                ok = isinstance(kw.value, ast.Constant) and kw.value.value is False or (isinstance(kw.value, ast.Name) and kw.value.id == "short_empty_elements")
                rep.check("R-RAW-WRITE-FLUSH", fn.qname, fn.loc(call), ok, "construction-site",
                          f"`{unparse(call)[:60]}` enables short_empty_elements although {', '.join(m.name for m in raw[:4])} write raw markup: "
                          "`<a><!-- c --></a>` is emitted as `<a<!-- c -->\n>`")
    if n < 2:
        raise AnalysisError("short_empty_elements parameter of the XML transformers not found")


def rule_shared(ctx, rep):
    """Re-evaluate the shared rules restricted to the two pipelines (their verdicts belong to C19 too)."""
    from ..report import Report
    from . import c03, c04, c10

    for mod, rules in ((c10, ("rule_fail_isolated",)), (c03, ("rule_diff_write", "rule_changeset_iff_write")), (c04, ("rule_guard",))):
        sub = Report(rep.prop, rep.tier, quiet=True)
        for rn in rules:
            getattr(mod, rn)(ctx, sub)
        for i in sub.instances:
            if "regex_transformer" in i["construct"] or "xml_transformer" in i["construct"]:
                rep.instances.append(i)
                rr = rep.rules_run.setdefault(i["rule"], {"statement": sub.rules_run[i["rule"]]["statement"], "instances": 0, "violations": 0})
                rr["instances"] += 1
        for f in sub.findings:
            if "regex_transformer" in f.construct or "xml_transformer" in f.construct:
                rep.violation(f.rule, f.construct, f.detail, f.where, f.message, f.path)


def rule_result_driven(ctx, rep, rule_id="R-RESULT-DRIVEN"):
    rep.rule(
        rule_id,
        "in the XML transformer an event is accepted *without looking at any result location* only when the transformer is not result-driven "
        "at all, i.e. under the identity fact `self.results is None`; a truthiness test (of the results or of an index built from them) also "
        "accepts everything for an *empty* result list, and every named element of a file that carries no finding is edited and reported",
        min_instances=1,
    )
    n = 0
    for cls in ctx.prog.classes.values():
        if cls.module.name != "codemodder.codemods.xml_transformer":
            continue
        for m in cls.methods.values():
            if m.name in ("__init__",) or not any(isinstance(x, ast.Attribute) and x.attr in ("results",) or (isinstance(x, ast.Attribute) and x.attr.startswith("_result")) for x in walk_no_nested(m.node)):
                continue
            fa = ctx.flow(m)
            for ex in fa.exits:
                if ex.kind != "return" or not (isinstance(ex.value, ast.Constant) and ex.value.value is True):
                    continue
                for must, _may in ex.state.parts:
                    texts = {(pol, txt) for pol, txt in must if not txt.startswith(("EV:", "ITER:", "MATCH:"))}
                    compares_location = any("location" in txt or ".start.line" in txt for _p, txt in texts)
                    if compares_location:
                        continue
                    n += 1
                    ok = (True, "self.results is None") in texts
                    rep.check(rule_id, m.qname, m.loc(ex.node) if getattr(ex, "node", None) is not None else m.loc(), ok, "accept-all",
                              f"`return True` is reached under {sorted(t for _p, t in texts) or 'no condition'} without comparing a result location and without the fact "
                              "`self.results is None`: an empty result list makes every event match")
    if n < 1:
        raise AnalysisError("xml_transformer: no accept-all exit depending on the results found (XMLTransformer.match_result confirmed by hand)")


def check(ctx, rep):
    rep.explanation = (
        "The two plugin pipelines are small enough to decide structurally: line bookkeeping (AST equality of the two line "
        "expressions), exactly-one-append per loop path (must/may event analysis), the SAX handler's CDATA/DTD emission, plus the "
        "shared failure-isolation / dry-run / diff-agreement rules restricted to these classes."
    )
    rule_line_index(ctx, rep)
    from .c06 import rule_findings_lookup

    rule_findings_lookup(ctx, rep)
    rule_one_append(ctx, rep)
    rule_cdata_state(ctx, rep)
    rule_xml_verbatim(ctx, rep)
    rule_no_match_identity(ctx, rep)
    rule_optional_format(ctx, rep)
    rule_raw_write_flush(ctx, rep)
    rule_result_driven(ctx, rep)
    from .c03 import rule_line_unit

    rule_line_unit(ctx, rep)
    rule_shared(ctx, rep)
    from .c09 import rule_no_shared_mutable_default

    rule_no_shared_mutable_default(ctx, rep)
    from .c03 import rule_codec_agree

    rule_codec_agree(ctx, rep)
    rep.not_covered += ["XML infoset equality through expat / XMLGenerator", "locator column arithmetic", "byte identity of untouched lines beyond 'the line itself is appended'"]
