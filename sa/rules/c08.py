"""C08 — refactoring codemods preserve program behaviour (structural necessary conditions at the named anchors).

R-BOOLOP-OR       every BooleanOperation matcher taking part in a combine-calls fold constrains operator=Or (outer and nested)
R-PAREN-SAFE      an expression hook that returns a freshly constructed non-atomic expression carries over lpar/rpar
R-ARGS-PRESERVED  a refactoring hook that rebuilds a call's argument list keeps every argument it does not replace
R-INVERT-TABLE    the comparison inversion covers all ten operators or leaves the node alone, pairs each with its negation,
                  and is applied only to single comparisons
"""
from __future__ import annotations

import ast

from ..argsrule import rule_args_preserved
from ..flow import fact_exprs
from ..model import AnalysisError, FuncInfo, call_name, last_attr, names_in, unparse, walk_no_nested

COMBINE = "core_codemods.combine_calls_base.CombineCallsBaseCodemod"
INVERT = "core_codemods.invert_boolean_check.InvertedBooleanCheckTransformer"
# libcst expression classes that are not atomic w.r.t. operator precedence (need their own parentheses in some contexts)
NONATOMIC = {"BooleanOperation", "Comparison", "UnaryOperation", "BinaryOperation", "IfExp", "Lambda", "NamedExpr", "Await", "Yield", "GeneratorExp"}
EXPR_HOOK_NODES = {
    "leave_BooleanOperation", "leave_Comparison", "leave_UnaryOperation", "leave_BinaryOperation", "leave_Call", "leave_IfExp",
    "leave_Name", "leave_Attribute", "leave_Subscript", "leave_NamedExpr", "leave_ConcatenatedString", "leave_FormattedString",
    "leave_SimpleString", "leave_Tuple", "leave_List", "leave_Set", "leave_Dict", "leave_Lambda", "leave_Await",
}
NEGATION = {
    "Equal": "NotEqual", "NotEqual": "Equal", "LessThan": "GreaterThanEqual", "GreaterThanEqual": "LessThan",
    "GreaterThan": "LessThanEqual", "LessThanEqual": "GreaterThan", "In": "NotIn", "NotIn": "In", "Is": "IsNot", "IsNot": "Is",
}
REFACTORING = [
    "pixee:python/use-generator", "pixee:python/use-set-literal", "pixee:python/use-walrus-if", "pixee:python/combine-startswith-endswith",
    "pixee:python/combine-isinstance-issubclass", "pixee:python/remove-unnecessary-f-str", "pixee:python/unused-imports",
    "pixee:python/order-imports", "pixee:python/remove-future-imports", "pixee:python/fix-deprecated-abstractproperty",
    "pixee:python/fix-deprecated-logging-warn", "pixee:python/lazy-logging", "pixee:python/invert-boolean-check",
    "pixee:python/fix-hasattr-call", "pixee:python/fix-file-resource-leak", "pixee:python/bad-lock-with-statement",
    "pixee:python/remove-module-global", "pixee:python/sql-parameterization", "pixee:python/numpy-nan-equality",
    "pixee:python/fix-empty-sequence-comparison", "pixee:python/literal-or-new-object-identity", "pixee:python/str-concat-in-sequence-literals",
    "pixee:python/fix-assert-tuple", "pixee:python/fix-float-equality", "pixee:python/remove-assertion-in-pytest-raises",
    "pixee:python/exception-without-raise", "pixee:python/fix-mutable-params", "pixee:python/remove-debug-breakpoint",
]


def rule_boolop_or(ctx, rep):
    rep.rule(
        "R-BOOLOP-OR",
        "in the combine-calls fold every m.BooleanOperation(...) matcher — the outer one and the nested ones describing the operand "
        "being folded — constrains operator=m.Or(): folding `a.f(x) or a.f(y) and c` regroups across `and`",
        min_instances=5,
    )
    c = ctx.prog.cls(COMBINE)
    n = 0
    for m in c.methods.values():
        for call in walk_no_nested(m.node):
            if isinstance(call, ast.Call) and unparse(call.func) in ("m.BooleanOperation", "matchers.BooleanOperation"):
                n += 1
                op = next((k.value for k in call.keywords if k.arg == "operator"), None)
                ok = op is not None and isinstance(op, ast.Call) and last_attr(op.func) == "Or"
                nested = isinstance(ctx.parents(m).get(id(call)), ast.keyword)
                rep.check("R-BOOLOP-OR", m.qname, m.loc(call), ok, ("nested:" if nested else "outer:") + unparse(call)[:40],
                          f"matcher `{unparse(call)[:70]}` accepts any boolean operator: `s.startswith('a') or s.startswith('z') and flag` "
                          "is folded to `s.startswith(('a','z')) and flag` (different truth table)")
    if n < 5:
        raise AnalysisError("combine_calls_base BooleanOperation matchers not found")


def _fresh_ctor(ctx, fn: FuncInfo, v: ast.expr, depth: int = 3):
    """If v is (a local bound to) a direct libcst node construction, return the constructor call."""
    r = ctx.resolver(fn)
    if depth <= 0:
        return None
    if isinstance(v, ast.Name):
        sa = r.single_assignments()
        if v.id in sa:
            return _fresh_ctor(ctx, fn, sa[v.id], depth - 1)
        return None
    if isinstance(v, ast.Call):
        f = unparse(v.func)
        if f.startswith("cst.") and f.split(".")[-1][:1].isupper():
            return v
        if f.split(".")[-1] in NONATOMIC and f.split(".")[-1][:1].isupper():
            return v
        if last_attr(v.func) == "with_changes":
            return None
    return None


def rule_paren_safe(ctx, rep):
    rep.rule(
        "R-PAREN-SAFE",
        "every expression hook (leave_<Expr>, or a helper whose return value it returns) of a refactoring codemod that returns a freshly "
        "constructed non-atomic libcst expression passes lpar/rpar (the replaced node's own parentheses would otherwise be lost and the "
        "surrounding expression regrouped)",
        min_instances=4,
    )
    reg = ctx.registry
    seen = set()
    n = 0
    for cid in REFACTORING:
        cm = next((c for c in reg.codemods if c.id == cid), None)
        if cm is None:
            continue
        for tq in cm.transformers:
            if tq not in ctx.prog.classes:
                continue
            tm = ctx.tmodel(tq)
            for e in tm.effects():
                if e.kind != "return-change" or e.method.qname + str(e.node.lineno) in seen:
                    continue
                seen.add(e.method.qname + str(e.node.lineno))
                # which hook does this return feed?  only expression hooks matter
                hooks = {m.name for _, m in tm.all_methods() if m.name in EXPR_HOOK_NODES}
                if e.method.name.startswith("leave_") and e.method.name not in EXPR_HOOK_NODES:
                    continue
                if not hooks:
                    continue
                # every alternative of a conditional return is a value the hook can hand back
                alts = [e.node.value]
                k = 0
                while k < len(alts):
                    if isinstance(alts[k], ast.IfExp):
                        alts += [alts[k].body, alts[k].orelse]
                    k += 1
                for alt in alts:
                    if isinstance(alt, ast.IfExp):
                        continue
                    ctor = _fresh_ctor(ctx, e.method, alt)
                    if ctor is None:
                        continue
                    cls_name = unparse(ctor.func).split(".")[-1]
                    if cls_name not in NONATOMIC:
                        continue
                    n += 1
                    kws = {k_.arg for k_ in ctor.keywords}
                    ok = {"lpar", "rpar"} <= kws
                    rep.check("R-PAREN-SAFE", tq, e.method.loc(alt), ok, f"{e.method.name}:{cls_name}",
                              f"returns a fresh `{cls_name}` without lpar/rpar in place of a node that may be parenthesised: "
                              "e.g. `not (flag or s.startswith('a') or s.startswith('b'))` becomes `not flag or s.startswith(('a','b'))`, "
                              "`(x == []) * 3` becomes `not x * 3`")
    if n < 3:
        raise AnalysisError(f"only {n} fresh non-atomic expression returns found in refactoring codemods")


def _cls_tail(e) -> str | None:
    if isinstance(e, ast.Call):
        e = e.func
    if isinstance(e, (ast.Name, ast.Attribute)):
        return unparse(e).split(".")[-1]
    return None


def class_table(ctx, fn: FuncInfo, e: ast.expr):
    """`TABLE.get(type(x)[, d])` / `TABLE[type(x)]` with TABLE a module- or class-level dict literal of classes -> {key: value}."""
    r = ctx.resolver(fn)
    e = r.expand(e)
    if isinstance(e, ast.NamedExpr):
        e = e.value
    tbl = None
    if isinstance(e, ast.Call) and isinstance(e.func, ast.Attribute) and e.func.attr == "get" and e.args:
        tbl = e.func.value
    elif isinstance(e, ast.Subscript):
        tbl = e.value
    if tbl is None:
        return None
    val = None
    if isinstance(tbl, ast.Name):
        val = fn.module.constants.get(tbl.id)
    elif isinstance(tbl, ast.Attribute) and isinstance(tbl.value, ast.Name) and tbl.value.id in ("self", "cls") and fn.cls is not None:
        hit = ctx.prog.lookup_attr(fn.cls.qname, tbl.attr)
        val = hit[1] if hit else None
    if not isinstance(val, ast.Dict):
        return None
    out = {}
    for k, v in zip(val.keys, val.values):
        kt, vt = _cls_tail(k), _cls_tail(v)
        if kt is None or vt is None:
            return None
        out[kt] = vt
    return out


def operator_mapping(ctx, fn: FuncInfo):
    """The operator -> operator mapping a function implements, whichever way it is written: a `match` over operator classes, an
    isinstance chain, or a class-keyed dict.  -> (table {OpClass: OpClass}, unknown operators are left alone?)"""
    table: dict[str, str] = {}
    default_keeps = None
    for mt in [n for n in walk_no_nested(fn.node) if isinstance(n, ast.Match)]:
        for case in mt.cases:
            pat = case.pattern
            val = None
            for st in case.body:
                if isinstance(st, (ast.Assign, ast.Return)):
                    val = st.value
            if isinstance(pat, ast.MatchClass):
                k = unparse(pat.cls).split(".")[-1]
                v = unparse(val.func).split(".")[-1] if isinstance(val, ast.Call) else unparse(val) if val is not None else None
                table[k] = v
            elif isinstance(pat, ast.MatchAs) and pat.pattern is None:
                default_keeps = val is None or (isinstance(val, ast.Constant) and val.value is None) or (isinstance(val, ast.Attribute) and val.attr == "operator")
    # isinstance chain:  if isinstance(op, cst.Equal): new = cst.NotEqual()
    for st in walk_no_nested(fn.node):
        if isinstance(st, ast.If) and isinstance(st.test, ast.Call) and call_name(st.test) == "isinstance" and len(st.test.args) == 2:
            k = _cls_tail(st.test.args[1])
            vals = [x.value for x in st.body if isinstance(x, (ast.Assign, ast.Return))]
            if k and vals and isinstance(vals[-1], ast.Call):
                table[k] = _cls_tail(vals[-1])
    # class-keyed dict:  inverse = TABLE.get(type(op));  if inverse is None: return None;  ... inverse()
    fa = ctx.flow(fn)
    for n in walk_no_nested(fn.node):
        if isinstance(n, (ast.Assign, ast.AnnAssign)) and n.value is not None:
            t = class_table(ctx, fn, n.value)
            if t is None:
                continue
            table.update(t)
            tg = n.targets[0] if isinstance(n, ast.Assign) else n.target
            if isinstance(tg, ast.Name):
                # unknown operator -> the looked-up class is None: every use of it as a constructor must be under `is not None`,
                # and the `is None` path must leave the comparison alone (return None / the original)
                uses = [c for c in walk_no_nested(fn.node) if isinstance(c, ast.Call) and isinstance(c.func, ast.Name) and c.func.id == tg.id]
                guarded = all(all((False, f"{tg.id} is None") in must or (True, tg.id) in must for must, _ in (fa.state_at(c).parts if fa.state_at(c) else [])) for c in uses)
                subscript = isinstance(ctx.resolver(fn).expand(n.value), ast.Subscript)
                default_keeps = bool(uses) and guarded and not subscript
    return table, default_keeps


def rule_invert_table(ctx, rep):
    rep.rule(
        "R-INVERT-TABLE",
        "invert-boolean-check: the operator match covers every comparison operator it rewrites with its logical negation, operators "
        "it does not know leave the comparison untouched, and inversion is applied only under len(comparisons) == 1 "
        "(negating a chain element-wise is not De Morgan)",
        min_instances=3,
    )
    c = ctx.prog.cls(INVERT)
    inv = c.methods.get("_invert_comparisons")
    if inv is None:
        raise AnalysisError("InvertedBooleanCheckTransformer._invert_comparisons vanished")
    table, default_keeps = operator_mapping(ctx, inv)
    wrong = {k: v for k, v in table.items() if NEGATION.get(k) != v}
    rep.check("R-INVERT-TABLE", inv.qname, inv.loc(), not wrong and len(table) >= 6, "negation-pairs",
              f"operator table pairs {wrong} — not the logical negation", table=table)
    missing = sorted(set(NEGATION) - set(table))
    rep.check("R-INVERT-TABLE", inv.qname, inv.loc(), not missing or bool(default_keeps), "total-or-identity",
              f"operators {missing} fall into a default branch that still rewrites the comparison (`not x in y` -> `x in yy`)", missing=missing)
    # single comparison only
    rn = c.methods.get("report_new_comparison")
    calls = []
    for m in c.methods.values():
        for n in walk_no_nested(m.node):
            if isinstance(n, ast.Call) and last_attr(n.func) == "_invert_comparisons":
                calls.append((m, n))
    ok = bool(calls)
    for m, n in calls:
        must = ctx.flow(m).must_at(n)
        single = any(
            isinstance(e, ast.Compare) and "comparisons" in unparse(e) and isinstance(e.left, ast.Call) and call_name(e.left) == "len"
            and ((pol and isinstance(e.ops[0], ast.Eq) and unparse(e.comparators[0]) == "1") or ((not pol) and isinstance(e.ops[0], (ast.NotEq, ast.Gt)) and unparse(e.comparators[0]) == "1"))
            for pol, e in fact_exprs(must)
        )
        ok = ok and single
    rep.check("R-INVERT-TABLE", c.qname, calls[0][0].loc(calls[0][1]) if calls else c.loc(), ok, "single-comparison-only",
              "chained comparisons are inverted element-wise: `not a == b == c` becomes `a != b != c` (not equivalent)")


def rule_args(ctx, rep):
    fams = {}
    for cid in REFACTORING:
        cm = next((c for c in ctx.registry.codemods if c.id == cid), None)
        if cm:
            for tq in cm.transformers:
                if tq in ctx.prog.classes:
                    fams[tq] = ctx.tmodel(tq)
    rule_args_preserved(
        ctx, rep, "R-ARGS-PRESERVED", fams,
        "in refactoring codemods a hook that replaces a call's argument list keeps all original arguments it does not explicitly "
        "rewrite, or is dominated by a fact fixing the arity",
        min_instances=3,
    )


def check(ctx, rep):
    rep.explanation = (
        "Observational equivalence is out of reach statically; four structural necessary conditions are decided at the anchors the "
        "property names: matcher operator constraints in the combine-calls fold, parenthesis carry-over of freshly built non-atomic "
        "expressions, argument-list preservation, and the comparison-inversion table against a fixed truth table of the ten operators."
    )
    rule_boolop_or(ctx, rep)
    rule_paren_safe(ctx, rep)
    rule_args(ctx, rep)
    rule_invert_table(ctx, rep)
    from .c02 import rule_import_removal_owner, rule_nodetype

    rule_nodetype(ctx, rep)
    rule_import_removal_owner(ctx, rep)
    from .c02 import rule_global_removal_scope

    rule_global_removal_scope(ctx, rep)
    from .c16 import rule_rebuild_keeps_all

    rule_rebuild_keeps_all(ctx, rep)
    rep.not_covered += ["observational equivalence over programs and runtime values", "SQL parameterisation returning the same rows", "tuple-valued names producing nested tuples in combine_args"]
