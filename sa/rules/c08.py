"""C08 — refactoring codemods preserve program behaviour (structural necessary conditions at the named anchors).

R-BOOLOP-OR       every BooleanOperation matcher taking part in a combine-calls fold constrains operator=Or (outer and nested)
R-PAREN-SAFE      an expression hook that returns a freshly constructed non-atomic expression carries over lpar/rpar
R-ARGS-PRESERVED  a refactoring hook that rebuilds a call's argument list keeps every argument it does not replace
R-INVERT-TABLE    the comparison inversion covers all ten operators or leaves the node alone, pairs each with its negation,
                  and is applied only to single comparisons
R-EXTENT-ALL-NAMES  fix-file-resource-leak: the index of the last statement using a resource is a running extremum over all of its names
R-CUT-SIDE        sql-parameterization: the literal before the parameter is cut at its last quote, the one after it at its first
(+ shared: R-NODETYPE, R-IMPORT-REMOVAL-OWNER, R-GLOBAL-REMOVAL-SCOPE, R-REBUILD-KEEPS-ALL)
"""
from __future__ import annotations

import ast

from ..argsrule import rule_args_preserved
from ..flow import fact_exprs
from ..model import AnalysisError, FuncInfo, call_name, last_attr, names_in, unparse, walk_no_nested

COMBINE = "core_codemods.combine_calls_base.CombineCallsBaseCodemod"
INVERT = "core_codemods.invert_boolean_check.InvertedBooleanCheckTransformer"
# libcst expression classes that are not atomic w.r.t. operator precedence (need their own parentheses in some contexts)
NONATOMIC = {"BooleanOperation", "Comparison", "UnaryOperation", "BinaryOperation", "IfExp", "Lambda", "NamedExpr", "Await", "Yield", "GeneratorExp"}
EXPR_HOOK_NODES = {
    "leave_BooleanOperation", "leave_Comparison", "leave_UnaryOperation", "leave_BinaryOperation", "leave_Call", "leave_IfExp",
    "leave_Name", "leave_Attribute", "leave_Subscript", "leave_NamedExpr", "leave_ConcatenatedString", "leave_FormattedString",
    "leave_SimpleString", "leave_Tuple", "leave_List", "leave_Set", "leave_Dict", "leave_Lambda", "leave_Await",
}
NEGATION = {
    "Equal": "NotEqual", "NotEqual": "Equal", "LessThan": "GreaterThanEqual", "GreaterThanEqual": "LessThan",
    "GreaterThan": "LessThanEqual", "LessThanEqual": "GreaterThan", "In": "NotIn", "NotIn": "In", "Is": "IsNot", "IsNot": "Is",
}
REFACTORING = [
    "pixee:python/use-generator", "pixee:python/use-set-literal", "pixee:python/use-walrus-if", "pixee:python/combine-startswith-endswith",
    "pixee:python/combine-isinstance-issubclass", "pixee:python/remove-unnecessary-f-str", "pixee:python/unused-imports",
    "pixee:python/order-imports", "pixee:python/remove-future-imports", "pixee:python/fix-deprecated-abstractproperty",
    "pixee:python/fix-deprecated-logging-warn", "pixee:python/lazy-logging", "pixee:python/invert-boolean-check",
    "pixee:python/fix-hasattr-call", "pixee:python/fix-file-resource-leak", "pixee:python/bad-lock-with-statement",
    "pixee:python/remove-module-global", "pixee:python/sql-parameterization", "pixee:python/numpy-nan-equality",
    "pixee:python/fix-empty-sequence-comparison", "pixee:python/literal-or-new-object-identity", "pixee:python/str-concat-in-sequence-literals",
    "pixee:python/fix-assert-tuple", "pixee:python/fix-float-equality", "pixee:python/remove-assertion-in-pytest-raises",
    "pixee:python/exception-without-raise", "pixee:python/fix-mutable-params", "pixee:python/remove-debug-breakpoint",
]


def rule_boolop_or(ctx, rep):
    rep.rule(
        "R-BOOLOP-OR",
        "in the combine-calls fold every m.BooleanOperation(...) matcher — the outer one and the nested ones describing the operand "
        "being folded — constrains operator=m.Or(): folding `a.f(x) or a.f(y) and c` regroups across `and`",
        min_instances=5,
    )
    c = ctx.prog.cls(COMBINE)
    n = 0
    for m in c.methods.values():
        for call in walk_no_nested(m.node):
            if isinstance(call, ast.Call) and unparse(call.func) in ("m.BooleanOperation", "matchers.BooleanOperation"):
                n += 1
                op = next((k.value for k in call.keywords if k.arg == "operator"), None)
                ok = op is not None and isinstance(op, ast.Call) and last_attr(op.func) == "Or"
                nested = isinstance(ctx.parents(m).get(id(call)), ast.keyword)
                # the construct is named without the method's parameter names (they are spelling): `m.BooleanOperation(left=$1)`
                pos = {p_: f"${i}" for i, p_ in enumerate(m.positional_params())}
                shown = ast.parse(unparse(call), mode="eval").body
                for x in ast.walk(shown):
                    if isinstance(x, ast.Name) and x.id in pos:
                        x.id = pos[x.id]
                rep.check("R-BOOLOP-OR", m.qname, m.loc(call), ok, ("nested:" if nested else "outer:") + unparse(shown)[:40],
                          f"matcher `{unparse(call)[:70]}` accepts any boolean operator: `s.startswith('a') or s.startswith('z') and flag` "
                          "is folded to `s.startswith(('a','z')) and flag` (different truth table)")
    if n < 5:
        raise AnalysisError("combine_calls_base BooleanOperation matchers not found")


def _path_from(e: ast.expr, root: str):
    """attribute / constant-subscript chain from the parameter `root`: returns the list of steps, or None"""
    steps = []
    while True:
        if isinstance(e, ast.Attribute):
            steps.append(e.attr)
            e = e.value
        elif isinstance(e, ast.Subscript) and isinstance(e.slice, ast.Constant) and isinstance(e.slice.value, int):
            steps.append(e.slice.value)
            e = e.value
        elif isinstance(e, ast.Name) and e.id == root:
            return list(reversed(steps))
        else:
            return None


def _matcher_at(matcher: ast.expr, steps: list):
    """Follow a node path through an `m.X(field=..., ...)` matcher expression; returns the matcher expression found there or None."""
    cur = matcher
    for st in steps:
        if isinstance(st, str):
            if not isinstance(cur, ast.Call):
                return None
            cur = next((k.value for k in cur.keywords if k.arg == st), None)
        else:
            if not isinstance(cur, (ast.List, ast.Tuple)) or not (-len(cur.elts) <= st < len(cur.elts)):
                return None
            cur = cur.elts[st]
        if cur is None:
            return None
    return cur


def rule_same_receiver(ctx, rep):
    rep.rule(
        "R-SAME-RECEIVER",
        "the fold of two calls into one (combine-startswith-endswith, combine-isinstance-issubclass) is made only when both act on the same "
        "object: check_calls_same_instance compares the identifiers of two nodes that the codemod's own call matcher restricts to plain names "
        "(or compares the subtrees with deep_equals).  A projection that forgets parts of the expression (get_full_name_for_node drops "
        "subscripts and call arguments; `.attr` keeps only the last name) folds `rows[0].name.startswith(..) or rows[1].name.startswith(..)` "
        "onto one of the two objects",
        min_instances=2,
    )
    n = 0
    for cq in sorted(ctx.prog.all_subclasses(COMBINE)):
        c = ctx.prog.classes[cq]
        same = ctx.prog.lookup_method(cq, "check_calls_same_instance")
        mk = ctx.prog.lookup_method(cq, "make_call_matcher")
        if same is None or mk is None or same.cls.qname == COMBINE:
            continue
        n += 1
        pp = same.positional_params()
        if len(pp) < 3:
            raise AnalysisError(f"{same.qname}: unexpected signature")
        L, R = pp[1], pp[2]
        r = ctx.resolver(same)
        rets = [x.value for x in walk_no_nested(same.node) if isinstance(x, ast.Return) and x.value is not None]
        ok, why = bool(rets), "no return"
        for rv in rets:
            rv = r.expand(rv) if isinstance(rv, ast.Name) else rv
            if isinstance(rv, ast.Call) and last_attr(rv.func) == "deep_equals":
                args = [rv.func.value] + list(rv.args) if isinstance(rv.func, ast.Attribute) and len(rv.args) == 1 else list(rv.args)
                pl = [_path_from(a, L) or _path_from(a, R) for a in args]
                if len(args) == 2 and pl[0] is not None and pl[0] == pl[1]:
                    continue
                ok, why = False, f"`{unparse(rv)[:60]}` does not compare the same position of both calls"
                continue
            if not (isinstance(rv, ast.Compare) and len(rv.ops) == 1 and isinstance(rv.ops[0], ast.Eq)):
                ok, why = False, f"`{unparse(rv)[:60]}` is not an equality of two receivers"
                continue
            a, b = rv.left, rv.comparators[0]
            pa, pb = _path_from(a, L), _path_from(b, R)
            if pa is None or pb is None:
                pa, pb = _path_from(a, R), _path_from(b, L)
            if pa is None or pb is None or pa != pb:
                ok, why = False, f"`{unparse(rv)[:70]}` compares a projection of the receivers, not the receivers (a lossy name such as get_full_name_for_node / `.attr` treats different objects as one)"
                continue
            if not pa or pa[-1] != "value":
                ok, why = False, f"`{unparse(rv)[:70]}` compares node objects with == (identity of freshly parsed nodes), not their identifiers"
                continue
            # the node whose `.value` is compared must be restricted to m.Name() by the codemod's matcher
            mrets = [x.value for x in walk_no_nested(mk.node) if isinstance(x, ast.Return) and x.value is not None]
            restricted = bool(mrets)
            for mv in mrets:
                at = _matcher_at(mv, pa[:-1])
                if not (isinstance(at, ast.Call) and last_attr(at.func) == "Name" and not at.args and not [k for k in at.keywords if k.arg != "value"]):
                    restricted = False
                    why = (f"the matcher allows `{unparse(at)[:50] if at is not None else 'anything'}` at `{'.'.join(map(str, pa[:-1]))}`, so `.value` there is a "
                           "sub-node or a partial name, not the whole receiver")
            ok = ok and restricted
        rep.check("R-SAME-RECEIVER", same.qname, same.loc(), ok, "same-object", why if not ok else "")
    if n < 2:
        raise AnalysisError(f"only {n} concrete check_calls_same_instance found under {COMBINE}")


def _fresh_ctor(ctx, fn: FuncInfo, v: ast.expr, depth: int = 3):
    """If v is (a local bound to) a direct libcst node construction, return the constructor call."""
    r = ctx.resolver(fn)
    if depth <= 0:
        return None
    if isinstance(v, ast.Name):
        sa = r.single_assignments()
        if v.id in sa:
            return _fresh_ctor(ctx, fn, sa[v.id], depth - 1)
        return None
    if isinstance(v, ast.Call):
        f = unparse(v.func)
        if f.startswith("cst.") and f.split(".")[-1][:1].isupper():
            return v
        if f.split(".")[-1] in NONATOMIC and f.split(".")[-1][:1].isupper():
            return v
        if last_attr(v.func) == "with_changes":
            return None
    return None


def rule_paren_safe(ctx, rep):
    rep.rule(
        "R-PAREN-SAFE",
        "every expression hook (leave_<Expr>, or a helper whose return value it returns) of a refactoring codemod that returns a freshly "
        "constructed non-atomic libcst expression passes lpar/rpar (the replaced node's own parentheses would otherwise be lost and the "
        "surrounding expression regrouped)",
        min_instances=4,
    )
    reg = ctx.registry
    seen = set()
    n = 0
    for cid in REFACTORING:
        cm = next((c for c in reg.codemods if c.id == cid), None)
        if cm is None:
            continue
        for tq in cm.transformers:
            if tq not in ctx.prog.classes:
                continue
            tm = ctx.tmodel(tq)
            for e in tm.effects():
                if e.kind != "return-change" or e.method.qname + str(e.node.lineno) in seen:
                    continue
                seen.add(e.method.qname + str(e.node.lineno))
                # which hook does this return feed?  only expression hooks matter
                hooks = {m.name for _, m in tm.all_methods() if m.name in EXPR_HOOK_NODES}
                if e.method.name.startswith("leave_") and e.method.name not in EXPR_HOOK_NODES:
                    continue
                if not hooks:
                    continue
                # every alternative of a conditional return is a value the hook can hand back
                alts = [e.node.value]
                k = 0
                while k < len(alts):
                    if isinstance(alts[k], ast.IfExp):
                        alts += [alts[k].body, alts[k].orelse]
                    k += 1
                for alt in alts:
                    if isinstance(alt, ast.IfExp):
                        continue
                    ctor = _fresh_ctor(ctx, e.method, alt)
                    if ctor is None:
                        continue
                    cls_name = unparse(ctor.func).split(".")[-1]
                    if cls_name not in NONATOMIC:
                        continue
                    n += 1
                    kws = {k_.arg for k_ in ctor.keywords}
                    ok = {"lpar", "rpar"} <= kws
                    rep.check("R-PAREN-SAFE", tq, e.method.loc(alt), ok, f"{e.method.name}:{cls_name}",
                              f"returns a fresh `{cls_name}` without lpar/rpar in place of a node that may be parenthesised: "
                              "e.g. `not (flag or s.startswith('a') or s.startswith('b'))` becomes `not flag or s.startswith(('a','b'))`, "
                              "`(x == []) * 3` becomes `not x * 3`")
    if n < 3:
        raise AnalysisError(f"only {n} fresh non-atomic expression returns found in refactoring codemods")


NONATOMIC_HOOKS = {"leave_" + k for k in NONATOMIC}


def _is_child_of_node(ctx, tm, fn: FuncInfo, e: ast.expr, depth: int = 3) -> bool:
    """Does `e` denote a sub-expression of the node the hook is replacing (a child of original_node / updated_node)?"""
    if depth <= 0:
        return False
    ps = fn.positional_params()
    node_params = set(ps[1:3]) if fn.name.startswith("leave_") and len(ps) >= 3 else set()
    if isinstance(e, ast.Attribute):
        root = e
        while isinstance(root, (ast.Attribute, ast.Subscript)):
            root = root.value
        if isinstance(root, ast.Name):
            if root.id in node_params:
                return True
            return _is_child_of_node(ctx, tm, fn, root, depth)
        return False
    if isinstance(e, ast.Subscript):
        return _is_child_of_node(ctx, tm, fn, e.value, depth)
    if isinstance(e, ast.Name):
        if e.id in node_params:
            return False  # the node itself
        # match capture:  match <child-or-node chain>: case cst.X(attr=cst.Y() as name)
        for mt in walk_no_nested(fn.node):
            if isinstance(mt, ast.Match):
                subj = mt.subject
                subj_is_node = (isinstance(subj, ast.Name) and subj.id in node_params) or _is_child_of_node(ctx, tm, fn, subj, depth - 1)
                if not subj_is_node:
                    continue
                for cs in mt.cases:
                    top = cs.pattern
                    for pat in ast.walk(cs.pattern):
                        if isinstance(pat, ast.MatchAs) and pat.name == e.id:
                            if pat is top and isinstance(subj, ast.Name) and subj.id in node_params:
                                continue  # a capture of the node itself
                            return True
        sa = ctx.resolver(fn).single_assignments()
        if e.id in sa and e.id not in fn.params():
            return _is_child_of_node(ctx, tm, fn, sa[e.id], depth - 1)
        if e.id in fn.params() and not fn.name.startswith("leave_"):
            # a helper's parameter: a child if every caller in the class passes a child
            idx_all = fn.positional_params()
            sites = []
            for _, m in tm.all_methods():
                for c in walk_no_nested(m.node):
                    if isinstance(c, ast.Call) and isinstance(c.func, ast.Attribute) and c.func.attr == fn.name and isinstance(c.func.value, ast.Name) and c.func.value.id == "self":
                        from ..model import bind_args
                        a = bind_args(c, fn, True).get(e.id)
                        if a is not None:
                            sites.append((m, a))
            return bool(sites) and all(_is_child_of_node(ctx, tm, m, a, depth - 1) for m, a in sites)
    return False


def rule_paren_child(ctx, rep):
    """second clause of R-PAREN-SAFE: a non-atomic node replaced by one of its own sub-expressions"""
    reg = ctx.registry
    seen = set()
    n = 0
    for cid in REFACTORING:
        cm = next((c for c in reg.codemods if c.id == cid), None)
        if cm is None:
            continue
        for tq in cm.transformers:
            if tq not in ctx.prog.classes:
                continue
            tm = ctx.tmodel(tq)
            hooks = {m.name for _, m in tm.all_methods() if m.name in NONATOMIC_HOOKS}
            if not hooks:
                continue
            for e in tm.effects():
                if e.kind != "return-change" or (e.method.qname, e.node.lineno) in seen:
                    continue
                seen.add((e.method.qname, e.node.lineno))
                if e.method.name.startswith("leave_") and e.method.name not in NONATOMIC_HOOKS:
                    continue
                alts = [e.node.value]
                k = 0
                while k < len(alts):
                    if isinstance(alts[k], ast.IfExp):
                        alts += [alts[k].body, alts[k].orelse]
                    k += 1
                for alt in alts:
                    if isinstance(alt, ast.IfExp) or alt is None:
                        continue
                    base, kws = alt, set()
                    if isinstance(alt, ast.Call) and last_attr(alt.func) == "with_changes" and isinstance(alt.func, ast.Attribute):
                        base, kws = alt.func.value, {k_.arg for k_ in alt.keywords}
                    if not _is_child_of_node(ctx, tm, e.method, base):
                        continue
                    n += 1
                    ok = {"lpar", "rpar"} <= kws
                    rep.check("R-PAREN-SAFE", tq, e.method.loc(alt), ok, f"{e.method.name}:child:{unparse(base)[:30]}",
                              f"`return {unparse(alt)[:60]}` puts a sub-expression in the place of the (possibly parenthesised) node without taking over the "
                              "node's lpar/rpar: `(not x + y is False) * 3` becomes `x + y * 3`, `total + (not got == want)` becomes `total + got != want`")
    rep.instance("R-PAREN-SAFE", "child-returns", "src/core_codemods", True, detail=f"{n} returns of a sub-expression in non-atomic expression hooks examined")


def _cls_tail(e) -> str | None:
    if isinstance(e, ast.Call):
        e = e.func
    if isinstance(e, (ast.Name, ast.Attribute)):
        return unparse(e).split(".")[-1]
    return None


def class_table(ctx, fn: FuncInfo, e: ast.expr):
    """`TABLE.get(type(x)[, d])` / `TABLE[type(x)]` with TABLE a module- or class-level dict literal of classes -> {key: value}."""
    r = ctx.resolver(fn)
    e = r.expand(e)
    if isinstance(e, ast.NamedExpr):
        e = e.value
    tbl = None
    if isinstance(e, ast.Call) and isinstance(e.func, ast.Attribute) and e.func.attr == "get" and e.args:
        tbl = e.func.value
    elif isinstance(e, ast.Subscript):
        tbl = e.value
    if tbl is None:
        return None
    val = None
    if isinstance(tbl, ast.Name):
        val = fn.module.constants.get(tbl.id)
    elif isinstance(tbl, ast.Attribute) and isinstance(tbl.value, ast.Name) and tbl.value.id in ("self", "cls") and fn.cls is not None:
        hit = ctx.prog.lookup_attr(fn.cls.qname, tbl.attr)
        val = hit[1] if hit else None
    if not isinstance(val, ast.Dict):
        return None
    out = {}
    for k, v in zip(val.keys, val.values):
        kt, vt = _cls_tail(k), _cls_tail(v)
        if kt is None or vt is None:
            return None
        out[kt] = vt
    return out


def operator_mapping(ctx, fn: FuncInfo):
    """The operator -> operator mapping a function implements, whichever way it is written: a `match` over operator classes, an
    isinstance chain, or a class-keyed dict.  -> (table {OpClass: OpClass}, unknown operators are left alone?)"""
    table: dict[str, str] = {}
    default_keeps = None
    for mt in [n for n in walk_no_nested(fn.node) if isinstance(n, ast.Match)]:
        for case in mt.cases:
            pat = case.pattern
            val = None
            for st in case.body:
                if isinstance(st, (ast.Assign, ast.Return)):
                    val = st.value
            if isinstance(pat, ast.MatchClass):
                k = unparse(pat.cls).split(".")[-1]
                v = unparse(val.func).split(".")[-1] if isinstance(val, ast.Call) else unparse(val) if val is not None else None
                table[k] = v
            elif isinstance(pat, ast.MatchAs) and pat.pattern is None:
                default_keeps = val is None or (isinstance(val, ast.Constant) and val.value is None) or (isinstance(val, ast.Attribute) and val.attr == "operator")
    # isinstance chain:  if isinstance(op, cst.Equal): new = cst.NotEqual()
    for st in walk_no_nested(fn.node):
        if isinstance(st, ast.If) and isinstance(st.test, ast.Call) and call_name(st.test) == "isinstance" and len(st.test.args) == 2:
            k = _cls_tail(st.test.args[1])
            vals = [x.value for x in st.body if isinstance(x, (ast.Assign, ast.Return))]
            if k and vals and isinstance(vals[-1], ast.Call):
                table[k] = _cls_tail(vals[-1])
    # class-keyed dict:  inverse = TABLE.get(type(op));  if inverse is None: return None;  ... inverse()
    fa = ctx.flow(fn)
    for n in walk_no_nested(fn.node):
        if isinstance(n, (ast.Assign, ast.AnnAssign, ast.NamedExpr)) and n.value is not None:
            t = class_table(ctx, fn, n.value)
            if t is None:
                continue
            table.update(t)
            tg = n.targets[0] if isinstance(n, ast.Assign) else n.target
            if isinstance(tg, ast.Name):
                # unknown operator -> the looked-up class is None: every use of it as a constructor must be under `is not None`,
                # and the `is None` path must leave the comparison alone (return None / the original)
                uses = [c for c in walk_no_nested(fn.node) if isinstance(c, ast.Call) and isinstance(c.func, ast.Name) and c.func.id == tg.id]
                guarded = all(all((False, f"{tg.id} is None") in must or (True, tg.id) in must for must, _ in (fa.state_at(c).parts if fa.state_at(c) else [])) for c in uses)
                subscript = isinstance(ctx.resolver(fn).expand(n.value), ast.Subscript)
                default_keeps = bool(uses) and guarded and not subscript
    return table, default_keeps


def _single_fact(ctx, m: FuncInfo, n: ast.AST) -> bool:
    """`len(<x>.comparisons) == 1` holds where n is evaluated"""
    must = ctx.flow(m).must_at(n)
    return any(
        isinstance(e, ast.Compare) and "comparisons" in unparse(e) and isinstance(e.left, ast.Call) and call_name(e.left) == "len"
        and ((pol and isinstance(e.ops[0], ast.Eq) and unparse(e.comparators[0]) == "1") or ((not pol) and isinstance(e.ops[0], (ast.NotEq, ast.Gt)) and unparse(e.comparators[0]) == "1"))
        for pol, e in fact_exprs(must)
    )


def rule_invert_table(ctx, rep):
    rep.rule(
        "R-INVERT-TABLE",
        "invert-boolean-check: the operator match covers every comparison operator it rewrites with its logical negation, operators "
        "it does not know leave the comparison untouched, and inversion is applied only under len(comparisons) == 1 "
        "(negating a chain element-wise is not De Morgan)",
        min_instances=3,
    )
    c = ctx.prog.cls(INVERT)
    # the method that carries the operator table is found by what it does, not by its name
    cands = []
    for m in c.methods.values():
        t, dk = operator_mapping(ctx, m)
        if len([k for k in t if k in NEGATION]) >= 3:
            cands.append((m, t, dk))
    if len(cands) != 1:
        raise AnalysisError(f"InvertedBooleanCheckTransformer: {len(cands)} methods carry a comparison-operator table (1 confirmed by hand)")
    inv, table, default_keeps = cands[0]
    wrong = {k: v for k, v in table.items() if NEGATION.get(k) != v}
    rep.check("R-INVERT-TABLE", inv.qname, inv.loc(), not wrong and len(table) >= 6, "negation-pairs",
              f"operator table pairs {wrong} — not the logical negation", table=table)
    missing = sorted(set(NEGATION) - set(table))
    rep.check("R-INVERT-TABLE", inv.qname, inv.loc(), not missing or bool(default_keeps), "total-or-identity",
              f"operators {missing} fall into a default branch that still rewrites the comparison (`not x in y` -> `x in yy`)", missing=missing)
    # single comparison only
    rn = c.methods.get("report_new_comparison")
    calls = []
    # call sites of the table method, followed up through non-hook methods of the class until the single-comparison fact is met or a hook is reached
    targets, done = [inv.name], set()
    while targets:
        tname = targets.pop()
        if tname in done:
            continue
        done.add(tname)
        for m in c.methods.values():
            if m.name == tname:
                continue
            for n in walk_no_nested(m.node):
                if isinstance(n, ast.Call) and last_attr(n.func) == tname:
                    if _single_fact(ctx, m, n) or m.name.startswith("leave_"):
                        calls.append((m, n))
                    else:
                        targets.append(m.name)
    if not calls and inv.name.startswith("leave_"):
        # the table sits in the hook itself: the arity fact must hold where the table is consulted
        first = next((n for n in walk_no_nested(inv.node) if isinstance(n, ast.Match) or (isinstance(n, ast.If) and isinstance(n.test, ast.Call) and call_name(n.test) == "isinstance")), None)
        if first is not None:
            calls.append((inv, first))
    ok = bool(calls)
    for m, n in calls:
        ok = ok and _single_fact(ctx, m, n)
    rep.check("R-INVERT-TABLE", c.qname, calls[0][0].loc(calls[0][1]) if calls else c.loc(), ok, "single-comparison-only",
              "chained comparisons are inverted element-wise: `not a == b == c` becomes `a != b != c` (not equivalent)")


# ----------------------------------------------------------------------------------------------------------------------------------
# extent of the generated `with` block (fix-file-resource-leak) and delimiter side (sql-parameterization)

RESOURCE_MOD = "core_codemods.file_resource_leak"
SQL_T = "core_codemods.sql_parameterization.SQLQueryParameterizationTransformer"


def _parents_of(fn):
    pm = {}
    for p in ast.walk(fn.node):
        for c in ast.iter_child_nodes(p):
            pm[id(c)] = p
    return pm


def rule_extent_all_names(ctx, rep):
    rep.rule(
        "R-EXTENT-ALL-NAMES",
        "in fix-file-resource-leak, a function that walks the accesses (`find_accesses`) of several names of one resource and returns "
        "the index of the last statement using it keeps a *running* result: every store to the returned variable inside a loop reads "
        "its previous value (in the stored expression or in a guard around the store), or the result is one `max(...)` over all of "
        "them; a store that overwrites it per name makes the last alias decide the extent of the `with` block, and a later use of an "
        "earlier name runs on the closed file",
        min_instances=1,
    )
    n = 0
    for fn in ctx.prog.live_functions():
        if fn.module.name != RESOURCE_MOD or fn.parent is not None:
            continue
        if not any(isinstance(c, ast.Call) and last_attr(c.func) == "find_accesses" for c in walk_no_nested(fn.node)):
            continue
        loops = [l for l in walk_no_nested(fn.node) if isinstance(l, (ast.For, ast.While))]
        rets = [r for r in walk_no_nested(fn.node) if isinstance(r, ast.Return) and r.value is not None]
        if not loops or not rets:
            continue
        pm = _parents_of(fn)

        def inside_loop(node):
            cur = pm.get(id(node))
            out = []
            while cur is not None and cur is not fn.node:
                if isinstance(cur, (ast.For, ast.While)):
                    out.append(cur)
                cur = pm.get(id(cur))
            return out

        for r in rets:
            if inside_loop(r):
                continue  # first-match search, not an accumulation
            rv = r.value
            if isinstance(rv, ast.Call) and call_name(rv) in ("max", "min"):
                n += 1
                rep.instance("R-EXTENT-ALL-NAMES", fn.qname, fn.loc(r), True, detail="one extremum over all candidates")
                continue
            if not isinstance(rv, ast.Name):
                continue
            R = rv.id
            stores = [a for a in walk_no_nested(fn.node) if isinstance(a, (ast.Assign, ast.AugAssign, ast.AnnAssign, ast.NamedExpr))
                      and any(isinstance(t, ast.Name) and t.id == R for t in (a.targets if isinstance(a, ast.Assign) else [a.target]))]
            in_loop = [a for a in stores if inside_loop(a)]
            if not in_loop:
                continue
            n += 1
            for a in in_loop:
                reads = isinstance(a, ast.AugAssign) or (a.value is not None and R in names_in(a.value))
                cur = a
                while not reads and id(cur) in pm and pm[id(cur)] is not fn.node:
                    par = pm[id(cur)]
                    if isinstance(par, (ast.If, ast.While, ast.IfExp)) and R in names_in(par.test):
                        reads = True
                    cur = par
                # the loop's own counter is monotone: the last stored value is the largest
                lp = inside_loop(a)[0]
                counter = (isinstance(lp, ast.For) and isinstance(lp.iter, ast.Call) and call_name(lp.iter) in ("enumerate", "range")
                           and isinstance(a, ast.Assign) and isinstance(a.value, ast.Name)
                           and a.value.id in {x.id for x in ast.walk(lp.target) if isinstance(x, ast.Name)}
                           and (call_name(lp.iter) == "range" or (isinstance(lp.target, ast.Tuple) and isinstance(lp.target.elts[0], ast.Name) and lp.target.elts[0].id == a.value.id)))
                rep.check("R-EXTENT-ALL-NAMES", fn.qname, fn.loc(a), reads or counter, f"store:{R}",
                          f"`{unparse(a)[:70]}` overwrites the accumulated `{R}` inside a loop without consulting its previous value: the "
                          "result reflects only the last name/access iterated, not the latest use of any of them")
    if n < 1:
        raise AnalysisError("no accumulation over find_accesses found in core_codemods.file_resource_leak (anchor vanished)")


def _all_matches(ctx, fn: FuncInfo, e: ast.expr, depth: int = 2) -> bool:
    """`e` is the list of all matches of a pattern: list(P.finditer(x)) / tuple(...) / [*P.finditer(x)], or a repository function returning that."""
    if isinstance(e, ast.Name):
        e = ctx.resolver(fn).expand(e)
    if isinstance(e, ast.Call) and call_name(e) in ("list", "tuple") and e.args:
        inner = e.args[0]
        return isinstance(inner, ast.Call) and last_attr(inner.func) == "finditer"
    if isinstance(e, (ast.List, ast.Tuple)) and len(e.elts) == 1 and isinstance(e.elts[0], ast.Starred):
        inner = e.elts[0].value
        return isinstance(inner, ast.Call) and last_attr(inner.func) == "finditer"
    if isinstance(e, ast.IfExp):
        return _all_matches(ctx, fn, e.body, depth) and _all_matches(ctx, fn, e.orelse, depth)
    if depth and isinstance(e, ast.Call):
        try:
            ts = [t for t in ctx.resolver(fn).resolve_call(e) if isinstance(t, FuncInfo)]
        except Exception:
            ts = []
        if len(ts) == 1:
            rets = [r.value for r in walk_no_nested(ts[0].node) if isinstance(r, ast.Return) and r.value is not None]
            return bool(rets) and all(_all_matches(ctx, ts[0], v, depth - 1) for v in rets)
    return False


def _match_selection(ctx, fn: FuncInfo, e: ast.expr, env: dict, depth: int = 3):
    """Which match of a pattern does `e` denote: 'first' / 'last' / None (not a match selection) / '?' (a selection not understood)."""
    if isinstance(e, ast.Name):
        return env.get(e.id, (None, None))[0]
    if isinstance(e, ast.IfExp):
        a, b = _match_selection(ctx, fn, e.body, env, depth), _match_selection(ctx, fn, e.orelse, env, depth)
        return a if a == b else ("?" if (a or b) else None)
    if isinstance(e, ast.Subscript) and _all_matches(ctx, fn, e.value):
        return {"0": "first", "-1": "last"}.get(unparse(e.slice), "?")
    if isinstance(e, ast.Call):
        la = last_attr(e.func)
        if la in ("search", "match") and isinstance(e.func, ast.Attribute):
            return "first"
        if call_name(e) == "next" and e.args and isinstance(e.args[0], ast.Call) and last_attr(e.args[0].func) == "finditer":
            return "first"
        if depth:
            try:
                ts = ctx.resolver(fn).resolve_call(e)
            except Exception:
                ts = []
            if len(ts) == 1 and isinstance(ts[0], FuncInfo):
                h = ts[0]
                kinds = set()
                for r in walk_no_nested(h.node):
                    if isinstance(r, ast.Return) and r.value is not None:
                        kinds.add(_match_selection(ctx, h, ctx.resolver(h).expand(r.value), {}, depth - 1))
                if kinds and kinds != {None}:
                    return kinds.pop() if len(kinds) == 1 else "?"
    return None


def rule_cut_side(ctx, rep):
    rep.rule(
        "R-CUT-SIDE",
        "sql-parameterization cuts the literal before an injected expression at the quote that opens the parameter and the literal "
        "after it at the quote that closes it: the cut whose kept text (`text[:m.start()]`) is joined with the parameter token uses the *last* "
        "quote match of the piece; the other cut (the mirror image: `text[m.end():]` kept, `text[:m.start()]` split off) uses the *first*",
        min_instances=2,
    )
    cls = ctx.prog.cls(SQL_T)
    cuts: dict[tuple, dict] = {}
    for fn in cls.methods.values():
        version = [0]

        def scan(stmts, env):
            for st in stmts:
                if isinstance(st, ast.If):
                    e1, e2 = dict(env), dict(env)
                    scan(st.body, e1)
                    scan(st.orelse, e2)
                    for k in set(e1) | set(e2):
                        a, b = e1.get(k), e2.get(k)
                        if a is not None and b is not None and a[0] == b[0]:
                            env[k] = a
                        else:
                            version[0] += 1
                            env[k] = ("?", version[0])
                    continue
                if isinstance(st, (ast.For, ast.While, ast.With, ast.Try)):
                    for blk in ("body", "orelse", "finalbody"):
                        scan(getattr(st, blk, []) or [], env)
                    for h in getattr(st, "handlers", []):
                        scan(h.body, env)
                    continue
                for x in ast.walk(st):
                    if isinstance(x, ast.Subscript) and isinstance(x.slice, ast.Slice):
                        lo, hi = x.slice.lower, x.slice.upper
                        which = sname = None
                        if lo is None and isinstance(hi, ast.Call) and last_attr(hi.func) == "start" and isinstance(hi.func.value, ast.Name) and hi.func.value.id in env:
                            which, sname = "before", hi.func.value.id
                        if hi is None and isinstance(lo, ast.Call) and last_attr(lo.func) == "end" and isinstance(lo.func.value, ast.Name) and lo.func.value.id in env:
                            which, sname = "after", lo.func.value.id
                        if which:
                            kind, ver = env[sname]
                            g = cuts.setdefault((fn.qname, sname, ver), {"fn": fn, "kind": kind, "uses": [], "token": False, "node": x})
                            g["uses"].append(which)
                            if which == "before" and any(isinstance(y, ast.Name) and y.id == "parameter_token" for y in ast.walk(st)):
                                g["token"] = True
                                g["node"] = x
                if isinstance(st, (ast.Assign, ast.AnnAssign)) and st.value is not None:
                    for t in (st.targets if isinstance(st, ast.Assign) else [st.target]):
                        if isinstance(t, ast.Name):
                            k = _match_selection(ctx, fn, st.value, env)
                            if k is not None:
                                version[0] += 1
                                env[t.id] = (k, version[0])
                            else:
                                env.pop(t.id, None)

        scan(fn.node.body, {})
    opening = [g for g in cuts.values() if g["token"]]
    closing = [g for g in cuts.values() if not g["token"] and "after" in g["uses"]]
    if not opening:
        raise AnalysisError("sql-parameterization: the cut `text[:m.start()] + parameter_token` was not found (anchor vanished)")
    if not closing:
        raise AnalysisError("sql-parameterization: the closing cut (`text[m.end():]` kept, no parameter token) was not found (anchor vanished)")
    for g in opening:
        fn, kind, x = g["fn"], g["kind"], g["node"]
        if kind == "?":
            raise AnalysisError(f"{fn.qname}: which match opens the parameter is not understood")
        rep.check("R-CUT-SIDE", fn.qname, fn.loc(x), kind == "last", "opening-quote",
                  f"`{unparse(x)[:50]} + parameter_token` keeps the text before the {kind} quote of the piece: with an "
                  "earlier quoted constant in the same literal (\"... role = 'admin' AND name = '\" + name) the `?` replaces the wrong literal "
                  "and SQL text moves into the bound value")
    for g in closing:
        fn, kind, x = g["fn"], g["kind"], g["node"]
        if kind == "?":
            raise AnalysisError(f"{fn.qname}: which match closes the parameter is not understood")
        rep.check("R-CUT-SIDE", fn.qname, fn.loc(x), kind == "first", "closing-quote",
                  f"`{unparse(x)[:50]}`: the piece that closes the parameter is cut at its {kind} quote: what lies between the first and that quote moves into the bound value")


def rule_args(ctx, rep):
    fams = {}
    for cid in REFACTORING:
        cm = next((c for c in ctx.registry.codemods if c.id == cid), None)
        if cm:
            for tq in cm.transformers:
                if tq in ctx.prog.classes:
                    fams[tq] = ctx.tmodel(tq)
    rule_args_preserved(
        ctx, rep, "R-ARGS-PRESERVED", fams,
        "in refactoring codemods a hook that replaces a call's argument list keeps all original arguments it does not explicitly "
        "rewrite, or is dominated by a fact fixing the arity",
        min_instances=3,
    )


def rule_future_drops_only_deprecated(ctx, rep):
    from ..derive import ElemSources

    rep.rule(
        "R-FUTURE-DROPS-ONLY-DEPRECATED",
        "remove-future-imports keeps every imported name except those it tests against its table of deprecated features: the kept list is "
        "the statement's own `names` filtered by a *negative* membership test in that table.  Selecting the names to keep from another table "
        "(the currently meaningful features) silently drops optional features that are in neither (`barry_as_FLUFL`), which changes what the "
        "program means",
        min_instances=1,
    )
    m = ctx.prog.module("core_codemods.remove_future_imports")
    n = 0
    for fn in [f for f in ctx.prog.live_functions() if f.module is m and f.cls is not None and f.name.startswith("leave_Import")]:
        es = ElemSources(ctx, fn)
        for c in walk_no_nested(fn.node):
            if not (isinstance(c, ast.Call) and last_attr(c.func) == "with_changes"):
                continue
            nm = next((k.value for k in c.keywords if k.arg == "names"), None)
            if nm is None:
                continue
            for leaf, facts in es.sources(nm):
                if not (isinstance(leaf, ast.Attribute) and leaf.attr == "names"):
                    continue  # the star-import branch builds fresh aliases
                n += 1
                pos = [txt for pol, txt in facts if pol and " in " in txt and " not in " not in txt]
                neg = [txt for pol, txt in facts if ((not pol) and " in " in txt and " not in " not in txt) or (pol and " not in " in txt)]
                ok = not pos and len(neg) >= 1 and all("DEPRECATED" in t.upper() for t in neg)
                rep.check("R-FUTURE-DROPS-ONLY-DEPRECATED", fn.qname, fn.loc(c), ok, "kept-unless-deprecated",
                          f"the kept names are selected by {pos or neg or 'no membership test'}: a name outside that table is dropped although it is not deprecated")
    if n == 0:
        raise AnalysisError("remove_future_imports: the filtered rewrite of an ImportFrom's names was not found")


def check(ctx, rep):
    rep.explanation = (
        "Observational equivalence is out of reach statically; four structural necessary conditions are decided at the anchors the "
        "property names: matcher operator constraints in the combine-calls fold, parenthesis carry-over of freshly built non-atomic "
        "expressions, argument-list preservation, and the comparison-inversion table against a fixed truth table of the ten operators."
    )
    rule_boolop_or(ctx, rep)
    rule_same_receiver(ctx, rep)
    rule_paren_safe(ctx, rep)
    rule_paren_child(ctx, rep)
    rule_args(ctx, rep)
    rule_invert_table(ctx, rep)
    from .c02 import rule_import_removal_owner, rule_nodetype

    rule_nodetype(ctx, rep)
    rule_import_removal_owner(ctx, rep)
    from .c02 import rule_global_removal_scope

    rule_global_removal_scope(ctx, rep)
    from .c16 import rule_rebuild_keeps_all

    rule_rebuild_keeps_all(ctx, rep)
    rule_extent_all_names(ctx, rep)
    rule_cut_side(ctx, rep)
    from .c03 import rule_codec_agree

    # a refactoring must not change the program's string values: text decoded under one codec and written under another does
    rule_codec_agree(ctx, rep)
    from .c02 import rule_removal_kinds

    rule_removal_kinds(ctx, rep)
    rule_future_drops_only_deprecated(ctx, rep)
    from .c01 import rule_strlit

    # lazy-logging pastes literal pieces into one literal: a quote the guard lets through changes (or breaks) the program
    rule_strlit(ctx, rep)
    from .c09 import rule_detector_fresh

    # a refactoring codemod rewrites the construct its detector reported *now*: positions from a scan taken before earlier rewrites point at other code
    rule_detector_fresh(ctx, rep)
    rep.not_covered += ["observational equivalence over programs and runtime values", "SQL parameterisation returning the same rows", "tuple-valued names producing nested tuples in combine_args"]
