"""C06 — SAST-driven fixes land exactly on the reported findings and carry them.

R-GATE-RESULT      in every transformer of every remediation codemod each change effect is reached only under a result-based
                   gate (node_is_selected / filter_by_result / inside on_result_found / gated collection)
R-RULE-KEYED       _process_file hands the transformer only results_for_rule_and_file(context, r, filename) for r in its rules,
                   and reaches the transformer only when results is None or that list is non-empty
R-CHANGE-FINDINGS  every Change built in remediation-reachable code takes findings from get_findings_for_location(<its lineNumber>)
R-REQUESTED-RULES  every remediation codemod's requested rules equal its ToolMetadata rule ids
"""
from __future__ import annotations

import ast

from ..gates import gate_rule
from ..sites import apply_fn, worker_fn
from ..model import AnalysisError, FuncInfo, call_name, last_attr, literal_elements, names_in, unparse, walk_no_nested

PROCESS = "codemodder.codemods.base_codemod.BaseCodemod._process_file"


def rule_gate_result(ctx, rep):
    rep.rule(
        "R-GATE-RESULT",
        "for the transformer classes of all remediation codemods (incl. from_core_codemod reuse): every report_change*/add_change/"
        "codemod_changes append and every hook return that replaces or removes a node is reached only under a RESULT-role fact "
        "(node_is_selected, filter_by_result, membership in a result-gated collection) or lies in on_result_found",
        min_instances=60,
    )
    rem = [c for c in ctx.registry.codemods if c.kind == "remediation"]
    if len(rem) < 37:
        raise AnalysisError(f"only {len(rem)} remediation codemods in the registry model (37 confirmed by hand)")
    gate_rule(ctx, rep, "R-GATE-RESULT", {"RESULT", "SELECTED", "IN_RESULT_FOUND"}, rem,
              "change not tied to a reported finding (with findings on k of n sites, all n are rewritten)")


def rule_rule_keyed(ctx, rep):
    rep.rule(
        "R-RULE-KEYED",
        "in _process_file the findings list is extended only from results.results_for_rule_and_file(context, r, filename) with r "
        "ranging over the `rules` parameter and filename the worker's own file; transformer.apply is reached only under "
        "`results is None` or a non-empty findings list, and receives that list",
        min_instances=4,
    )
    fn = worker_fn(ctx)
    fa = ctx.flow(fn)
    r = ctx.resolver(fn)
    pp = fn.positional_params()
    if len(pp) < 5:
        raise AnalysisError("_process_file(self, filename, context, results, rules) signature changed")
    P_FILE, P_CTX, P_RESULTS, P_RULES = pp[1], pp[2], pp[3], pp[4]
    applies0 = [n for n in walk_no_nested(fn.node) if isinstance(n, ast.Call) and last_attr(n.func) == "apply" and isinstance(n.func, ast.Attribute) and last_attr(n.func.value) == "transformer"]
    if not applies0:
        raise AnalysisError("_process_file no longer calls self.transformer.apply")
    a0 = applies0[0]
    fnode = a0.args[2] if len(a0.args) >= 3 else next((k.value for k in a0.keywords if k.arg == "results"), None)
    FV = unparse(fnode) if fnode is not None else "?"

    def lookup_ok(a, loop_holder):
        """a is results.results_for_rule_and_file(context, <rule from rules>, filename)"""
        if not (isinstance(a, ast.Call) and last_attr(a.func) == "results_for_rule_and_file" and isinstance(a.func, ast.Attribute) and unparse(a.func.value) == P_RESULTS):
            return False
        b = {"context": None, "rule_id": None, "file": None}
        for name, v in zip(("context", "rule_id", "file"), a.args):
            b[name] = v
        for k in a.keywords:
            if k.arg in b:
                b[k.arg] = k.value
        if None in b.values() or unparse(b["context"]) != P_CTX or unparse(b["file"]) != P_FILE:
            return False
        rv = b["rule_id"]
        if not isinstance(rv, ast.Name):
            return False
        it = None
        if loop_holder is not None:
            for g in loop_holder.generators:
                if isinstance(g.target, ast.Name) and g.target.id == rv.id:
                    it = g.iter
        if it is None:
            it = r._loop_iter_for(rv.id)
        return it is not None and unparse(it) == P_RULES

    sources = []  # (node, ok)

    def collect(name: str, seen: set):
        if name in seen:
            return
        seen.add(name)
        for n in walk_no_nested(fn.node):
            if isinstance(n, ast.Call) and isinstance(n.func, ast.Attribute) and n.func.attr in ("extend", "append", "insert") and unparse(n.func.value) == name:
                sources.append((n, n.func.attr == "extend" and len(n.args) == 1 and lookup_ok(n.args[0], None)))
            elif isinstance(n, ast.AugAssign) and unparse(n.target) == name:
                sources.append((n, isinstance(n.op, ast.Add) and lookup_ok(n.value, None)))
            elif isinstance(n, (ast.Assign, ast.AnnAssign)) and n.value is not None and any(unparse(t) == name for t in (n.targets if isinstance(n, ast.Assign) else [n.target])):
                v = n.value
                if isinstance(v, ast.Constant) and v.value is None:
                    continue
                if isinstance(v, (ast.List, ast.Tuple)) and not v.elts:
                    continue
                if isinstance(v, ast.Name) and v.id not in pp:
                    collect(v.id, seen)  # alias of another local list
                    continue
                while isinstance(v, ast.Call) and isinstance(v.func, ast.Name) and v.func.id in ("list", "tuple") and len(v.args) == 1:
                    v = v.args[0]
                if isinstance(v, ast.ListComp) and len(v.generators) == 2 and isinstance(v.elt, ast.Name) and isinstance(v.generators[1].target, ast.Name) and v.generators[1].target.id == v.elt.id and not any(g.ifs for g in v.generators):
                    sources.append((n, lookup_ok(v.generators[1].iter, v)))
                elif isinstance(v, ast.Call) and last_attr(v.func) == "from_iterable" and len(v.args) == 1 and isinstance(v.args[0], (ast.GeneratorExp, ast.ListComp)) \
                        and len(v.args[0].generators) == 1 and not v.args[0].generators[0].ifs:
                    # chain.from_iterable(<lookup> for rule in rules): the same flattening as the nested comprehension
                    sources.append((n, lookup_ok(v.args[0].elt, v.args[0])))
                else:
                    sources.append((n, False))

    collect(FV, set())
    exts = [n for n, _ in sources]
    ok = bool(sources) and all(g for _, g in sources)
    rep.check("R-RULE-KEYED", fn.qname, fn.loc(exts[0]) if exts else fn.loc(), ok, "findings-source",
              "findings handed to the transformer are not exactly results_for_rule_and_file(context, rule, filename) for rule in rules "
              "(findings of other rules or other files would drive the fix)")
    applies = applies0
    from ..logic import consistent_assignments_state

    for c in applies:
        findings_arg = c.args[2] if len(c.args) >= 3 else next((k.value for k in c.keywords if k.arg == "results"), None)
        fvar = unparse(findings_arg) if findings_arg is not None else None

        def atom(e, _fvar=fvar):
            if isinstance(e, ast.Compare) and len(e.ops) == 1 and isinstance(e.comparators[0], ast.Constant) and e.comparators[0].value is None and unparse(e.left) == P_RESULTS:
                return "RESULTS_NONE" if isinstance(e.ops[0], ast.Is) else "!RESULTS_NONE"
            if _fvar is not None and unparse(e) == _fvar:
                return "FINDINGS"
            if isinstance(e, ast.Compare) and len(e.ops) == 1 and isinstance(e.comparators[0], ast.Constant) and e.comparators[0].value is None and _fvar is not None and unparse(e.left) == _fvar:
                return "FNONE" if isinstance(e.ops[0], ast.Is) else "!FNONE"
            if isinstance(e, ast.Call) and call_name(e) == "len" and e.args and _fvar is not None and unparse(e.args[0]) == _fvar:
                return "FINDINGS"
            if isinstance(e, ast.Compare) and len(e.ops) == 1 and isinstance(e.left, ast.Call) and call_name(e.left) == "len" and e.left.args and unparse(e.left.args[0]) == _fvar \
                    and isinstance(e.comparators[0], ast.Constant) and e.comparators[0].value == 0:
                if isinstance(e.ops[0], ast.Eq):
                    return "!FINDINGS"
                if isinstance(e.ops[0], (ast.Gt, ast.NotEq)):
                    return "FINDINGS"
            if isinstance(e, ast.Name) and e.id != _fvar:
                x = r.expand(e)
                if not isinstance(x, ast.Name):
                    return x
            return None

        # FNONE: the findings value itself is None (the form `findings is not None and not findings` of the short-circuit test, where the
        # findings come out of a helper that returns None without detector results); None is falsy, so FNONE and FINDINGS exclude each other
        combos = [x for x in consistent_assignments_state(fa.state_at(c), atom, ["RESULTS_NONE", "FINDINGS", "FNONE"]) if not (x["FNONE"] and x["FINDINGS"])]
        bad = [x for x in combos if x["RESULTS_NONE"] is False and x["FINDINGS"] is False]
        a1 = c.args[1] if len(c.args) >= 2 else next((k.value for k in c.keywords if k.arg == "file_context"), None)
        x1 = r.expand(a1) if isinstance(a1, ast.Name) else a1
        # the second argument is the FileContext built in this function (whatever the local is called)
        passes = fvar is not None and isinstance(x1, ast.Call) and r.callee_qname(x1) == "codemodder.file_context.FileContext"
        # the findings handed over are the per-file list built above
        same_list = fvar == FV
        rep.check("R-RULE-KEYED", fn.qname, fn.loc(c), not bad and passes and same_list, "short-circuit",
                  "transformer.apply is reachable with a detector present but no finding for this file (every candidate site would be rewritten), "
                  "or does not receive the per-file findings list")
    fcs = [n for n in walk_no_nested(fn.node) if isinstance(n, ast.Call) and r.callee_qname(n) == "codemodder.file_context.FileContext"]
    ok = bool(fcs) and all(any(unparse(a) == FV for a in list(c.args) + [k.value for k in c.keywords]) for c in fcs)
    rep.check("R-RULE-KEYED", fn.qname, fn.loc(fcs[0]) if fcs else fn.loc(), ok, "file-context-results", "FileContext is not given the per-file findings (change entries could not carry them)")
    rs = ctx.prog.func("codemodder.result.ResultSet.results_for_rule_and_file")
    rp = rs.positional_params()
    if len(rp) < 4:
        raise AnalysisError("results_for_rule_and_file(self, context, rule_id, file) signature changed")
    R_CTX, R_RULE, R_FILE = rp[1], rp[2], rp[3]
    rr = ctx.resolver(rs)

    def strip_or(e):
        while isinstance(e, ast.BoolOp) and isinstance(e.op, ast.Or):
            e = e.values[0]
        return e

    def lookup(e):
        e = strip_or(rr.expand(e))
        if isinstance(e, ast.Call) and isinstance(e.func, ast.Attribute) and e.func.attr == "get" and e.args:
            return e.func.value, e.args[0]
        if isinstance(e, ast.Subscript):
            return e.value, e.slice
        return None

    rets = [n.value for n in walk_no_nested(rs.node) if isinstance(n, ast.Return) and n.value is not None and not (isinstance(n.value, (ast.List, ast.Tuple)) and not n.value.elts)]
    ok = bool(rets)
    for rv in rets:
        outer = lookup(rv)
        inner = lookup(outer[0]) if outer else None
        good = False
        if outer and inner:
            key = rr.expand(outer[1])
            rel = [c for c in ast.walk(key) if isinstance(c, ast.Call) and isinstance(c.func, ast.Attribute) and c.func.attr == "relative_to" and c.args
                   and unparse(c.args[0]) == f"{R_CTX}.directory" and R_FILE in {x.id for x in ast.walk(c.func.value) if isinstance(x, ast.Name)}]
            good = unparse(inner[0]) == "self" and unparse(rr.expand(inner[1])) == R_RULE and bool(rel)
        ok = ok and good
    rep.check("R-RULE-KEYED", rs.qname, rs.loc(), ok, "lookup-by-rule-and-file", "results_for_rule_and_file no longer looks up by rule id and target-relative file")


def rule_change_findings(ctx, rep):
    rep.rule(
        "R-CHANGE-FINDINGS",
        "every Change(...) constructed in code reachable from a remediation pipeline passes findings= taken from "
        "get_findings_for_location(e) with e equal to its lineNumber= expression, or from an explicit findings parameter",
        min_instances=5,
    )
    n = 0
    for fn in ctx.prog.live_functions():
        if fn.module.name.startswith("codemodder.dependency_management"):
            continue
        r = ctx.resolver(fn)
        for c in walk_no_nested(fn.node):
            if isinstance(c, ast.Call) and r.callee_qname(c) == "codemodder.codetf.Change":
                n += 1
                kw = {k.arg: k.value for k in c.keywords}
                ln, fd = kw.get("lineNumber"), kw.get("findings")
                where = fn.loc(c)
                if fd is None:
                    # transformers that build Change without findings drop the finding of a SAST-driven fix
                    used_by_sast = fn.cls is not None and any(
                        fn.cls.qname in ctx.tmodel(t).helpers or fn.cls.qname == t
                        for cm in ctx.registry.codemods if cm.kind == "remediation" for t in cm.transformers if t in ctx.prog.classes
                    )
                    rep.check("R-CHANGE-FINDINGS", fn.qname, where, not used_by_sast, "no-findings",
                              "Change is built without findings= in a transformer used by a remediation codemod")
                    continue
                fd = r.expand(fd)  # `findings = ...get_findings_for_location(n); Change(..., findings=findings)`
                look = [x for x in ast.walk(fd) if isinstance(x, ast.Call) and last_attr(x.func) == "get_findings_for_location" and x.args]
                params = set(fn.params())
                ok = True
                why = ""
                for lk in look:
                    e2 = lk.args[0]
                    same = ln is not None and (unparse(r.expand(e2)) == unparse(r.expand(ln)) or unparse(e2) == unparse(ln))
                    if not same:
                        ok = False
                        why = f"findings are looked up at `{unparse(e2)}` but the change is reported on line `{unparse(ln) if ln is not None else '?'}`"
                if not look and not (names_in(fd) & params):
                    ok = False
                    why = f"findings come from `{unparse(fd)[:50]}`, neither the line's findings nor a parameter"
                rep.check("R-CHANGE-FINDINGS", fn.qname, where, ok, f"lineNumber={unparse(ln) if ln is not None else '?'}", why)
    if n < 5:
        raise AnalysisError("fewer than 5 Change(...) constructions found")


def rule_findings_lookup(ctx, rep):
    """Shared by C06 / C19: the shape of FileContext.get_findings_for_location, through which every change entry gets its findings."""
    rep.rule(
        "R-FINDINGS-LOOKUP",
        "FileContext.get_findings_for_location answers for exactly one line and once per result: the location's start / end lines are "
        "compared with the line parameter only, and the locations of a result are tested existentially, not iterated in a generator of their own",
        min_instances=2,
    )
    # the lookup itself: a finding is attached when its location covers *the* line asked for -- one line, the first parameter.  A lookup that
    # compares the location's start with one line and its end with another answers for a range of lines, and the findings of other sites on
    # those lines (a nested call on a continuation line) are attached to this change
    lk = ctx.prog.func("codemodder.file_context.FileContext.get_findings_for_location")
    pp = lk.positional_params()
    if len(pp) < 2:
        raise AnalysisError("FileContext.get_findings_for_location(self, line_number) signature changed")
    rr = ctx.resolver(lk)

    def is_bound(e):
        return isinstance(e, ast.Attribute) and e.attr == "line" and isinstance(e.value, ast.Attribute) and e.value.attr in ("start", "end")

    cmps = [c for c in ast.walk(lk.node) if isinstance(c, ast.Compare) and any(is_bound(x) for x in [c.left] + c.comparators)]
    if not cmps:
        raise AnalysisError("get_findings_for_location: the comparison of the line with location.start.line / location.end.line was not found")
    others = {unparse(rr.expand(x) if isinstance(x, ast.Name) else x) for c in cmps for x in [c.left] + c.comparators if not is_bound(x)}
    # ... and once per result: the locations of one result are tested existentially (`any(...)`, or a loop that stops at the first hit).  A
    # comprehension with a second generator over the locations -- whose variable the element does not mention -- yields the finding once per
    # covering location, and the change entry carries it twice
    multiplied = []
    for comp in [c for c in ast.walk(lk.node) if isinstance(c, (ast.ListComp, ast.GeneratorExp)) and len(c.generators) > 1]:
        used = names_in(comp.elt)
        for g in comp.generators[1:]:
            tg = {x.id for x in ast.walk(g.target) if isinstance(x, ast.Name)}
            if not (tg & used) and any(is_bound(x) for cond in g.ifs for x in ast.walk(cond)):
                multiplied.append(comp)
    rep.check("R-FINDINGS-LOOKUP", lk.qname, lk.loc(multiplied[0]) if multiplied else lk.loc(), not multiplied, "lookup-once-per-result",
              "the lookup iterates the locations of a result in a generator of its own: a result with two locations covering the line contributes its "
              "finding twice to the change entry")
    rep.check("R-FINDINGS-LOOKUP", lk.qname, lk.loc(cmps[0]), others == {pp[1]}, "lookup-single-line",
              f"the location's start / end lines are compared with {sorted(others)}, not with the one line `{pp[1]}` the change is reported on: the lookup "
              "covers other lines, whose findings belong to other sites")


def rule_requested_rules(ctx, rep):
    rep.rule(
        "R-REQUESTED-RULES",
        "for every remediation codemod the rules it requests from the result set are exactly the ids of its ToolMetadata rules "
        "(results for other rules cause no change)",
        min_instances=37,
    )
    for cm in ctx.registry.codemods:
        if cm.kind != "remediation":
            continue
        ok = cm.rule_ids is not None and cm.requested_rules is not None and sorted(cm.rule_ids) == sorted(cm.requested_rules) and bool(cm.rule_ids)
        rep.check("R-REQUESTED-RULES", cm.id, cm.where, ok, "rules", f"requested rules {cm.requested_rules} differ from tool rule ids {cm.rule_ids}")
    for q in ("core_codemods.sonar.api.SonarCodemod.from_core_codemod", "core_codemods.semgrep.api.SemgrepCodemod.from_core_codemod", "core_codemods.defectdojo.api.DefectDojoCodemod.from_core_codemod"):
        fn = ctx.prog.func(q)
        ok, why = _factory_rules_agree(ctx, fn)
        rep.check("R-REQUESTED-RULES", q, fn.loc(), ok, "factory", "from_core_codemod no longer requests exactly the rule ids it puts in ToolMetadata: " + why)


MUTATORS = {"append", "extend", "insert", "add", "update", "remove", "pop", "clear", "sort", "reverse", "__iadd__", "discard"}


def rule_requested_rules_frozen(ctx, rep):
    """second clause of R-REQUESTED-RULES: after construction nobody changes what a codemod requests"""
    n = 0
    for fn in ctx.prog.live_functions():
        if fn.module.name.startswith(("codemodder.codemods.test", "codemodder.scripts")):
            continue
        for x in walk_no_nested(fn.node):
            tgt = None
            if isinstance(x, (ast.Assign, ast.AugAssign, ast.AnnAssign)):
                for t in (x.targets if isinstance(x, ast.Assign) else [x.target]):
                    for y in ast.walk(t):
                        if isinstance(y, ast.Attribute) and y.attr == "requested_rules" and isinstance(y.ctx, ast.Store):
                            tgt = x
                        if isinstance(y, ast.Subscript) and isinstance(y.value, ast.Attribute) and y.value.attr == "requested_rules":
                            tgt = x
            elif isinstance(x, ast.Call) and isinstance(x.func, ast.Attribute) and x.func.attr in MUTATORS \
                    and isinstance(x.func.value, ast.Attribute) and x.func.value.attr == "requested_rules":
                tgt = x
            elif isinstance(x, ast.Delete) and any(isinstance(y, ast.Attribute) and y.attr == "requested_rules" for t in x.targets for y in ast.walk(t)):
                tgt = x
            if tgt is None:
                continue
            n += 1
            ok = fn.name in ("__init__", "__new__", "__post_init__")
            rep.check("R-REQUESTED-RULES", fn.qname, fn.loc(tgt), ok, "written-after-construction",
                      f"`{unparse(tgt)[:70]}` changes the rules a codemod requests outside its constructor: ids taken from a result file (aliases, prefixes) make "
                      "results of rules the codemod does not own select files and drive rewrites; the codemod objects are module-level singletons, so the change persists")
    if n < 1:
        raise AnalysisError("no assignment to requested_rules found (the constructor of RemediationCodemod was confirmed by hand)")


def _symbolic_ids(r, e, of_rules: bool) -> set[str] | None:
    """Symbolic set of rule ids: of a `rules=` value (ToolRule objects) or of a `requested_rules=` value (id strings)."""
    e = r.expand(e)
    if isinstance(e, (ast.List, ast.Tuple)):
        out = set()
        for x in e.elts:
            if of_rules:
                x = r.expand(x)
                if not (isinstance(x, ast.Call) and (last_attr(x.func) or "").endswith("ToolRule")):
                    return None
                idv = next((k.value for k in x.keywords if k.arg == "id"), x.args[0] if x.args else None)
                if idv is None:
                    return None
                out.add(unparse(r.expand(idv)))
            else:
                out.add(unparse(r.expand(x)))
        return out
    if of_rules and isinstance(e, (ast.Name, ast.Attribute)):
        return {f"ELEMS({unparse(e)}).id"}
    if isinstance(e, (ast.ListComp, ast.GeneratorExp)) and len(e.generators) == 1 and not e.generators[0].ifs and isinstance(e.generators[0].target, ast.Name):
        g = e.generators[0]
        v = g.target.id
        if of_rules:
            x = e.elt
            if isinstance(x, ast.Name) and x.id == v:
                return {f"ELEMS({unparse(r.expand(g.iter))}).id"}
            return None
        if isinstance(e.elt, ast.Attribute) and e.elt.attr == "id" and isinstance(e.elt.value, ast.Name) and e.elt.value.id == v:
            return _symbolic_ids(r, g.iter, True)  # the ids of the rule objects iterated
        return None
    if isinstance(e, ast.Call) and call_name(e) in ("list", "tuple", "sorted") and len(e.args) == 1:
        return _symbolic_ids(r, e.args[0], of_rules)
    return None


def _factory_rules_agree(ctx, fn) -> tuple[bool, str]:
    r = ctx.resolver(fn)
    rr = tr = None
    for c in walk_no_nested(fn.node):
        if isinstance(c, ast.Call):
            for k in c.keywords:
                if k.arg == "requested_rules":
                    rr = k.value
                if k.arg == "rules" and (last_attr(c.func) or "").endswith("ToolMetadata"):
                    tr = k.value
    if rr is None or tr is None:
        return False, "requested_rules= or ToolMetadata(rules=) not found"
    a, b = _symbolic_ids(r, rr, False), _symbolic_ids(r, tr, True)
    if a is None or b is None:
        raise AnalysisError(f"{fn.qname}: rule id expressions not understood (`{unparse(rr)[:40]}` / `{unparse(tr)[:40]}`)")
    return a == b, f"requested {sorted(a)} vs tool rules {sorted(b)}"


OPEN_STATES = {"open", "to_review", "confirmed", "reopened"}


def rule_open_status(ctx, rep):
    rep.rule(
        "R-OPEN-STATUS",
        "SonarResultSet.from_json admits an issue/hotspot only through a positive membership test of its status in a constant set of "
        "open states (subset of open / to_review / confirmed / reopened); a negative test (status not in {resolved, closed}) lets every "
        "other closed-like state (e.g. hotspot REVIEWED) through",
        min_instances=1,
    )
    fn = ctx.prog.func("core_codemods.sonar.results.SonarResultSet.from_json")
    fa = ctx.flow(fn)
    adds = [c for c in walk_no_nested(fn.node) if isinstance(c, ast.Call) and last_attr(c.func) == "add_result"]
    if not adds:
        raise AnalysisError("SonarResultSet.from_json no longer adds results")
    for c in adds:
        ok = False
        why = "results are added without any status test (closed issues drive fixes)"
        for pol, txt in fa.must_at(c):
            if "status" not in txt:
                continue
            try:
                e = ast.parse(txt, mode="eval").body
            except SyntaxError:
                continue
            elts = literal_elements(ctx.prog, fn.module, e.comparators[0]) if isinstance(e, ast.Compare) and len(e.ops) == 1 and isinstance(e.ops[0], ast.In) else None
            if elts is not None:
                vals = {str(x.value).lower() for x in elts if isinstance(x, ast.Constant)}
                if pol and vals and vals <= OPEN_STATES and len(vals) == len(elts):
                    ok = True
                elif not pol:
                    why = f"status is tested negatively (`not in {sorted(vals)}`): any state outside that list is treated as open"
                else:
                    why = f"status whitelist {sorted(vals)} contains states that are not open states"
            elif isinstance(e, ast.Compare) and isinstance(e.ops[0], ast.Eq) and pol:
                v = e.comparators[0]
                ok = isinstance(v, ast.Constant) and str(v.value).lower() in OPEN_STATES
        rep.check("R-OPEN-STATUS", fn.qname, fn.loc(c), ok, "status-whitelist", why)


def _dnf(e: ast.expr) -> list[list[ast.expr]]:
    if isinstance(e, ast.BoolOp) and isinstance(e.op, ast.Or):
        out = []
        for v in e.values:
            out += _dnf(v)
        return out
    if isinstance(e, ast.BoolOp) and isinstance(e.op, ast.And):
        acc = [[]]
        for v in e.values:
            acc = [a + b for a in acc for b in _dnf(v)]
        return acc
    return [[e]]


def rule_match_columns(ctx, rep):
    rep.rule(
        "R-MATCH-COLUMNS",
        "Result.match_location (the default used by every tool without an override) accepts a location only when line, start column and "
        "end column all agree: every disjunct of its predicate constrains pos.start.column and pos.end.column and the line; line-only "
        "matching exists only in overrides that state why (DefectDojo: no column data)",
        min_instances=2,
    )
    fn = ctx.prog.func("codemodder.result.Result.match_location")
    pp = fn.positional_params()
    P = pp[1] if len(pp) > 1 else "pos"
    fa = ctx.flow(fn)
    ok = False
    why = ""
    n_accepting = 0
    for ex in fa.exits:
        if ex.kind != "return" or ex.value is None:
            continue
        rv = ex.value
        if isinstance(rv, ast.Constant) and not rv.value:
            continue  # rejecting exit
        pred = None
        if isinstance(rv, ast.Call) and call_name(rv) == "any" and rv.args and isinstance(rv.args[0], (ast.GeneratorExp, ast.ListComp)):
            pred = rv.args[0].elt
            extra = [c for g in rv.args[0].generators for c in g.ifs]
        elif isinstance(rv, ast.Constant):
            extra = []
        else:
            pred = rv
            extra = []
        for must, _may in ex.state.parts:
            held = [txt for pol, txt in must if pol and not txt.startswith(("EV:", "MATCH:", "ITER:"))]
            held += [unparse(c) for c in extra]
            for conj in (_dnf(pred) if pred is not None else [[]]):
                n_accepting += 1
                txt = " && ".join(held + [unparse(x) for x in conj])
                has_line = "same_line(" in txt or (".start.line" in txt and ".end.line" in txt)
                has_cols = f"{P}.start.column" in txt and f"{P}.end.column" in txt
                if not (has_line and has_cols):
                    why = f"a location is accepted under `{txt[:100] or 'no condition'}`: line, start column and end column are not all compared"
    ok = n_accepting > 0 and not why
    rep.check("R-MATCH-COLUMNS", fn.qname, fn.loc(), ok, "line+columns", why or "match_location has no recognisable predicate")
    # helper predicates used by it keep their meaning
    sl = ctx.prog.func("codemodder.result.same_line")
    sp = sl.positional_params()
    conds = _accepting(ctx, sl, depth=0)
    ok = bool(conds) and len(sp) >= 2
    for txt in conds:
        # every way of answering True relates the start lines of both arguments and their end lines
        both = all(f"{a}.{side}.line" in txt for a in sp[:2] for side in ("start", "end"))
        if not both:
            ok = False
    rep.check("R-MATCH-COLUMNS", sl.qname, sl.loc(), ok, "same_line", "same_line no longer compares both start and end line")
    # every override (result classes and transformers alike): each way of accepting a location constrains the columns too, unless
    # the override delegates to the default or belongs to the one documented line-only tool
    overrides = [m for m in ctx.prog.live_functions() if m.name == "match_location" and m.cls is not None and m.qname != fn.qname]
    for m in overrides:
        if m.cls.qname.endswith("DefectDojoResult"):
            rep.instance("R-MATCH-COLUMNS", m.qname, m.loc(), True, detail="override", exempt="DefectDojo findings carry no column data: documented line-only tool")
            continue
        bad = None
        conds = _accepting(ctx, m)
        whole_line = LINE_UNIT_OVERRIDES.get(m.cls.qname)
        for txt in conds:
            if "super().match_location(" in txt:
                continue
            if whole_line and "same_line(" in txt:
                continue  # confirmed exception: the node matched *is* a line
            has_cols = "fuzzy_column_match(" in txt or (".start.column" in txt and ".end.column" in txt)
            if not has_cols:
                bad = txt
        rep.check("R-MATCH-COLUMNS", m.qname, m.loc(), bool(conds) and bad is None, "override",
                  f"the override accepts a location under `{(bad or 'nothing recognisable')[:110]}` without looking at columns: every other node of the kind on "
                  "those lines (a call nested in a reported multi-line call, a second call on the line) is rewritten and reported as well")


PRIMITIVE_PREDICATES = {"same_line", "fuzzy_column_match"}
# overrides whose unit of matching is a whole statement line (one named class each, with the reason)
LINE_UNIT_OVERRIDES = {
    "core_codemods.tempfile_mktemp.TempfileMktempTransformer":
        "filter_by_result offers only cst.SimpleStatementLine nodes: the statement line holding the reported call is identified by its line (start and end)",
}


def _accepting(ctx, fn: FuncInfo, depth: int = 2) -> list[str]:
    """One text per way `fn` can return something truthy: the facts held at the exit plus one disjunct of the returned predicate; calls to
    other predicates of the repository (except the two primitives) are replaced by *their* ways of accepting."""
    out: list[str] = []
    fa = ctx.flow(fn)
    r = ctx.resolver(fn)
    for ex in fa.exits:
        if ex.kind != "return" or ex.value is None:
            continue
        rv = ex.value
        if isinstance(rv, ast.Constant) and not rv.value:
            continue
        pred, extra = rv, []
        if isinstance(rv, ast.Call) and call_name(rv) in ("any", "all") and rv.args and isinstance(rv.args[0], (ast.GeneratorExp, ast.ListComp)):
            pred = rv.args[0].elt
            extra = [c for g in rv.args[0].generators for c in g.ifs]
        elif isinstance(rv, ast.Constant):
            pred = None
        for must, _may in ex.state.parts:
            held = [(txt if pol else f"not ({txt})") for pol, txt in must if not txt.startswith(("EV:", "MATCH:", "ITER:"))]
            held += [unparse(c) for c in extra]
            for conj in (_dnf(pred) if pred is not None else [[]]):
                alts = [held[:]]
                for atom in conj:
                    sub = None
                    if depth and isinstance(atom, ast.Call) and last_attr(atom.func) not in PRIMITIVE_PREDICATES:
                        try:
                            ts = [t for t in r.resolve_call(atom) if isinstance(t, FuncInfo)]
                        except Exception:
                            ts = []
                        if len(ts) == 1 and ts[0].qname != fn.qname:
                            sub = _accepting(ctx, ts[0], depth - 1)
                    if sub:
                        alts = [a + [s_] for a in alts for s_ in sub]
                    else:
                        alts = [a + [unparse(atom)] for a in alts]
                out += [" && ".join(a) for a in alts]
    return out


def rule_candidates_all(ctx, rep):
    rep.rule(
        "R-CANDIDATES-ALL",
        "UtilsMixin.results_for_node offers *every* result of the file to the tool's own match_location and keeps exactly those it "
        "accepts: the returned elements are drawn from self.results with no other filter (a pre-selection by start line, rule or "
        "column decides for the tool — DefectDojo matches anywhere in the node's line span, Sonar widens tuples — and silently drops findings)",
        min_instances=1,
    )
    from ..derive import ElemSources

    fn = ctx.prog.func("codemodder.codemods.base_visitor.UtilsMixin.results_for_node")
    es = ElemSources(ctx, fn)
    rets = [n.value for n in walk_no_nested(fn.node) if isinstance(n, ast.Return) and n.value is not None]
    ok = bool(rets)
    why = "no return"
    n_src = 0
    for rv in rets:
        for leaf, facts in es.sources(rv):
            n_src += 1
            is_results = isinstance(leaf, ast.Attribute) and leaf.attr == "results" and isinstance(leaf.value, ast.Name) and leaf.value.id == "self"
            if not is_results:
                ok = False
                why = f"candidates are drawn from `{unparse(leaf)[:60]}` instead of self.results"
                continue
            extra = [txt for pol, txt in facts if "match_location(" not in txt and txt not in ("self.results",)]
            accepts = any(pol and "match_location(" in txt for pol, txt in facts)
            if extra or not accepts:
                ok = False
                why = ("results are additionally filtered by " + ", ".join(f"`{t[:40]}`" for t in extra)) if extra else "results are not filtered by match_location"
    rep.check("R-CANDIDATES-ALL", fn.qname, fn.loc(), ok and n_src > 0, "all-results-offered", why)


def check(ctx, rep):
    rep.explanation = (
        "The registry model gives the 37 remediation codemods and their transformer classes; for each class a role-based facts "
        "analysis (branch facts, helper call-site meets, gated collections, driven helper visitors) decides that every change effect "
        "is reached only under a result-based gate; the per-file/per-rule lookup in _process_file and every Change construction are "
        "checked structurally."
    )
    rule_gate_result(ctx, rep)
    rule_rule_keyed(ctx, rep)
    rule_change_findings(ctx, rep)
    rule_findings_lookup(ctx, rep)
    rule_requested_rules(ctx, rep)
    rule_requested_rules_frozen(ctx, rep)
    rule_open_status(ctx, rep)
    rule_match_columns(ctx, rep)
    rule_candidates_all(ctx, rep)
    from .c12 import rule_location_file_verbatim

    # findings reach a file only under the very path the directory walk yields for it
    rule_location_file_verbatim(ctx, rep)
    from .c12 import rule_results_all_added

    # 'exactly those k are rewritten': a finding the reader drops is a reported site that stays unfixed
    rule_results_all_added(ctx, rep)
    from .c16 import rule_args_info_fresh

    # a reported site stays unfixed when an earlier site of the run consumed the shared argument specification
    rule_args_info_fresh(ctx, rep)
    from .c09 import rule_fresh_visitor

    # a reported site is skipped when a helper visitor still holds what it gathered for an earlier site
    rule_fresh_visitor(ctx, rep)
    rep.not_covered += ["column arithmetic of match_location against each tool's real output", "closed/resolved issue filtering beyond the Sonar status test"]
