"""C17 — exactly the requested codemods run, once each, in the requested order.

R-SELECT-UNIQUE    every list returned by match_codemods is duplicate-free by construction
R-GLOB-ANCHORED    a user pattern turned into a matcher is escaped and matched in full (fnmatch or re.escape + fullmatch)
R-ORDER-PRESERVED  include branch iterates the user's list in order, wildcards expand in registry order; run() passes the
                   selection unchanged to apply_codemods and compile_results
R-CLI-EXCLUSIVE    --codemod-include/--codemod-exclude share one mutually exclusive group and de-duplicating CsvListAction
R-REGISTRY-ORDER   the registry is not built by iterating an unordered collection (shared with C11)
"""
from __future__ import annotations

import ast

from ..model import AnalysisError, FuncInfo, bind_args, call_name, last_attr, names_in, unparse, walk_no_nested

MATCH = "codemodder.registry.CodemodRegistry.match_codemods"
RUN = "codemodder.codemodder.run"


def _dict_locals(fn: FuncInfo) -> set[str]:
    out = set()
    for n in walk_no_nested(fn.node):
        if isinstance(n, (ast.Assign, ast.AnnAssign)):
            v = n.value
            tg = n.targets[0] if isinstance(n, ast.Assign) else n.target
            if isinstance(tg, ast.Name) and (isinstance(v, ast.Dict) or (isinstance(v, ast.Call) and call_name(v) in ("dict", "OrderedDict", "collections.OrderedDict"))):
                out.add(tg.id)
    return out


def _list_locals(fn: FuncInfo) -> set[str]:
    out = set()
    for n in walk_no_nested(fn.node):
        if isinstance(n, (ast.Assign, ast.AnnAssign)):
            v = n.value
            tg = n.targets[0] if isinstance(n, ast.Assign) else n.target
            if isinstance(tg, ast.Name) and (isinstance(v, ast.List) or (isinstance(v, ast.Call) and call_name(v) == "list" and not v.args)):
                out.add(tg.id)
    return out


UNIQUE_SOURCES = {"codemods", "_codemods_by_id.values"}  # the registry list / the id-keyed registry dict: one entry per id


def _selections(ctx, fn):
    from ..selection import Describer

    d = Describer(ctx, fn)
    rets = [n for n in walk_no_nested(fn.node) if isinstance(n, ast.Return) and n.value is not None]
    if not rets:
        raise AnalysisError("match_codemods has no return")
    return d, [(ret, d.describe(ret.value)) for ret in rets]


def _keyed_by_id(ctx, fn, ins) -> bool:
    """dict insertion `D[k] = v` where k is v's id: k == v.id, or v == REGISTRY_BY_ID[k] / .get(k)"""
    r = ctx.resolver(fn)
    key, val = ins.key, ins.value
    if isinstance(key, ast.Attribute) and key.attr == "id" and unparse(key.value) == unparse(val):
        return True
    v = r.expand(val)
    if isinstance(v, ast.NamedExpr):
        v = v.value
    if isinstance(v, ast.Name):
        # bound by a walrus in the guarding test (`if (c := BYID.get(k)) is None: ... else: D[k] = c`) or by the nearest
        # preceding assignment
        cands = []
        for must in ins.parts:
            for _pol, txt in must:
                if ":=" in txt:
                    try:
                        for x in ast.walk(ast.parse(txt, mode="eval")):
                            if isinstance(x, ast.NamedExpr) and x.target.id == v.id:
                                cands.append(x.value)
                    except SyntaxError:
                        pass
        if not cands:
            prev = [a for a in walk_no_nested(fn.node) if isinstance(a, ast.Assign) and any(isinstance(t, ast.Name) and t.id == v.id for t in a.targets) and a.lineno < ins.node.lineno]
            if prev:
                cands.append(max(prev, key=lambda a: a.lineno).value)
        if cands:
            v = cands[0]
    if isinstance(v, ast.Subscript) and unparse(v.slice) == unparse(key):
        return True
    if isinstance(v, ast.Call) and isinstance(v.func, ast.Attribute) and v.func.attr == "get" and v.args and unparse(v.args[0]) == unparse(key):
        return True
    return False


def _unique(ctx, fn, sel, fa) -> tuple[bool | None, str]:
    """(True, '') unique by construction; (False, why) a duplicate is possible; (None, why) shape not understood."""
    from ..selection import leaf_source

    if any(w in ("set", "frozenset") for w in sel.wrappers):
        return True, ""
    if sel.kind == "source":
        return (True, "") if sel.name in UNIQUE_SOURCES else (None, f"`{unparse(sel.expr)[:40]}` is not a known duplicate-free source")
    if sel.kind == "comp":
        leaf = leaf_source(sel)
        if leaf is not None and leaf.kind == "source" and leaf.name in UNIQUE_SOURCES:
            return True, ""
        if leaf is not None and leaf.kind in ("dictvals", "list"):
            return _unique(ctx, fn, leaf, fa)
        return None, f"filter over `{unparse(leaf.expr)[:40] if leaf is not None else '?'}`, whose uniqueness is not established"
    if sel.kind == "dictvals":
        for ins in sel.insertions:
            if not _keyed_by_id(ctx, fn, ins):
                return False, f"dict `{sel.name}` is not keyed by the codemod id at `{unparse(ins.node)[:60]}`"
        return True, ""
    if sel.kind == "list":
        for ins in sel.insertions:
            n = ins.node
            guarded = False
            if isinstance(n, ast.Call) and n.func.attr == "append":
                for must in ins.parts or [frozenset()]:
                    g = any((not pol) and txt.replace(" ", "").endswith(f"in{sel.name}") for pol, txt in must)
                    guarded = g
                    if not g:
                        break
            if not guarded:
                return False, (f"`{unparse(n)[:60]}` adds to the selection without a not-already-selected test: overlapping patterns "
                               "or a pattern plus a literal id select the same codemod twice")
        return True, ""
    return None, sel.why_unknown


def rule_select_unique(ctx, rep):
    rep.rule(
        "R-SELECT-UNIQUE",
        "each return of match_codemods yields the values of an id-keyed dict, a plain filter of the (duplicate-free) registry list, or a "
        "list every append of which is dominated by a not-already-present test — so no codemod can be selected twice whatever the pattern list",
        min_instances=2,
    )
    fn = ctx.prog.func(MATCH)
    fa = ctx.flow(fn)
    _d, sels = _selections(ctx, fn)
    for ret, sel in sels:
        ok, why = _unique(ctx, fn, sel, fa)
        if ok is None:
            raise AnalysisError(f"match_codemods: returned selection `{unparse(ret.value)[:50]}` not understood ({why})")
        rep.check("R-SELECT-UNIQUE", fn.qname, fn.loc(ret), ok, f"return#{sels.index((ret, sel))}:{sel.kind}", why or f"returns `{unparse(ret.value)[:60]}`, which is not unique by construction")


def _pattern_source(ctx, fn: FuncInfo, e: ast.expr, depth: int = 6):
    """Follow a compiled-pattern value back to the `re.compile(X)` that built it -> (function, X) or None."""
    r = ctx.resolver(fn)
    while depth > 0:
        depth -= 1
        if isinstance(e, ast.Name):
            sa = r.single_assignments()
            if e.id in sa:
                e = sa[e.id]
                continue
            # re-bound name: nearest preceding plain assignment wins over a loop variable of the same name
            prev = [
                a for a in walk_no_nested(fn.node)
                if isinstance(a, ast.Assign) and any(isinstance(t, ast.Name) and t.id == e.id for t in a.targets)
                and a.lineno <= getattr(e, "lineno", 0)
            ]
            comp_bound = any(
                isinstance(c, ast.comprehension) and isinstance(c.target, ast.Name) and c.target.id == e.id
                and any(x is e for g in walk_no_nested(fn.node) if isinstance(g, (ast.ListComp, ast.GeneratorExp, ast.SetComp)) and c in g.generators for x in ast.walk(g))
                for c in ast.walk(fn.node)
            )
            if prev and not comp_bound:
                e = max(prev, key=lambda a: a.lineno).value
                continue
            it = r._loop_iter_for(e.id)
            if isinstance(it, ast.Name):
                # a list filled element by element (`pats = []` ... `pats.append(re.compile(...))`): what is appended
                apps = [c.args[0] for c in walk_no_nested(fn.node) if isinstance(c, ast.Call) and isinstance(c.func, ast.Attribute) and c.func.attr == "append"
                        and isinstance(c.func.value, ast.Name) and c.func.value.id == it.id and c.args]
                if len(apps) == 1:
                    e = apps[0]
                    continue
            if it is not None:
                it = r.expand(it)
                if isinstance(it, (ast.ListComp, ast.GeneratorExp)):
                    e = it.elt
                    continue
                if isinstance(it, (ast.List, ast.Tuple)) and it.elts:
                    e = it.elts[0]
                    continue
                # a list filled element by element (`pats = []` ... `pats.append(re.compile(...))`): what is appended
                if isinstance(it, ast.Name):
                    apps = [c.args[0] for c in walk_no_nested(fn.node) if isinstance(c, ast.Call) and isinstance(c.func, ast.Attribute) and c.func.attr == "append"
                            and isinstance(c.func.value, ast.Name) and c.func.value.id == it.id and c.args]
                    if len(apps) == 1:
                        e = apps[0]
                        continue
            return None
        if isinstance(e, ast.Call):
            q = r.callee_qname(e) or ""
            if q == "re.compile" and e.args:
                return fn, e.args[0]
            for t in r.resolve_call(e):
                if isinstance(t, FuncInfo):
                    rets = [n.value for n in walk_no_nested(t.node) if isinstance(n, ast.Return) and n.value is not None]
                    if len(rets) == 1:
                        return _pattern_source(ctx, t, rets[0], depth)
            return None
        return None
    return None


def _predicate_factory(ctx, fn: FuncInfo, call: ast.Call):
    """`pred(x.id)` where pred is a local bound to `factory(...)`, a repo function that returns a nested function / lambda."""
    if not isinstance(call.func, ast.Name):
        return None
    r = ctx.resolver(fn)
    v = r.single_assignments().get(call.func.id)
    if not isinstance(v, ast.Call):
        return None
    for t in r.resolve_call(v):
        if isinstance(t, FuncInfo) and t.cls is None:
            rets = [n.value for n in walk_no_nested(t.node) if isinstance(n, ast.Return) and n.value is not None]
            nested = {x.name for x in ast.walk(t.node) if isinstance(x, ast.FunctionDef) and x is not t.node}
            if rets and all(isinstance(rv, ast.Lambda) or (isinstance(rv, ast.Name) and rv.id in nested) for rv in rets):
                return t
    return None


def _factory_regex_uses(ctx, fac: FuncInfo):
    """(use, function holding the compile, pattern expression, call node) for every regex application inside the factory, closure
    bodies included; a compiled pattern is traced through comprehension variables and local lists of the factory."""
    out = []
    assigns = {}
    for n in ast.walk(fac.node):
        if isinstance(n, ast.Assign):
            for t in n.targets:
                if isinstance(t, ast.Name):
                    assigns.setdefault(t.id, []).append(n.value)
    gens = [g for n in ast.walk(fac.node) if isinstance(n, (ast.ListComp, ast.GeneratorExp, ast.SetComp)) for g in n.generators]
    for n in ast.walk(fac.node):
        if not (isinstance(n, ast.Call) and isinstance(n.func, ast.Attribute) and n.func.attr in ("match", "search", "fullmatch")):
            continue
        e = n.func.value
        for _ in range(6):
            if isinstance(e, ast.Name):
                g = next((g for g in gens if isinstance(g.target, ast.Name) and g.target.id == e.id), None)
                if g is not None:
                    e = g.iter
                    continue
                vals = assigns.get(e.id, [])
                if len(vals) == 1:
                    e = vals[0]
                    continue
                break
            if isinstance(e, (ast.ListComp, ast.GeneratorExp, ast.SetComp)):
                e = e.elt
                continue
            break
        ps = _pattern_source(ctx, fac, e) if isinstance(e, ast.Call) else None
        if ps is None:
            out.append((n.func.attr, fac, e, n))
        else:
            out.append((n.func.attr, ps[0], ps[1], n))
    return out


def rule_glob_anchored(ctx, rep):
    rep.rule(
        "R-GLOB-ANCHORED",
        "where match_codemods matches a codemod id against a user pattern it uses fnmatch, or a regex built with re.escape and "
        "applied with fullmatch; `re.compile(p.replace('*', '.*')).match` is unanchored at the end and leaves metacharacters live",
        min_instances=2,
    )
    fn = ctx.prog.func(MATCH)
    r = ctx.resolver(fn)
    n_sites = 0
    for n in walk_no_nested(fn.node):
        if not isinstance(n, ast.Call):
            continue
        q = r.callee_qname(n) if isinstance(n.func, (ast.Name, ast.Attribute)) and not isinstance(getattr(n.func, "value", None), ast.Call) else None
        if q in ("fnmatch.fnmatch", "fnmatch.fnmatchcase", "fnmatch.filter"):
            n_sites += 1
            rep.instance("R-GLOB-ANCHORED", fn.qname, fn.loc(n), True, detail=q)
            continue
        use = None
        src = None
        if q in ("re.match", "re.search", "re.fullmatch") and n.args:
            use, src = q.split(".")[1], (fn, n.args[0])
        elif isinstance(n.func, ast.Attribute) and n.func.attr in ("match", "search", "fullmatch"):
            ps = _pattern_source(ctx, fn, n.func.value)
            if ps is not None:
                use, src = n.func.attr, ps
        if use is None:
            continue
        n_sites += 1
        sfn, x = src
        escaped = any(isinstance(c, ast.Call) and (ctx.resolver(sfn).callee_qname(c) or "") == "re.escape" for c in ast.walk(x))
        full = use == "fullmatch"
        ok = escaped and full
        rep.check("R-GLOB-ANCHORED", fn.qname, fn.loc(n), ok, f"{use}:{unparse(x)[:40]}",
                  f"user pattern becomes regex `{unparse(x)[:60]}` applied with .{use}(): "
                  + ", ".join(w for w, c in (("metacharacters not escaped", not escaped), ("not matched in full", not full)) if c)
                  + " (e.g. `*sql` also selects `.../sql-parameterization`)")
    # predicates over codemod ids that are not one of the recognised matchers: calls that take `<x>.id` directly (as
    # argument or receiver) anywhere in match_codemods; wrappers like any()/bool()/not are looked through
    n_other = 0
    for c in walk_no_nested(fn.node):
        if not isinstance(c, ast.Call):
            continue
        direct = [a for a in list(c.args) + [k.value for k in c.keywords] if isinstance(a, ast.Attribute) and a.attr == "id"]
        recv_id = isinstance(c.func, ast.Attribute) and isinstance(c.func.value, ast.Attribute) and c.func.value.attr == "id"
        if not direct and not recv_id:
            continue
        q = r.callee_qname(c) or ""
        la = last_attr(c.func) or ""
        if q.startswith(("fnmatch.", "re.")) or (la in ("match", "search", "fullmatch") and not recv_id):
            continue  # judged above
        if la in ("setdefault", "get", "append", "add", "debug", "info", "warning", "format", "pop") or q in ("str", "repr", "len", "hash"):
            continue  # bookkeeping with the id, not a pattern predicate
        fac = _predicate_factory(ctx, fn, c)
        if fac is not None:
            # `pred = make_matcher(patterns); pred(x.id)`: judge the regex uses inside the factory (closure included)
            uses = _factory_regex_uses(ctx, fac)
            if uses:
                for use, sfn, x, node in uses:
                    n_sites += 1
                    escaped = any(isinstance(c2, ast.Call) and (ctx.resolver(sfn).callee_qname(c2) or "") == "re.escape" for c2 in ast.walk(x))
                    full = use == "fullmatch"
                    rep.check("R-GLOB-ANCHORED", fac.qname, fac.loc(node), escaped and full, f"{use}:{unparse(x)[:40]}",
                              f"user pattern becomes regex `{unparse(x)[:60]}` applied with .{use}() inside the matcher factory {fac.name}: "
                              + ", ".join(w for w, cnd in (("metacharacters not escaped", not escaped), ("not matched in full", not full)) if cnd))
                continue
        n_other += 1
        rep.check("R-GLOB-ANCHORED", fn.qname, fn.loc(c), False, f"matcher:{unparse(c.func)[:30]}",
                  f"codemod ids are matched against user patterns through `{unparse(c)[:50]}`, which is neither fnmatch nor an escaped "
                  "regex applied with fullmatch: its treatment of `*` (prefix/infix/suffix, several stars) cannot be established")
    if n_sites + n_other < 2:
        raise AnalysisError("match_codemods no longer contains recognisable pattern matching for include and exclude")


def rule_order_preserved(ctx, rep):
    rep.rule(
        "R-ORDER-PRESERVED",
        "the include branch loops over the user-supplied list itself, wildcard expansion iterates self.codemods (registry order), "
        "and run() hands the same selection object to apply_codemods and compile_results",
        min_instances=4,
    )
    from ..selection import leaf_source

    fn = ctx.prog.func(MATCH)
    r = ctx.resolver(fn)
    pp = fn.positional_params()
    P_INC = pp[1] if len(pp) > 1 else "codemod_include"
    d, sels = _selections(ctx, fn)
    inc_ok, reg_ok = True, True
    inc_seen = reg_seen = 0
    why_inc = why_reg = ""
    for ret, sel in sels:
        if any(w in ("sorted", "set", "frozenset", "reversed", "reverse", "sort") for w in sel.wrappers):
            reg_ok = False
            why_reg = f"the selection is passed through {sel.wrappers} before it is returned"
        for ins in sel.insertions:
            # outermost loop that drives this insertion
            outer = ins.loops[0] if ins.loops else None
            if outer is not None:
                it = outer.iter
                osel = d.describe(it)
                if osel.kind == "source" and osel.name == "param:" + P_INC:
                    inc_seen += 1
                    if osel.wrappers:
                        inc_ok = False
                        why_inc = f"the include list is iterated through {osel.wrappers}"
                elif P_INC in names_in(it):
                    inc_seen += 1
                    inc_ok = False
                    why_inc = f"the include list is iterated as `{unparse(it)[:40]}`"
            # elements scanned from the registry: the scan must be the registry list itself, unwrapped
            chain = ins.source
            if chain is None and sel.kind == "comp":
                chain = sel
            leaf = leaf_source(chain) if chain is not None else None
            hops = chain
            while hops is not None and hops.kind == "comp":
                if any(w in ("sorted", "set", "frozenset", "reversed") for w in hops.wrappers):
                    reg_ok = False
                    why_reg = f"registry matches are passed through {hops.wrappers}"
                hops = hops.insertions[0].source
            if leaf is not None and leaf.kind == "source" and not leaf.name.startswith("param:"):
                reg_seen += 1
                if leaf.name != "codemods" or leaf.wrappers:
                    reg_ok = False
                    why_reg = f"registry scan iterates `{unparse(leaf.expr)[:40]}` {leaf.wrappers or ''} instead of self.codemods"
    rep.check("R-ORDER-PRESERVED", fn.qname, fn.loc(), inc_ok and inc_seen >= 1, "include-loop",
              "the include branch does not iterate the user's list directly (sorted/set/reversed would change the requested order): " + why_inc)
    rep.check("R-ORDER-PRESERVED", fn.qname, fn.loc(), reg_ok and reg_seen >= 2, "registry-order",
              "wildcard / exclude expansion does not iterate self.codemods in registry order: " + why_reg)
    cod = ctx.prog.func("codemodder.registry.CodemodRegistry.codemods")
    from ..selection import Describer

    rv = [n.value for n in walk_no_nested(cod.node) if isinstance(n, ast.Return) and n.value is not None]
    ok = len(rv) == 1
    if ok:
        cs = Describer(ctx, cod).describe(rv[0])
        ok = cs.kind == "source" and cs.name.endswith(".values") and not any(w in ("sorted", "set", "frozenset", "reversed") for w in cs.wrappers)
    rep.check("R-ORDER-PRESERVED", cod.qname, cod.loc(), ok, "codemods-property",
              "CodemodRegistry.codemods is no longer the insertion-ordered list of the id-keyed registry dict")
    rule_exec_order(ctx, rep, "R-ORDER-PRESERVED", declare=False)


def rule_exec_order(ctx, rep, rule_id="R-EXEC-ORDER", declare=True):
    """Shared with C03 / C09: the codemods execute in the order of the very list the report is compiled from (successive diffs of
    one file compose only in execution order)."""
    if declare:
        rep.rule(rule_id, "run() hands the same, un-reassigned selection to apply_codemods and compile_results, and apply_codemods loops "
                          "once over that parameter itself (no sorting / regrouping of the execution order)", 2)
    # run(): same object to both consumers, unmodified
    run = ctx.prog.func(RUN)
    rr = ctx.resolver(run)
    rr.single_assignments()
    sel_names = set()
    for n in walk_no_nested(run.node):
        if isinstance(n, ast.Assign) and isinstance(n.value, ast.Call) and last_attr(n.value.func) == "match_codemods":
            sel_names |= {t.id for t in n.targets if isinstance(t, ast.Name)}
    consumers = {}
    for n in walk_no_nested(run.node):
        if isinstance(n, ast.Call) and last_attr(n.func) in ("apply_codemods", "compile_results"):
            args = [unparse(a) for a in n.args] + [unparse(k.value) for k in n.keywords]
            consumers[last_attr(n.func)] = args
    ok = (
        len(sel_names) == 1
        and all(any(a in sel_names for a in args) for args in consumers.values())
        and set(consumers) == {"apply_codemods", "compile_results"}
        and rr._assign_counts.get(next(iter(sel_names), ""), 0) == 1
    )
    rep.check(rule_id, run.qname, run.loc(), ok, "selection-threading",
              f"run() does not pass the single, un-reassigned result of match_codemods to both apply_codemods and compile_results ({consumers})")
    ac = ctx.prog.func("codemodder.codemodder.apply_codemods")
    loops = [n for n in walk_no_nested(ac.node) if isinstance(n, ast.For)]
    it = loops[0].iter if loops else None
    while isinstance(it, ast.Call) and isinstance(it.func, ast.Name) and it.func.id in ("list", "tuple", "iter") and len(it.args) == 1 and not it.keywords:
        it = it.args[0]  # order-preserving copies
    ok = len(loops) == 1 and isinstance(it, ast.Name) and it.id in ac.params()
    rep.check(rule_id, ac.qname, ac.loc(loops[0]) if loops else ac.loc(), ok, "apply-loop",
              "apply_codemods does not loop once over its codemods parameter in the given order")
    # nothing but "the project has no files at all" (or an empty selection) may end apply_codemods before the loop
    fa = ctx.flow(ac)
    r = ctx.resolver(ac)
    for ret in [n for n in walk_no_nested(ac.node) if isinstance(n, ast.Return)]:
        if loops and ret.lineno > loops[0].lineno:
            continue
        bad = None
        st_ret = fa.state_at(ret)
        # every way of getting here (each alternative of the state) rests on "no files at all" or "nothing selected"
        for must, _may in (st_ret.parts if st_ret is not None else []):
            found_whole = False
            others = []
            for pol, txt in must:
                if txt.startswith(("EV:", "MATCH:", "ITER:")):
                    continue
                try:
                    e = ast.parse(txt, mode="eval").body
                except SyntaxError:
                    continue
                if isinstance(e, ast.Compare) and len(e.ops) == 1:
                    e = e.left  # `x is None`, `len(x) == 0`, `x == []`: still a statement about x
                while isinstance(e, ast.Call) and call_name(e) in ("len", "list", "bool") and e.args:
                    e = e.args[0]
                e = r.expand(e) if isinstance(e, ast.Name) else e
                whole = (isinstance(e, ast.Attribute) and e.attr == "files_to_analyze") or (isinstance(e, ast.Name) and e.id in ac.params())
                if whole and not pol:
                    found_whole = True
                elif not whole and not (isinstance(e, ast.Name) and e.id not in ac.params()) and not isinstance(e, ast.Constant):
                    others.append(txt)  # (plain locals only carry a value derived from the conditions: they are not conditions themselves)
            if not found_whole:
                bad = (others[0] if others else "a condition that is neither the emptiness of files_to_analyze nor of the selection")
        rep.check(rule_id, ac.qname, ac.loc(ret), bad is None, "skip-all-guard",
                  f"apply_codemods returns before running any codemod under `{(bad or '')[:60]}`: only an empty project (files_to_analyze) or an empty selection "
                  "means there is nothing to do - find_and_fix_paths, for one, applies default excludes that tool-driven codemods ignore")



def rule_cli_exclusive(ctx, rep):
    rep.rule(
        "R-CLI-EXCLUSIVE",
        "--codemod-include and --codemod-exclude are added to the same add_mutually_exclusive_group() and both use CsvListAction, "
        "whose items are de-duplicated in order",
        min_instances=3,
    )
    pa = ctx.prog.func("codemodder.cli.parse_args")
    groups = {}
    for n in walk_no_nested(pa.node):
        if isinstance(n, ast.Assign) and isinstance(n.value, ast.Call) and last_attr(n.value.func) == "add_mutually_exclusive_group":
            groups[n.targets[0].id] = n
    found = {}
    from ..cli_model import options as cli_options

    for o in cli_options(ctx):
        for fl in o.flags:
            if fl in ("--codemod-include", "--codemod-exclude"):
                found[fl] = (o.recv, unparse(o.kw["action"]) if "action" in o.kw else None)
    for opt in ("--codemod-include", "--codemod-exclude"):
        recv, action = found.get(opt, (None, None))
        ok = recv in groups and action == "CsvListAction" and len({v[0] for v in found.values()}) == 1
        rep.check("R-CLI-EXCLUSIVE", pa.qname, pa.loc(), ok, opt, f"{opt} is not registered on the shared mutually exclusive group with CsvListAction (receiver {recv}, action {action})")
    csv = ctx.prog.func("codemodder.cli.CsvListAction.__call__")
    # the stored list is the comma-split of the option value in the order written (duplicates are match_codemods' business)
    pp = csv.positional_params()
    P_VALUES = pp[3] if len(pp) > 3 else "values"
    stores = [n for n in walk_no_nested(csv.node) if isinstance(n, ast.Call) and call_name(n) == "setattr" and len(n.args) == 3]
    ok = bool(stores)
    why = "no setattr(namespace, dest, items)"
    for st in stores:
        ok, why = _order_preserving_split(ctx, csv, st.args[2], P_VALUES)
    rep.check("R-CLI-EXCLUSIVE", csv.qname, csv.loc(), ok, "split-in-order", "CsvListAction no longer stores the comma-separated items in the order given: " + why)


def _order_preserving_split(ctx, fn, e, p_values, depth: int = 8) -> tuple[bool, str]:
    """e evaluates to the items of `<values>.split(',')` in their original order (de-duplication allowed)."""
    r = ctx.resolver(fn)
    while depth > 0:
        depth -= 1
        if isinstance(e, ast.Name):
            # a list filled in a loop over the split
            from ..derive import ElemSources

            leaves = ElemSources(ctx, fn, order_matters=True).sources(e)
            if len(leaves) == 1 and leaves[0][0] is not e:
                e = leaves[0][0]
                continue
            x = r.expand(e)
            if x is e:
                return False, f"`{e.id}` is not derived from the option value"
            e = x
            continue
        if isinstance(e, ast.Call):
            cn = call_name(e)
            la = last_attr(e.func)
            if cn in ("list", "tuple") and len(e.args) == 1:
                e = e.args[0]
                continue
            if cn in ("set", "frozenset", "sorted", "reversed"):
                return False, f"items pass through {cn}()"
            if isinstance(e.func, ast.Attribute) and la in ("keys",) and not e.args:
                e = e.func.value
                continue
            if isinstance(e.func, ast.Attribute) and la == "fromkeys" and unparse(e.func.value) == "dict" and e.args:
                e = e.args[0]
                continue
            if isinstance(e.func, ast.Attribute) and la == "split" and unparse(e.func.value) == p_values:
                sep = e.args[0] if e.args else None
                if isinstance(sep, ast.Constant) and sep.value == ",":
                    return True, ""
                return False, "the value is not split on ','"
            return False, f"`{unparse(e)[:50]}`"
        if isinstance(e, (ast.ListComp, ast.GeneratorExp)) and len(e.generators) == 1 and isinstance(e.elt, ast.Name) and isinstance(e.generators[0].target, ast.Name) and e.elt.id == e.generators[0].target.id:
            if e.generators[0].ifs:
                return False, f"items are filtered (`if {unparse(e.generators[0].ifs[0])[:30]}`): a list that then becomes empty is read as 'no list given' and selects the default set"
            e = e.generators[0].iter
            continue
        return False, f"`{unparse(e)[:50]}`"
    return False, "derivation too deep"


def rule_registry_order(ctx, rep):
    from .c11 import unordered_iterations

    rep.rule("R-REGISTRY-ORDER", "the registry load loop does not iterate an unordered collection (registry order = execution order for wildcards and defaults)", 1)
    fn = ctx.prog.func("codemodder.registry.load_registered_codemods")
    bad = [u for u in unordered_iterations(ctx, fn)]
    rep.check("R-REGISTRY-ORDER", fn.qname, fn.loc(bad[0][0]) if bad else fn.loc(), not bad, "load-loop",
              "registry is built by iterating " + ", ".join(f"`{unparse(src)[:50]}`" for _, src, _ in bad) + ": codemod order depends on the hash seed")


MUTATING_METHODS = {"append", "extend", "insert", "remove", "pop", "clear", "sort", "reverse", "update", "add", "discard", "setdefault", "popitem", "difference_update", "intersection_update"}


def _mutated_params(ctx, fn, depth: int = 2, _seen=None) -> set[str]:
    """parameters of `fn` whose object is changed in place by fn (a mutating method, item / slice store, `del p[..]`, `p += ..`), directly or
    by handing them on to a repo function that does (depth-bounded)"""
    _seen = _seen if _seen is not None else set()
    if fn.qname in _seen:
        return set()
    _seen.add(fn.qname)
    params = set(fn.params())
    out = set()
    r = ctx.resolver(fn)
    for n in walk_no_nested(fn.node):
        if isinstance(n, ast.Call) and isinstance(n.func, ast.Attribute) and n.func.attr in MUTATING_METHODS and isinstance(n.func.value, ast.Name) and n.func.value.id in params:
            out.add(n.func.value.id)
        elif isinstance(n, (ast.Assign, ast.AugAssign, ast.Delete)):
            tgts = n.targets if isinstance(n, (ast.Assign, ast.Delete)) else [n.target]
            for t in tgts:
                if isinstance(t, ast.Subscript) and isinstance(t.value, ast.Name) and t.value.id in params:
                    out.add(t.value.id)
                if isinstance(n, ast.AugAssign) and isinstance(t, ast.Name) and t.id in params:
                    out.add(t.id)  # `p += [...]` extends a list in place
        elif isinstance(n, ast.Call) and depth > 0:
            for t in r.resolve_call(n):
                if isinstance(t, FuncInfo) and t is not fn:
                    mp = _mutated_params(ctx, t, depth - 1, _seen)
                    if mp:
                        b = bind_args(n, t, isinstance(n.func, ast.Attribute) and t.cls is not None and "staticmethod" not in t.decorators())
                        for p_, a in b.items():
                            if p_ in mp and isinstance(a, ast.Name) and a.id in params:
                                out.add(a.id)
    # a parameter rebound before the mutation (`p = list(p)`) is a copy: not the caller's object any more
    rebound = {t.id for n in walk_no_nested(fn.node) if isinstance(n, ast.Assign) for t in n.targets if isinstance(t, ast.Name)}
    return out - rebound


def rule_namespace_frozen(ctx, rep):
    from ..sites import cli_namespace_names

    rep.rule(
        "R-CLI-NAMESPACE-FROZEN",
        "the parsed command line is read-only in run(): no option value is assigned, changed in place (`argv.sarif.remove(..)`, `del`, `+=`) or "
        "handed -- itself or as `argv.x or []`, which is the same list when it is non-empty -- to a repo function that changes that parameter in "
        "place.  The eligibility mode (`sast_only`) and the include / exclude lists are derived from the option values *after* the result files "
        "have been looked at; a helper that prunes the list it was given changes which codemods are eligible",
        min_instances=3,
    )
    run = ctx.prog.func(RUN)
    ns = cli_namespace_names(ctx, run)
    if not ns:
        raise AnalysisError("run(): the local holding parse_args(...) was not found")
    r = ctx.resolver(run)

    def option_of(e):
        """`argv.x`, `argv.x or <default>` -> x"""
        if isinstance(e, ast.BoolOp) and isinstance(e.op, ast.Or):
            e = e.values[0]
        if isinstance(e, ast.Attribute) and isinstance(e.value, ast.Name) and e.value.id in ns:
            return e.attr
        return None

    n = 0
    for a in walk_no_nested(run.node):
        if isinstance(a, (ast.Assign, ast.AugAssign, ast.Delete)):
            for t in (a.targets if isinstance(a, (ast.Assign, ast.Delete)) else [a.target]):
                base = t.value if isinstance(t, ast.Subscript) else t
                if option_of(base) is not None:
                    n += 1
                    rep.check("R-CLI-NAMESPACE-FROZEN", run.qname, run.loc(a), False, f"store:{option_of(base)}", f"`{unparse(a)[:60]}` changes the parsed option `{option_of(base)}`")
        if not isinstance(a, ast.Call):
            continue
        if isinstance(a.func, ast.Attribute) and a.func.attr in MUTATING_METHODS and option_of(a.func.value) is not None:
            n += 1
            rep.check("R-CLI-NAMESPACE-FROZEN", run.qname, run.loc(a), False, f"mutate:{option_of(a.func.value)}", f"`{unparse(a)[:60]}` changes the parsed option in place")
            continue
        passed = [(i, x) for i, x in enumerate(a.args) if option_of(x) is not None] + [(k.arg, k.value) for k in a.keywords if k.arg and option_of(k.value) is not None]
        if not passed:
            continue
        for t in r.resolve_call(a):
            if not isinstance(t, FuncInfo):
                continue
            mp = _mutated_params(ctx, t)
            b = bind_args(a, t, isinstance(a.func, ast.Attribute) and t.cls is not None and "staticmethod" not in t.decorators())
            for p_, v in b.items():
                if option_of(v) is None:
                    continue
                n += 1
                rep.check("R-CLI-NAMESPACE-FROZEN", run.qname, run.loc(a), p_ not in mp, f"arg:{option_of(v)}->{t.name}",
                          f"`{unparse(v)[:40]}` is handed to {t.qname}, which changes its parameter `{p_}` in place: the option value run() reads afterwards "
                          "(eligibility mode, include / exclude lists) is no longer what the user gave")
    if n < 3:
        raise AnalysisError(f"run(): only {n} option values handed to repo functions found")


def rule_sast_only_source(ctx, rep):
    rep.rule(
        "R-SAST-ONLY-SOURCE",
        "run() derives match_codemods' sast_only argument only from the Sonar-issues and SARIF options (the inputs that make "
        "tool-specific codemods the eligible set), and match_codemods uses it in exactly one eligibility test",
        min_instances=2,
    )
    run = ctx.prog.func(RUN)
    calls = [c for c in walk_no_nested(run.node) if isinstance(c, ast.Call) and last_attr(c.func) == "match_codemods"]
    if not calls:
        raise AnalysisError("run() no longer calls match_codemods")
    for c in calls:
        a = next((k.value for k in c.keywords if k.arg == "sast_only"), c.args[2] if len(c.args) > 2 else None)
        a = ctx.resolver(run).expand(a) if a is not None else None
        attrs = {n.attr for n in ast.walk(a) if isinstance(n, ast.Attribute)} if a is not None else set()
        names = {n.id for n in ast.walk(a) if isinstance(n, ast.Name)} if a is not None else set()
        from ..sites import cli_namespace_names

        ok = a is not None and attrs == {"sonar_issues_json", "sarif"} and names <= (cli_namespace_names(ctx, run) | {"bool"})
        rep.check("R-SAST-ONLY-SOURCE", run.qname, run.loc(c), ok, "sast_only-arg",
                  f"sast_only is computed from `{unparse(a) if a is not None else 'nothing'}` rather than from argv.sonar_issues_json / argv.sarif: "
                  "hotspot-only or DefectDojo-only inputs (or an unrecognised SARIF) flip the eligible set")
    from ..logic import consistent_assignments
    from ..selection import chain_facts

    fn = ctx.prog.func(MATCH)
    r = ctx.resolver(fn)
    pp = fn.positional_params()
    P_INC, P_SAST = (pp[1], pp[3]) if len(pp) > 3 else ("codemod_include", "sast_only")

    def atom(e):
        if isinstance(e, ast.Name):
            if e.id == P_SAST:
                return "S"
            if e.id == P_INC:
                return "INC"
            x = r.expand(e)
            if x is not e:
                return x
        if isinstance(e, ast.Compare) and len(e.ops) == 1 and isinstance(e.ops[0], (ast.Eq, ast.NotEq)):
            l, rt = e.left, e.comparators[0]
            for a_, b_ in ((l, rt), (rt, l)):
                if isinstance(a_, ast.Attribute) and a_.attr == "origin" and isinstance(b_, ast.Constant) and b_.value == "pixee":
                    return "O" if isinstance(e.ops[0], ast.Eq) else "!O"
        return None

    _d, sels = _selections(ctx, fn)
    n_elig = 0
    for ret, sel in sels:
        for ins in sel.insertions:
            envs = []
            for must in chain_facts(ins):
                for env in consistent_assignments(must, atom, ["INC", "S", "O"]):
                    if env not in envs:
                        envs.append(env)
            # an insertion made without an include list (exclude / default mode) takes exactly the eligible codemods:
            # tool-specific ones (origin != pixee) when sast_only, find-and-fix ones (origin == pixee) otherwise
            no_inc = [e_ for e_ in envs if not e_["INC"]]
            if not no_inc:
                continue
            n_elig += 1
            got = sorted((e_["S"], e_["O"]) for e_ in no_inc)
            ok = got == [(False, True), (True, False)]
            rep.check("R-SAST-ONLY-SOURCE", fn.qname, fn.loc(ins.node), ok, "eligibility-test",
                      "without an include list a codemod is selected under (sast_only, origin == 'pixee') in " + str(got)
                      + " instead of exactly [(False, True), (True, False)]: the eligible set is not `sast_only xor pixee`")
    if n_elig == 0:
        raise AnalysisError("match_codemods: no insertion reachable without an include list (exclude/default branch not recognised)")


def check(ctx, rep):
    rep.explanation = (
        "match_codemods' returns are traced to their construction (id-keyed dict vs guarded list), its pattern matchers are "
        "classified (fnmatch / escaped fullmatch vs unanchored replace-regex), and the selection is followed from run() into "
        "apply_codemods and compile_results."
    )
    rule_select_unique(ctx, rep)
    rule_glob_anchored(ctx, rep)
    rule_order_preserved(ctx, rep)
    rule_cli_exclusive(ctx, rep)
    rule_registry_order(ctx, rep)
    rule_sast_only_source(ctx, rep)
    rule_namespace_frozen(ctx, rep)
    # an empty project listing ends apply_codemods before the loop: every selected codemod is then reported without having run
    from .c05 import rule_enum_siblings

    rule_enum_siblings(ctx, rep)
    from .c15 import rule_one_result

    rule_one_result(ctx, rep)
    from .c09 import rule_memo_coherent

    # the registry is filled collection by collection: a memoised listing of it hides what is registered later from every selection
    rule_memo_coherent(ctx, rep)
    from .c20 import rule_parser_plain

    rule_parser_plain(ctx, rep)
    rep.not_covered += ["regex/fnmatch semantics over arbitrary pattern lists and registries", "sast_only eligibility beyond its presence in both branches"]
