"""C17 — exactly the requested codemods run, once each, in the requested order.

R-SELECT-UNIQUE    every list returned by match_codemods is duplicate-free by construction
R-GLOB-ANCHORED    a user pattern turned into a matcher is escaped and matched in full (fnmatch or re.escape + fullmatch)
R-ORDER-PRESERVED  include branch iterates the user's list in order, wildcards expand in registry order; run() passes the
                   selection unchanged to apply_codemods and compile_results
R-CLI-EXCLUSIVE    --codemod-include/--codemod-exclude share one mutually exclusive group and de-duplicating CsvListAction
R-REGISTRY-ORDER   the registry is not built by iterating an unordered collection (shared with C11)
"""
from __future__ import annotations

import ast

from ..model import AnalysisError, FuncInfo, call_name, last_attr, names_in, unparse, walk_no_nested

MATCH = "codemodder.registry.CodemodRegistry.match_codemods"
RUN = "codemodder.codemodder.run"


def _dict_locals(fn: FuncInfo) -> set[str]:
    out = set()
    for n in walk_no_nested(fn.node):
        if isinstance(n, (ast.Assign, ast.AnnAssign)):
            v = n.value
            tg = n.targets[0] if isinstance(n, ast.Assign) else n.target
            if isinstance(tg, ast.Name) and (isinstance(v, ast.Dict) or (isinstance(v, ast.Call) and call_name(v) in ("dict", "OrderedDict", "collections.OrderedDict"))):
                out.add(tg.id)
    return out


def _list_locals(fn: FuncInfo) -> set[str]:
    out = set()
    for n in walk_no_nested(fn.node):
        if isinstance(n, (ast.Assign, ast.AnnAssign)):
            v = n.value
            tg = n.targets[0] if isinstance(n, ast.Assign) else n.target
            if isinstance(tg, ast.Name) and (isinstance(v, ast.List) or (isinstance(v, ast.Call) and call_name(v) == "list" and not v.args)):
                out.add(tg.id)
    return out


def rule_select_unique(ctx, rep):
    rep.rule(
        "R-SELECT-UNIQUE",
        "each return of match_codemods yields `list(D.values())` of an id-keyed dict, or a list every append/extend of which is "
        "dominated by a not-already-present test — so no codemod can be selected twice whatever the pattern list",
        min_instances=2,
    )
    fn = ctx.prog.func(MATCH)
    fa = ctx.flow(fn)
    dicts = _dict_locals(fn)
    lists = _list_locals(fn)
    rets = [n for n in walk_no_nested(fn.node) if isinstance(n, ast.Return) and n.value is not None]
    if len(rets) < 1:
        raise AnalysisError("match_codemods has no return")
    for ret in rets:
        v = ret.value
        ok = False
        why = f"returns `{unparse(v)[:60]}`, which is not unique by construction"
        if isinstance(v, ast.Call) and call_name(v) == "list" and v.args and isinstance(v.args[0], ast.Call) and last_attr(v.args[0].func) == "values":
            d = v.args[0].func.value
            if isinstance(d, ast.Name) and d.id in dicts:
                ok = True
                # keys must be codemod ids
                for n in walk_no_nested(fn.node):
                    key = val = None
                    if isinstance(n, ast.Assign) and isinstance(n.targets[0], ast.Subscript) and unparse(n.targets[0].value) == d.id:
                        key, val = n.targets[0].slice, n.value
                    elif isinstance(n, ast.Call) and last_attr(n.func) == "setdefault" and isinstance(n.func, ast.Attribute) and unparse(n.func.value) == d.id and len(n.args) == 2:
                        key, val = n.args
                    if key is None:
                        continue
                    key_is_id = (isinstance(key, ast.Attribute) and key.attr == "id" and unparse(key.value) == unparse(val)) or (
                        isinstance(val, ast.Subscript) and unparse(val.slice) == unparse(key)
                    ) or (isinstance(ctx.resolver(fn).expand(val), ast.Subscript) and unparse(ctx.resolver(fn).expand(val).slice) == unparse(key))
                    if not key_is_id:
                        ok = False
                        why = f"dict `{d.id}` is not keyed by the codemod id at `{unparse(n)[:60]}`"
        elif isinstance(v, ast.Name) and v.id in lists:
            ok = True
            for n in walk_no_nested(fn.node):
                if isinstance(n, ast.Call) and last_attr(n.func) in ("append", "extend", "insert") and isinstance(n.func, ast.Attribute) and unparse(n.func.value) == v.id:
                    guarded = any((not pol) and f" in {v.id}" in txt for pol, txt in fa.must_at(n)) or any(
                        pol and f"not in {v.id}" in txt for pol, txt in fa.must_at(n)
                    )
                    if last_attr(n.func) == "extend":
                        guarded = False
                    if not guarded:
                        ok = False
                        why = (
                            f"`{unparse(n)[:60]}` adds to the selection without a not-already-selected test: overlapping patterns "
                            "or a pattern plus a literal id select the same codemod twice"
                        )
        rep.check("R-SELECT-UNIQUE", fn.qname, fn.loc(ret), ok, f"return {unparse(v)[:40]}", why)


def _pattern_source(ctx, fn: FuncInfo, e: ast.expr, depth: int = 6):
    """Follow a compiled-pattern value back to the `re.compile(X)` that built it -> (function, X) or None."""
    r = ctx.resolver(fn)
    while depth > 0:
        depth -= 1
        if isinstance(e, ast.Name):
            sa = r.single_assignments()
            if e.id in sa:
                e = sa[e.id]
                continue
            # re-bound name: nearest preceding plain assignment wins over a loop variable of the same name
            prev = [
                a for a in walk_no_nested(fn.node)
                if isinstance(a, ast.Assign) and any(isinstance(t, ast.Name) and t.id == e.id for t in a.targets)
                and a.lineno <= getattr(e, "lineno", 0)
            ]
            comp_bound = any(
                isinstance(c, ast.comprehension) and isinstance(c.target, ast.Name) and c.target.id == e.id
                and any(x is e for g in walk_no_nested(fn.node) if isinstance(g, (ast.ListComp, ast.GeneratorExp, ast.SetComp)) and c in g.generators for x in ast.walk(g))
                for c in ast.walk(fn.node)
            )
            if prev and not comp_bound:
                e = max(prev, key=lambda a: a.lineno).value
                continue
            it = r._loop_iter_for(e.id)
            if it is not None:
                it = r.expand(it)
                if isinstance(it, (ast.ListComp, ast.GeneratorExp)):
                    e = it.elt
                    continue
                if isinstance(it, (ast.List, ast.Tuple)) and it.elts:
                    e = it.elts[0]
                    continue
            return None
        if isinstance(e, ast.Call):
            q = r.callee_qname(e) or ""
            if q == "re.compile" and e.args:
                return fn, e.args[0]
            for t in r.resolve_call(e):
                if isinstance(t, FuncInfo):
                    rets = [n.value for n in walk_no_nested(t.node) if isinstance(n, ast.Return) and n.value is not None]
                    if len(rets) == 1:
                        return _pattern_source(ctx, t, rets[0], depth)
            return None
        return None
    return None


def rule_glob_anchored(ctx, rep):
    rep.rule(
        "R-GLOB-ANCHORED",
        "where match_codemods matches a codemod id against a user pattern it uses fnmatch, or a regex built with re.escape and "
        "applied with fullmatch; `re.compile(p.replace('*', '.*')).match` is unanchored at the end and leaves metacharacters live",
        min_instances=2,
    )
    fn = ctx.prog.func(MATCH)
    r = ctx.resolver(fn)
    n_sites = 0
    for n in walk_no_nested(fn.node):
        if not isinstance(n, ast.Call):
            continue
        q = r.callee_qname(n) if isinstance(n.func, (ast.Name, ast.Attribute)) and not isinstance(getattr(n.func, "value", None), ast.Call) else None
        if q in ("fnmatch.fnmatch", "fnmatch.fnmatchcase", "fnmatch.filter"):
            n_sites += 1
            rep.instance("R-GLOB-ANCHORED", fn.qname, fn.loc(n), True, detail=q)
            continue
        use = None
        src = None
        if q in ("re.match", "re.search", "re.fullmatch") and n.args:
            use, src = q.split(".")[1], (fn, n.args[0])
        elif isinstance(n.func, ast.Attribute) and n.func.attr in ("match", "search", "fullmatch"):
            ps = _pattern_source(ctx, fn, n.func.value)
            if ps is not None:
                use, src = n.func.attr, ps
        if use is None:
            continue
        n_sites += 1
        sfn, x = src
        escaped = any(isinstance(c, ast.Call) and (ctx.resolver(sfn).callee_qname(c) or "") == "re.escape" for c in ast.walk(x))
        full = use == "fullmatch"
        ok = escaped and full
        rep.check("R-GLOB-ANCHORED", fn.qname, fn.loc(n), ok, f"{use}:{unparse(x)[:40]}",
                  f"user pattern becomes regex `{unparse(x)[:60]}` applied with .{use}(): "
                  + ", ".join(w for w, c in (("metacharacters not escaped", not escaped), ("not matched in full", not full)) if c)
                  + " (e.g. `*sql` also selects `.../sql-parameterization`)")
    # predicates over codemod ids that are not one of the recognised matchers
    recognised_lines = set()
    for n in walk_no_nested(fn.node):
        if isinstance(n, ast.Call) and (
            (isinstance(n.func, ast.Attribute) and n.func.attr in ("match", "search", "fullmatch")) or (r.callee_qname(n) or "").startswith(("fnmatch.", "re."))
        ):
            recognised_lines.add(id(n))
    n_other = 0
    for comp in walk_no_nested(fn.node):
        conds = []
        if isinstance(comp, (ast.ListComp, ast.GeneratorExp)):
            for g in comp.generators:
                if isinstance(g.iter, ast.Attribute) and g.iter.attr == "codemods":
                    conds += g.ifs
            if isinstance(comp.elt, ast.Call) and any("patterns" in unparse(g.iter) or "matchers" in unparse(g.iter) for g in comp.generators):
                conds.append(comp.elt)
        for cnd in conds:
            calls = [c for c in ast.walk(cnd) if isinstance(c, ast.Call) and ".id" in unparse(c)]
            for c in calls:
                if id(c) in recognised_lines:
                    continue
                n_other += 1
                rep.check("R-GLOB-ANCHORED", fn.qname, fn.loc(c), False, f"matcher:{unparse(c.func)[:30]}",
                          f"codemod ids are matched against user patterns through `{unparse(c)[:50]}`, which is neither fnmatch nor an escaped "
                          "regex applied with fullmatch: its treatment of `*` (prefix/infix/suffix, several stars) cannot be established")
    if n_sites + n_other < 2:
        raise AnalysisError("match_codemods no longer contains recognisable pattern matching for include and exclude")


def rule_order_preserved(ctx, rep):
    rep.rule(
        "R-ORDER-PRESERVED",
        "the include branch loops over the user-supplied list itself, wildcard expansion iterates self.codemods (registry order), "
        "and run() hands the same selection object to apply_codemods and compile_results",
        min_instances=4,
    )
    fn = ctx.prog.func(MATCH)
    r = ctx.resolver(fn)
    loops = [n for n in walk_no_nested(fn.node) if isinstance(n, ast.For)]
    inc = [l for l in loops if "codemod_include" in names_in(l.iter)]
    ok = bool(inc) and all(isinstance(l.iter, ast.Name) for l in inc)
    rep.check("R-ORDER-PRESERVED", fn.qname, fn.loc(inc[0]) if inc else fn.loc(), ok, "include-loop",
              "the include branch does not iterate the user's list directly (sorted/set/reversed would change the requested order)")
    # wildcard expansion in registry order
    comps = [n for n in walk_no_nested(fn.node) if isinstance(n, (ast.ListComp, ast.GeneratorExp, ast.For))]
    reg_iters = []
    for n in comps:
        it = n.generators[0].iter if not isinstance(n, ast.For) else n.iter
        if isinstance(it, ast.Attribute) and it.attr == "codemods" and unparse(it.value) == "self":
            reg_iters.append(n)
    rep.check("R-ORDER-PRESERVED", fn.qname, fn.loc(reg_iters[0]) if reg_iters else fn.loc(), len(reg_iters) >= 2, "registry-order",
              "wildcard / exclude expansion does not iterate self.codemods in registry order")
    cod = ctx.prog.func("codemodder.registry.CodemodRegistry.codemods")
    rv = [n.value for n in walk_no_nested(cod.node) if isinstance(n, ast.Return)]
    ok = len(rv) == 1 and unparse(rv[0]).replace(" ", "") == "list(self._codemods_by_id.values())"
    rep.check("R-ORDER-PRESERVED", cod.qname, cod.loc(), ok, "codemods-property",
              "CodemodRegistry.codemods is no longer the insertion-ordered list of the id-keyed registry dict")
    # run(): same object to both consumers, unmodified
    run = ctx.prog.func(RUN)
    rr = ctx.resolver(run)
    rr.single_assignments()
    sel_names = set()
    for n in walk_no_nested(run.node):
        if isinstance(n, ast.Assign) and isinstance(n.value, ast.Call) and last_attr(n.value.func) == "match_codemods":
            sel_names |= {t.id for t in n.targets if isinstance(t, ast.Name)}
    consumers = {}
    for n in walk_no_nested(run.node):
        if isinstance(n, ast.Call) and last_attr(n.func) in ("apply_codemods", "compile_results"):
            args = [unparse(a) for a in n.args]
            consumers[last_attr(n.func)] = args
    ok = (
        len(sel_names) == 1
        and all(any(a in sel_names for a in args) for args in consumers.values())
        and set(consumers) == {"apply_codemods", "compile_results"}
        and rr._assign_counts.get(next(iter(sel_names), ""), 0) == 1
    )
    rep.check("R-ORDER-PRESERVED", run.qname, run.loc(), ok, "selection-threading",
              f"run() does not pass the single, un-reassigned result of match_codemods to both apply_codemods and compile_results ({consumers})")
    ac = ctx.prog.func("codemodder.codemodder.apply_codemods")
    loops = [n for n in walk_no_nested(ac.node) if isinstance(n, ast.For)]
    ok = len(loops) == 1 and isinstance(loops[0].iter, ast.Name) and loops[0].iter.id in ac.params()
    rep.check("R-ORDER-PRESERVED", ac.qname, ac.loc(loops[0]) if loops else ac.loc(), ok, "apply-loop",
              "apply_codemods does not loop once over its codemods parameter in the given order")


def rule_cli_exclusive(ctx, rep):
    rep.rule(
        "R-CLI-EXCLUSIVE",
        "--codemod-include and --codemod-exclude are added to the same add_mutually_exclusive_group() and both use CsvListAction, "
        "whose items are de-duplicated in order",
        min_instances=3,
    )
    pa = ctx.prog.func("codemodder.cli.parse_args")
    groups = {}
    for n in walk_no_nested(pa.node):
        if isinstance(n, ast.Assign) and isinstance(n.value, ast.Call) and last_attr(n.value.func) == "add_mutually_exclusive_group":
            groups[n.targets[0].id] = n
    found = {}
    for n in walk_no_nested(pa.node):
        if isinstance(n, ast.Call) and last_attr(n.func) == "add_argument" and n.args and isinstance(n.args[0], ast.Constant):
            if n.args[0].value in ("--codemod-include", "--codemod-exclude"):
                recv = unparse(n.func.value)
                action = next((unparse(k.value) for k in n.keywords if k.arg == "action"), None)
                found[n.args[0].value] = (recv, action)
    for opt in ("--codemod-include", "--codemod-exclude"):
        recv, action = found.get(opt, (None, None))
        ok = recv in groups and action == "CsvListAction" and len({v[0] for v in found.values()}) == 1
        rep.check("R-CLI-EXCLUSIVE", pa.qname, pa.loc(), ok, opt, f"{opt} is not registered on the shared mutually exclusive group with CsvListAction (receiver {recv}, action {action})")
    csv = ctx.prog.func("codemodder.cli.CsvListAction.__call__")
    txt = unparse(csv.node)
    ok = "dict.fromkeys" in txt and "split(','" in txt.replace('"', "'")
    rep.check("R-CLI-EXCLUSIVE", csv.qname, csv.loc(), ok, "dedup", "CsvListAction no longer de-duplicates items while preserving order")


def rule_registry_order(ctx, rep):
    from .c11 import unordered_iterations

    rep.rule("R-REGISTRY-ORDER", "the registry load loop does not iterate an unordered collection (registry order = execution order for wildcards and defaults)", 1)
    fn = ctx.prog.func("codemodder.registry.load_registered_codemods")
    bad = [u for u in unordered_iterations(ctx, fn)]
    rep.check("R-REGISTRY-ORDER", fn.qname, fn.loc(bad[0][0]) if bad else fn.loc(), not bad, "load-loop",
              "registry is built by iterating " + ", ".join(f"`{unparse(src)[:50]}`" for _, src, _ in bad) + ": codemod order depends on the hash seed")


def rule_sast_only_source(ctx, rep):
    rep.rule(
        "R-SAST-ONLY-SOURCE",
        "run() derives match_codemods' sast_only argument only from the Sonar-issues and SARIF options (the inputs that make "
        "tool-specific codemods the eligible set), and match_codemods uses it in exactly one eligibility test",
        min_instances=2,
    )
    run = ctx.prog.func(RUN)
    calls = [c for c in walk_no_nested(run.node) if isinstance(c, ast.Call) and last_attr(c.func) == "match_codemods"]
    if not calls:
        raise AnalysisError("run() no longer calls match_codemods")
    for c in calls:
        a = next((k.value for k in c.keywords if k.arg == "sast_only"), c.args[2] if len(c.args) > 2 else None)
        a = ctx.resolver(run).expand(a) if a is not None else None
        attrs = {n.attr for n in ast.walk(a) if isinstance(n, ast.Attribute)} if a is not None else set()
        names = {n.id for n in ast.walk(a) if isinstance(n, ast.Name)} if a is not None else set()
        ok = a is not None and attrs == {"sonar_issues_json", "sarif"} and names <= {"argv", "bool"}
        rep.check("R-SAST-ONLY-SOURCE", run.qname, run.loc(c), ok, "sast_only-arg",
                  f"sast_only is computed from `{unparse(a) if a is not None else 'nothing'}` rather than from argv.sonar_issues_json / argv.sarif: "
                  "hotspot-only or DefectDojo-only inputs (or an unrecognised SARIF) flip the eligible set")
    fn = ctx.prog.func(MATCH)
    uses = [n for n in walk_no_nested(fn.node) if isinstance(n, ast.Name) and n.id == "sast_only" and isinstance(n.ctx, ast.Load)]
    tests = [n for n in walk_no_nested(fn.node) if isinstance(n, ast.Compare) and "sast_only" in unparse(n) and "origin" in unparse(n)]
    rep.check("R-SAST-ONLY-SOURCE", fn.qname, fn.loc(tests[0]) if tests else fn.loc(), len(tests) == 1 and len(uses) == 1, "eligibility-test",
              "match_codemods no longer has exactly one eligibility test `sast_only xor origin == 'pixee'`")


def check(ctx, rep):
    rep.explanation = (
        "match_codemods' returns are traced to their construction (id-keyed dict vs guarded list), its pattern matchers are "
        "classified (fnmatch / escaped fullmatch vs unanchored replace-regex), and the selection is followed from run() into "
        "apply_codemods and compile_results."
    )
    rule_select_unique(ctx, rep)
    rule_glob_anchored(ctx, rep)
    rule_order_preserved(ctx, rep)
    rule_cli_exclusive(ctx, rep)
    rule_registry_order(ctx, rep)
    rule_sast_only_source(ctx, rep)
    rep.not_covered += ["regex/fnmatch semantics over arbitrary pattern lists and registries", "sast_only eligibility beyond its presence in both branches"]
