"""C02 — rewrites never introduce unbound names or drop bindings still in use.

R-IMPORT-PAIR           every module/function name a transformer emits by name is paired, on every path that emits it, with an
                        import scheduled for that name (add_needed_import & co), or is an alias-resolved existing token
R-IMPORT-REMOVAL-OWNER  only the allow-listed owners may delete or shrink import statements
R-NODETYPE              typed construction of libcst nodes: the operator slot of a ComparisonTarget receives an operator
"""
from __future__ import annotations

import ast

from ..flow import FlowAnalysis, has_event, may_event
from ..hooks import is_framework
from ..derive import ElemSources, expand_predicate
from ..model import AnalysisError, FuncInfo, call_name, last_attr, names_in, unparse, walk_no_nested
from ..templates import HOLE, emits_in, eval_templates_c, free_roots, import_events

# classes that may remove / shrink import statements, with the reason it is safe
IMPORT_REMOVAL_OWNERS = {
    "codemodder.codemods.transformations.remove_unused_imports.RemoveUnusedImportsTransformer": "removes only (alias, import) pairs gathered by libcst's GatherUnusedImportsVisitor (unused by construction)",
    "core_codemods.remove_future_imports.RemoveFutureImports": "__future__ feature names are never referenced as names",
    "codemodder.codemods.transformations.clean_imports.OrderImportsBlocksTransform": "re-emits every import of the block in sorted order (no alias dropped)",
}


def families(ctx):
    """transformer class -> list of (owner, method) incl. helper visitors, deduplicated over the registry."""
    out = {}
    for tq in sorted(ctx.registry.transformer_classes()):
        if tq in ctx.prog.classes:
            out[tq] = ctx.tmodel(tq)
    return out


def _module_like(template: str, root: str) -> bool:
    """root is used as a module / callable in the template (R.x or R(...)), not as a bare value."""
    try:
        tree = ast.parse(template.strip(), mode="eval")
    except SyntaxError:
        try:
            tree = ast.parse(template.strip())
        except SyntaxError:
            return False
    pm = {}
    for n in ast.walk(tree):
        for c in ast.iter_child_nodes(n):
            pm[id(c)] = n
    for n in ast.walk(tree):
        if isinstance(n, ast.Name) and n.id == root:
            p = pm.get(id(n))
            if isinstance(p, ast.Attribute) and p.value is n:
                return True
            if isinstance(p, ast.Call) and p.func is n:
                return True
    return False


def _helper_schedules(ctx, m: FuncInfo, call: ast.Call, root: str, must: bool, depth: int = 2) -> bool:
    """`self.helper(...)` whose body schedules an import providing root (on every normal exit if must, on some exit otherwise)."""
    f = call.func
    if depth <= 0 or not (isinstance(f, ast.Attribute) and isinstance(f.value, ast.Name) and f.value.id == "self") or m.cls is None:
        return False
    if f.attr in ("add_needed_import", "add_import"):
        return False
    t = ctx.prog.lookup_method(m.cls.qname, f.attr)
    if t is None or is_framework(t.qname) or t.qname == m.qname:
        return False

    def ev(c):
        if any(name == root or name == HOLE for name in import_events(ctx, t, c)):
            return "EV:imp"
        if _helper_schedules(ctx, t, c, root, must, depth - 1):
            return "EV:imp"
        return None

    if not any(isinstance(c, ast.Call) and ev(c) for c in walk_no_nested(t.node)):
        return False
    fa = FlowAnalysis(t.node, ev)
    exits = [e for e in fa.exits if e.kind != "raise"]
    if must:
        return bool(exits) and all(has_event(e.state, "EV:imp") for e in exits)
    return any(may_event(e.state, "EV:imp") for e in exits)


def _names_of(txt: str) -> set[str]:
    try:
        return {x.id for x in ast.walk(ast.parse(txt, mode="eval")) if isinstance(x, ast.Name)}
    except SyntaxError:
        return set()


def _pairing_ok(ctx, tm, owner, m: FuncInfo, emit_node: ast.AST, root: str, conds: frozenset, depth: int = 3, strict: bool = True) -> tuple[bool, str]:
    """An import providing `root` accompanies the emission.

    Same method (strict): the import has been scheduled on all paths reaching the emission, or on every exit that may have
    emitted (assumption-pruned by the template alternative's own conditions).
    Across methods (the helper returns the node / a flag and its caller imports `if something was produced`): value
    correlation is out of reach, so the caller must schedule the import on a path that follows the call (may-analysis)."""
    def ev(call):
        evs = []
        if call is emit_node:
            evs.append("EV:emit")
        for name in import_events(ctx, m, call):
            if name == root or name == HOLE:
                evs.append("EV:imp")
        if not evs and _helper_schedules(ctx, m, call, root, must=strict):
            evs.append("EV:imp")  # a helper of the family that schedules the import (on all of its exits when strict)
        return evs or None

    # conditions of the template alternative that mention only names bound once in the method survive those bindings
    r_ = ctx.resolver(m)
    once = set(r_.single_assignments()) - set(m.params())
    keep = {(p_, t_) for p_, t_ in conds if not t_.startswith(("EV:", "ITER:", "MATCH:")) and _names_of(t_) and (_names_of(t_) - {"self"}) <= (once | set(m.params()))}
    fa = FlowAnalysis(m.node, ev, entry=conds, assume_only_once_bound=keep)
    if not fa.reachable(emit_node):
        return True, "unreachable under its own condition"
    if has_event(fa.state_at(emit_node), "EV:imp"):
        return True, "import scheduled before the emission on all paths"
    emitting_exits = [e for e in fa.exits if e.kind != "raise" and may_event(e.state, "EV:emit")]
    if strict:
        if emitting_exits and all(has_event(e.state, "EV:imp") for e in emitting_exits):
            return True, "import scheduled on every emitting path"
    else:
        if any(may_event(e.state, "EV:imp") for e in emitting_exits):
            return True, "caller schedules the import on a path following the call"
    if any(may_event(e.state, "EV:imp") for e in emitting_exits) and not strict:
        return True, "import reachable after the call"
    if depth <= 0:
        return False, "no import on the emitting paths"
    sites = tm._sites().get(m.qname, [])
    if not sites:
        return False, "no import on some emitting path and no caller in the family"
    for o2, k, call in sites:
        ok, why = _pairing_ok(ctx, tm, o2, k, call, root, frozenset(), depth - 1, strict=False)
        if not ok:
            return False, f"caller {k.name} does not schedule the import either"
    return True, "import scheduled by every caller (conditionally on what the helper produced)"


def rule_import_pair(ctx, rep):
    rep.rule(
        "R-IMPORT-PAIR",
        "for every name-by-text emission (update_call_target / NewArg / add_arg_to_call / update_assign_rhs / parse_expression / "
        "parse_statement / cst.Name in value position) whose template reads a root identifier R that the codemod family imports "
        "somewhere, or uses as a module/callable (R.x / R(...)): on every path that may emit it, an import providing R has been "
        "scheduled (add_needed_import / AddImportsVisitor / add_import), in the method or in all of its callers; alias-resolved "
        "holes are bound by construction",
        min_instances=20,
    )
    seen_methods: set[str] = set()
    n_emits = 0
    for tq, tm in families(ctx).items():
        methods = tm.all_methods()
        imports_family: set[str] = set()
        for owner, m in methods:
            for c in walk_no_nested(m.node):
                if isinstance(c, ast.Call):
                    imports_family |= set(import_events(ctx, m, c))
        for owner, m in methods:
            key = m.qname
            for em in emits_in(ctx, m):
                # conditional alternatives of the template expression
                tex = None
                c = em.node
                la = last_attr(c.func)
                if em.api == "update_call_target":
                    tex = c.args[1]
                elif em.api == "NewArg":
                    tex = next((k.value for k in c.keywords if k.arg == "value"), c.args[1] if len(c.args) > 1 else None)
                elif em.api == "add_arg_to_call":
                    tex = c.args[2]
                elif em.api in ("update_assign_rhs",):
                    tex = c.args[1]
                elif em.api == "cst.Name":
                    tex = c.args[0] if c.args else next((k.value for k in c.keywords if k.arg == "value"), None)
                else:
                    tex = c.args[0] if c.args else None
                for s, conds in eval_templates_c(ctx, m, tex):
                    roots = free_roots(s) or set()
                    for root in sorted(roots):
                        judged = root in imports_family or _module_like(s, root)
                        if em.api == "cst.Name" and root not in imports_family:
                            judged = False
                        if em.api == "cst.Name" and isinstance(ctx.parents(m).get(id(em.node)), (ast.Assign, ast.AnnAssign)):
                            judged = False  # node bound to a local and reused in several positions: position unknown
                        if not judged:
                            continue
                        inst_key = (tq, key, root, s)
                        if inst_key in seen_methods:
                            continue
                        seen_methods.add(inst_key)
                        n_emits += 1
                        if root not in imports_family and HOLE not in imports_family:
                            rep.check("R-IMPORT-PAIR", tq, m.loc(em.node), False, f"{m.name}:{root}",
                                      f"emits `{s[:60]}` which reads `{root}` but no method of this codemod schedules an import for it")
                            continue
                        ok, why = _pairing_ok(ctx, tm, owner, m, em.node, root, conds)
                        rep.check("R-IMPORT-PAIR", tq, m.loc(em.node), ok, f"{m.name}:{root}",
                                  f"emits `{s[:60]}` reading `{root}` on a path where no import for `{root}` has been scheduled ({why}): "
                                  "unbound name in every file that does not already import it",
                                  api=em.api, template=s[:60], how=why)
    if n_emits < 20:
        raise AnalysisError(f"only {n_emits} judged emission sites found (>= 25 confirmed by hand)")


def rule_import_removal_owner(ctx, rep):
    rep.rule(
        "R-IMPORT-REMOVAL-OWNER",
        "among the classes reachable from the registry (transformers and the helper visitors they drive), only allow-listed owners "
        "have a leave_Import / leave_ImportFrom / leave_ImportAlias hook that can return something other than its updated node; "
        "everyone else removes imports through libcst's RemoveImportsVisitor.remove_unused_import* (which checks usage)",
        min_instances=3,
    )
    seen = set()
    n = 0
    for tq, tm in families(ctx).items():
        for e in tm.effects():
            if e.kind != "return-change":
                continue
            hook = e.method.name
            # effects in helpers delegated from leave_Import*: find the hooks of the owner class that are import hooks
            owner_cls = e.cls
            import_hooks = [h for h in ("leave_Import", "leave_ImportFrom", "leave_ImportAlias") if ctx.prog.lookup_method(owner_cls, h) is not None]
            is_import_effect = hook in ("leave_Import", "leave_ImportFrom", "leave_ImportAlias") or (
                import_hooks and "import" in hook.lower()
            )
            if not is_import_effect:
                continue
            k = (owner_cls, hook)
            if k in seen:
                continue
            seen.add(k)
            n += 1
            ok = owner_cls in IMPORT_REMOVAL_OWNERS
            rep.check("R-IMPORT-REMOVAL-OWNER", owner_cls, e.method.loc(e.node), ok, hook,
                      f"`{e.text[:60]}` rewrites/removes an import statement directly; only {sorted(x.split('.')[-1] for x in IMPORT_REMOVAL_OWNERS)} may do that "
                      "(others must use remove_unused_import*, which keeps imports that are still used)",
                      reason=IMPORT_REMOVAL_OWNERS.get(owner_cls))
    # owner-specific witness: the unused-import remover drops exactly the gathered (alias node, import node) pairs
    ru = ctx.prog.cls("codemodder.codemods.transformations.remove_unused_imports.RemoveUnusedImportsTransformer")
    m = ru.methods.get("leave_import_alike")
    ok = False
    why = "leave_import_alike vanished"
    if m is not None:
        orig = m.positional_params()[1] if len(m.positional_params()) > 1 else "original_node"
        why = "no filter of original_node.names by membership of (alias, original_node) in self.unused_imports"
        es = ElemSources(ctx, m, order_matters=True)
        cands = [x for x in walk_no_nested(m.node) if isinstance(x, (ast.ListComp, ast.GeneratorExp))]
        cands += [ast.Name(id=t.id, ctx=ast.Load()) for a in walk_no_nested(m.node) if isinstance(a, (ast.Assign, ast.AnnAssign))
                  for t in (a.targets if isinstance(a, ast.Assign) else [a.target]) if isinstance(t, ast.Name)]
        filtered = 0
        for cand in cands:
            for leaf, facts in es.sources(cand):
                if leaf is None or unparse(leaf) != f"{orig}.names" or not facts:
                    continue
                filtered += 1
                good = False
                for pol, txt in facts:
                    cond = expand_predicate(ctx, m, ast.parse(txt.replace("$E", "__E"), mode="eval").body)
                    while isinstance(cond, ast.UnaryOp) and isinstance(cond.op, ast.Not):
                        pol, cond = not pol, cond.operand
                    if (isinstance(cond, ast.Compare) and len(cond.ops) == 1 and isinstance(cond.left, ast.Tuple)
                            and [unparse(e) for e in cond.left.elts] == ["__E", orig] and unparse(cond.comparators[0]) == "self.unused_imports"
                            and ((isinstance(cond.ops[0], ast.NotIn) and pol) or (isinstance(cond.ops[0], ast.In) and not pol))):
                        good = True
                if not good:
                    why = f"aliases of {orig}.names are kept under {sorted(t for _, t in facts)}, not by membership of (alias, {orig}) in self.unused_imports"
                    filtered = -100
        ok = filtered > 0
    rep.check("R-IMPORT-REMOVAL-OWNER", ru.qname, (m or ru).loc(), ok, "identity-of-gathered-pairs",
              f"{why}: deciding by name/module instead of by the gathered node pairs removes a *used* import that merely looks like an unused one "
              "(e.g. module-level `import json` used, function-level `import json` unused)")
    giv_users = [
        fn for fn in ctx.prog.live_functions()
        if any(isinstance(c, ast.Call) and last_attr(c.func) == "RemoveUnusedImportsTransformer" for c in walk_no_nested(fn.node))
    ]
    for fn in giv_users:
        txt = unparse(fn.node)
        fed = "GatherUnusedImportsVisitor" in txt
        rep.check("R-IMPORT-REMOVAL-OWNER", fn.qname, fn.loc(), fed, "fed-by-gatherer",
                  "RemoveUnusedImportsTransformer is constructed from something other than libcst's GatherUnusedImportsVisitor results")
    # the libcst-checked removal API is what everybody else uses
    users = 0
    for fn in ctx.prog.live_functions():
        for c in walk_no_nested(fn.node):
            if isinstance(c, ast.Call) and last_attr(c.func) in ("remove_unused_import", "remove_unused_import_by_node"):
                users += 1
    rep.instance("R-IMPORT-REMOVAL-OWNER", "RemoveImportsVisitor users", "src/", True, detail=f"{users} call sites use the usage-checked removal API")
    if n < 2:
        raise AnalysisError("import-rewriting hooks of the allow-listed owners not found (anchor vanished)")


def rule_import_scheduled(ctx, rep):
    rep.rule(
        "R-IMPORT-SCHEDULED",
        "every framework wrapper around AddImportsVisitor.add_needed_import (a function that forwards its own module/object "
        "parameters) schedules the import on every path to a normal exit, with its parameters bound to the same roles: a wrapper "
        "that can return without scheduling leaves every `module.name(...)` its callers emit unbound",
        min_instances=1,
    )
    n = 0
    for fn in ctx.prog.live_functions():
        r = ctx.resolver(fn)
        calls = [c for c in walk_no_nested(fn.node) if isinstance(c, ast.Call) and last_attr(c.func) == "add_needed_import"
                 and isinstance(c.func, ast.Attribute) and (last_attr(c.func.value) or "") == "AddImportsVisitor"]
        params = set(fn.params())
        def module_arg(c):
            return c.args[1] if len(c.args) >= 2 else next((k.value for k in c.keywords if k.arg == "module"), None)

        fwd = [c for c in calls if isinstance(module_arg(c), ast.Name) and module_arg(c).id in params]
        if not fwd:
            continue
        n += 1
        ids = {id(c) for c in fwd}
        fa = FlowAnalysis(fn.node, lambda c, _i=ids: "EV:scheduled" if id(c) in _i else None)
        bad = [e for e in fa.exits if e.kind != "raise" and not has_event(e.state, "EV:scheduled")]
        rep.check("R-IMPORT-SCHEDULED", fn.qname, fn.loc(bad[0].node) if bad and bad[0].node is not None else fn.loc(), not bad, "always-schedules",
                  f"{fn.name} can return without calling AddImportsVisitor.add_needed_import (exit `{unparse(bad[0].node)[:40] if bad and bad[0].node is not None else 'end'}`): "
                  "whether the needed name is bound then depends on a check the wrapper makes itself (e.g. an import that exists only in another scope)")
        for c in fwd:
            # roles: (context, module[, obj[, asname]]) -- the wrapper's module parameter feeds `module`, its object parameter `obj`
            pos = fn.positional_params()
            names = [a.id if isinstance(a, ast.Name) else None for a in c.args[1:]] + [k.value.id if isinstance(k.value, ast.Name) else None for k in c.keywords]
            order = [p for p in pos if p in names]
            ok = order == [x for x in names if x in pos]
            rep.check("R-IMPORT-SCHEDULED", fn.qname, fn.loc(c), ok, "roles", f"`{unparse(c)[:70]}` passes the wrapper's parameters in a different order than it receives them")
    if n == 0:
        raise AnalysisError("no forwarding wrapper around AddImportsVisitor.add_needed_import found (libcst_transformer.add_needed_import anchor vanished)")


def rule_alias_preserved(ctx, rep):
    rep.rule(
        "R-ALIAS-PRESERVED",
        "where an allow-listed import rewriter re-emits import statements (cst.ImportAlias(...) constructions), the `asname` it writes is "
        "the recorded alias itself: a parameter that is never re-assigned, or a loop variable over the recorded pairs -- not a value "
        "computed from it (dropping or renaming an alias unbinds the name the rest of the file uses: `import os.path as path`)",
        min_instances=1,
    )
    n = 0
    for cq in IMPORT_REMOVAL_OWNERS:
        if cq not in ctx.prog.classes:
            continue
        for m in ctx.prog.classes[cq].methods.values():
            r = ctx.resolver(m)
            r.single_assignments()
            pm = ctx.parents(m)
            for c in walk_no_nested(m.node):
                if not (isinstance(c, ast.Call) and last_attr(c.func) == "ImportAlias"):
                    continue
                av = next((k.value for k in c.keywords if k.arg == "asname"), None)
                if av is None:
                    continue
                names = [x.args[0] for x in ast.walk(av) if isinstance(x, ast.Call) and last_attr(x.func) == "Name" and x.args]
                if not names:
                    continue
                n += 1
                ok, why = True, ""
                for x in names:
                    if not isinstance(x, ast.Name):
                        ok, why = False, f"the alias text is computed: `{unparse(x)[:40]}`"
                        continue
                    if x.id in m.params():
                        if r._assign_counts.get(x.id, 0) > 1:
                            ok, why = False, f"parameter `{x.id}` is re-assigned before it is written as the alias"
                        continue
                    # loop / comprehension variable: its iterable must be the recorded collection, not a mapped copy
                    cur = pm.get(id(c))
                    it = None
                    while cur is not None and cur is not m.node and it is None:
                        gens = cur.generators if isinstance(cur, (ast.ListComp, ast.GeneratorExp, ast.SetComp)) else ([cur] if isinstance(cur, ast.For) else [])
                        for g in gens:
                            if x.id in {y.id for y in ast.walk(g.target) if isinstance(y, ast.Name)}:
                                it = g.iter
                        cur = pm.get(id(cur))
                    if it is None:
                        ok, why = False, f"`{x.id}` is neither a parameter nor a loop variable over the recorded imports"
                    elif not isinstance(r.expand(it), (ast.Name, ast.Attribute, ast.Call)) or isinstance(r.expand(it), (ast.GeneratorExp, ast.ListComp)):
                        ok, why = False, f"the aliases are drawn from `{unparse(it)[:50]}`, a transformed copy of the recorded (name, alias) pairs"
                rep.check("R-ALIAS-PRESERVED", m.qname, m.loc(c), ok, f"{m.name}:asname", why)
    if n == 0:
        raise AnalysisError("no ImportAlias(asname=...) construction found in the allow-listed import rewriters")


def rule_global_removal_scope(ctx, rep, rule_id="R-GLOBAL-REMOVAL-SCOPE"):
    """Shared with C08: `global x` is a no-op only at module level; in a class body it makes `x = ...` bind the module global."""
    rep.rule(
        rule_id,
        "a transformer removes a `global` statement (leave_Global returning a removal) only under the fact that the statement's scope is "
        "the module's GlobalScope: in a class body `global x` is what makes the assignment bind the module-level name, removing it there "
        "unbinds every other reader of x",
        min_instances=1,
    )
    n = 0
    for fn in ctx.prog.live_functions():
        if fn.name != "leave_Global" or fn.cls is None:
            continue
        fa = ctx.flow(fn)
        r = ctx.resolver(fn)
        for ex in fa.exits:
            if ex.kind != "return" or ex.value is None:
                continue
            v = unparse(ex.value)
            if "REMOVE" not in v and "RemoveFromParent" not in v:
                continue
            n += 1
            ok = True
            for must, _may in ex.state.parts:
                good = False
                for pol, e in _fact_exprs(must):
                    if pol and isinstance(e, ast.Call) and call_name(e) == "isinstance" and len(e.args) == 2 and unparse(e.args[1]).split(".")[-1] == "GlobalScope":
                        src = r.expand(e.args[0])
                        if isinstance(src, ast.Call) and last_attr(src.func) == "get_metadata" and src.args and unparse(src.args[0]).split(".")[-1] == "ScopeProvider":
                            good = True
                ok = ok and good
            rep.check(rule_id, fn.qname, fn.loc(ex.node), ok, "removal-under-GlobalScope",
                      "the `global` statement is removed on a path where its scope is not known to be the module's GlobalScope (class bodies included)")
    if n == 0:
        rep.instance(rule_id, "codebase", "src/", True, detail="no transformer removes global statements")


def _fact_exprs(must):
    from ..flow import fact_exprs

    return fact_exprs(must)


def _always_returns(stmts) -> bool:
    """every path through the block ends in a return / raise"""
    if not stmts:
        return False
    last = stmts[-1]
    if isinstance(last, (ast.Return, ast.Raise)):
        return True
    if isinstance(last, ast.If):
        return bool(last.orelse) and _always_returns(last.body) and _always_returns(last.orelse)
    if isinstance(last, ast.Match):
        has_default = any(isinstance(c.pattern, ast.MatchAs) and c.pattern.pattern is None and c.guard is None for c in last.cases)
        return has_default and all(_always_returns(c.body) for c in last.cases)
    if isinstance(last, ast.Try):
        return _always_returns(last.body) and all(_always_returns(h.body) for h in last.handlers)
    return False


def rule_nodetype(ctx, rep, prop_rule="R-NODETYPE"):
    """ComparisonTarget.operator must be a comparison operator: the value assigned in every branch of the inversion match."""
    rep.rule(
        prop_rule,
        "wherever a ComparisonTarget is rebuilt with with_changes(operator=X), every value X can take is an operator node "
        "(a cst.<CompOp>() construction or the original `.operator`), never the ComparisonTarget itself or another node kind "
        "(libcst does not type-check children: `not x in [y]` became `x in [y][y]`)",
        min_instances=1,
    )
    COMPOPS = {"Equal", "NotEqual", "LessThan", "GreaterThan", "LessThanEqual", "GreaterThanEqual", "In", "NotIn", "Is", "IsNot"}
    n = 0
    for fn in ctx.prog.live_functions():
        for c in walk_no_nested(fn.node):
            if isinstance(c, ast.Call) and last_attr(c.func) == "with_changes":
                op = next((k.value for k in c.keywords if k.arg == "operator"), None)
                if op is None:
                    continue
                n += 1
                vals = [op]
                if isinstance(op, ast.Name):
                    vals = [a.value for a in walk_no_nested(fn.node) if isinstance(a, ast.Assign) and any(isinstance(t, ast.Name) and t.id == op.id for t in a.targets)]
                bad = []
                for v in vals:
                    good = (isinstance(v, ast.Call) and last_attr(v.func) in COMPOPS) or (isinstance(v, ast.Attribute) and v.attr == "operator")
                    if not good and isinstance(v, ast.Call) and isinstance(v.func, ast.Name):
                        # `inverse = TABLE.get(type(op)); ... inverse()`: a class taken from a table whose values are all operators
                        from .c08 import class_table

                        t = class_table(ctx, fn, v.func)
                        good = bool(t) and set(t.values()) <= COMPOPS
                    if not good and isinstance(v, ast.Call):
                        # a helper of the repository that hands back the operator: every value it returns is an operator node; a `None`
                        # it may return ("operator not known") must be excluded where the slot is filled
                        try:
                            ts = [t for t in ctx.resolver(fn).resolve_call(v) if isinstance(t, FuncInfo)]
                        except Exception:
                            ts = []
                        if len(ts) == 1:
                            rets = [r_.value for r_ in walk_no_nested(ts[0].node) if isinstance(r_, ast.Return)]
                            ops_ok = bool(rets) and all(
                                rv is None or (isinstance(rv, ast.Constant) and rv.value is None) or (isinstance(rv, ast.Call) and last_attr(rv.func) in COMPOPS)
                                or (isinstance(rv, ast.Attribute) and rv.attr == "operator") for rv in rets)
                            may_none = any(rv is None or (isinstance(rv, ast.Constant) and rv.value is None) for rv in rets) or not _always_returns(ts[0].node.body)
                            guarded = True
                            if may_none and isinstance(op, ast.Name):
                                must = ctx.flow(fn).must_at(c)
                                guarded = (False, f"{op.id} is None") in must or (True, op.id) in must or (True, f"{op.id} is not None") in must
                            elif may_none:
                                guarded = False
                            good = ops_ok and guarded
                    if not good:
                        bad.append(v)
                rep.check(prop_rule, fn.qname, fn.loc(c), not bad, "operator-slot",
                          "operator slot receives " + ", ".join(f"`{unparse(b)}`" for b in bad) + ", which is not a comparison operator node",
                          values=[unparse(v) for v in vals][:12])
    if n == 0:
        rep.instance(prop_rule, "codebase", "src/", True, detail="no with_changes(operator=...) site")


def rule_import_flag_reaches(ctx, rep, rule_id="R-IMPORT-FLAG-REACHES"):
    rep.rule(
        rule_id,
        "where an import is scheduled under a flag (`if add_annotation: self.add_needed_import(...)`), every definition of that flag "
        "reaches the guard: a later definition that does not read the flag (`flag = second_call()` instead of `flag = flag or ...`) "
        "must not sit between a definition and the guard (constant-False initialisers excepted).  Otherwise the name emitted under "
        "the first definition (an `Optional[...]` annotation) stays while its import is never added",
        min_instances=1,
    )
    n = 0
    for fn in ctx.prog.live_functions():
        guards = []
        for st in walk_no_nested(fn.node):
            if isinstance(st, ast.If) and any(isinstance(c, ast.Call) and last_attr(c.func) == "add_needed_import" for b in st.body for c in ast.walk(b)):
                flags = [x.id for x in ast.walk(st.test) if isinstance(x, ast.Name)]
                for v in flags:
                    guards.append((st, v))
        if not guards:
            continue
        pm = {}
        for p_ in ast.walk(fn.node):
            for fld in ("body", "orelse", "finalbody"):
                blk = getattr(p_, fld, None)
                for c in (blk if isinstance(blk, list) else []):
                    if isinstance(c, ast.AST):
                        pm[id(c)] = (p_, fld)
            for h in getattr(p_, "handlers", []) or []:
                pm[id(h)] = (p_, "handler")
            for cs in getattr(p_, "cases", []) or []:
                pm[id(cs)] = (p_, "case")
                for c in cs.body:
                    pm[id(c)] = (cs, "body")

        def branch_path(st):
            out = []
            cur = st
            while id(cur) in pm:
                par, fld = pm[id(cur)]
                out.append((id(par), fld if not isinstance(cur, (ast.ExceptHandler, ast.match_case)) else f"{fld}:{id(cur)}"))
                cur = par
            return out

        def exclusive(a, b):
            pa, pb = dict(branch_path(a)), dict(branch_path(b))
            return any(k in pb and pb[k] != f for k, f in pa.items())

        for guard, v in guards:
            if v in fn.params():
                continue
            defs = []
            for st in walk_no_nested(fn.node):
                if isinstance(st, (ast.Assign, ast.AnnAssign, ast.AugAssign)) and getattr(st, "value", None) is not None:
                    tgs = st.targets if isinstance(st, ast.Assign) else [st.target]
                    if any(isinstance(t, ast.Name) and t.id == v for tg in tgs for t in ast.walk(tg)):
                        reads = isinstance(st, ast.AugAssign) or v in names_in(st.value)
                        const_false = isinstance(st.value, ast.Constant) and not st.value.value
                        defs.append((st, reads, const_false))
            if not defs:
                continue
            n += 1
            bad = None
            for d, _r, cf in defs:
                if cf or d.lineno >= guard.lineno:
                    continue
                for d2, reads2, _cf2 in defs:
                    if d2 is d or reads2 or not (d.lineno < d2.lineno < guard.lineno) or exclusive(d, d2):
                        continue
                    bad = (d, d2)
            rep.check(rule_id, fn.qname, fn.loc(bad[1]) if bad else fn.loc(guard), bad is None, f"flag:{v}",
                      f"`{unparse(bad[1])[:60].splitlines()[0]}` replaces the flag `{v}` computed at line {fn.loc(bad[0]).split(':')[-1]} before the guard that schedules the import reads it: "
                      "what the first computation emitted keeps its name, the import is dropped" if bad else "")
    if n < 1:
        raise AnalysisError("no import scheduled under a flag found (1 confirmed by hand: fix-mutable-params)")


# node kinds a hook may delete outright, each confirmed by reading: what disappears binds no name that other code can still read -- or the
# hook's own rule decides when it may (imports: R-IMPORT-REMOVAL-OWNER; `global`: R-GLOBAL-REMOVAL-SCOPE; use-walrus-if moves the binding
# into the `if` test; RemoveUnusedVariables only acts on assignments libcst reports as unread)
REMOVABLE_KINDS = {
    "Break": "no binding", "Continue": "no binding", "Pass": "no binding", "Else": "emptied else clause: its statements were removed one by one",
    "Expr": "expression statement (a debugger call): no binding", "Global": "R-GLOBAL-REMOVAL-SCOPE", "Decorator": "decorator: no binding of its own",
    "Import": "R-IMPORT-REMOVAL-OWNER", "ImportFrom": "R-IMPORT-REMOVAL-OWNER", "ImportAlias": "R-IMPORT-REMOVAL-OWNER", "import_alike": "R-IMPORT-REMOVAL-OWNER",
    "Assert": "no binding (walrus in an assert test aside; refactor codemods are not registered)",
    "FormattedStringExpression": "a piece of an f-string", "Arg": "an argument", "Element": "an element",
}
REMOVAL_EXEMPT = {
    "core_codemods.use_walrus_if.UseWalrusIf.leave_Assign": "the binding moves into the walrus of the following `if` (single-access case judged by libcst scope analysis)",
    "codemodder.utils.clean_code.RemoveUnusedVariables.leave_Assign": "acts only on assignments whose names have no access in their scope",
}


def rule_removal_kinds(ctx, rep, rule_id="R-REMOVAL-KINDS"):
    """Shared by C02 / C08."""
    rep.rule(
        rule_id,
        "a transformer hook returns a removal sentinel (RemovalSentinel.REMOVE / RemoveFromParent()) only for node kinds whose disappearance "
        "cannot unbind a name some remaining code reads (break / continue / pass / emptied else / debugger-call statements / decorators), or for "
        "kinds a dedicated rule governs (imports, `global`), or in a named, confirmed exception.  Deleting a compound statement (`if`, `while`, "
        "`with`, `try`, a function) takes with it whatever its header binds: a walrus in the test, an `as` target, the definition itself",
        min_instances=8,
    )
    n = 0
    for fn in ctx.prog.live_functions():
        if fn.cls is None or not fn.module.name.startswith(("core_codemods.", "codemodder.codemods", "codemodder.utils.clean_code")):
            continue
        rets = [x for x in walk_no_nested(fn.node) if isinstance(x, ast.Return) and x.value is not None
                and any(isinstance(y, ast.Attribute) and y.attr == "REMOVE" or isinstance(y, ast.Call) and last_attr(y.func) == "RemoveFromParent" for y in ast.walk(x.value))]
        if not rets:
            continue
        # the node kind: the hook's own name, or for a helper the hooks that call it
        kinds = set()
        if fn.name.startswith("leave_"):
            kinds.add(fn.name[len("leave_"):])
        else:
            for m in fn.cls.methods.values():
                if m.name.startswith("leave_") and any(isinstance(c, ast.Call) and isinstance(c.func, ast.Attribute) and c.func.attr == fn.name for c in walk_no_nested(m.node)):
                    kinds.add(m.name[len("leave_"):])
        if not kinds:
            continue
        for k in sorted(kinds):
            n += 1
            ex = REMOVAL_EXEMPT.get(fn.qname)
            ok = k in REMOVABLE_KINDS or ex is not None
            rep.check(rule_id, fn.qname, fn.loc(rets[0]), ok, f"removes:{k}",
                      f"`{unparse(rets[0])[:60]}` deletes a {k} node: that kind can carry bindings (walrus in its test, `as` targets, the definition) which "
                      "remaining code may still read; it is not among the confirmed removable kinds", exempt=ex)
    if n < 8:
        raise AnalysisError(f"only {n} node-removing hooks found")


def check(ctx, rep):
    rep.explanation = (
        "Every code template a transformer emits by name is recovered with a constant/template evaluator (f-strings, constants, "
        "conditional alternatives, typed holes), parsed with ast to find the root identifiers it reads, and paired path-sensitively "
        "(assumption-pruned must-events) with the import the same hook schedules; import-statement rewriting is restricted to an "
        "allow-list; the operator slot of rebuilt comparisons is type-checked."
    )
    rule_import_pair(ctx, rep)
    rule_import_removal_owner(ctx, rep)
    rule_import_scheduled(ctx, rep)
    rule_alias_preserved(ctx, rep)
    rule_global_removal_scope(ctx, rep)
    rule_nodetype(ctx, rep)
    rule_import_flag_reaches(ctx, rep)
    rule_removal_kinds(ctx, rep)
    rep.not_covered += [
        "scope-aware reasoning about which assignments RemoveUnusedVariables may drop (depends on libcst scope metadata)",
        "names emitted through nodes built without a string template",
    ]
