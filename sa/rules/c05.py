"""C05 — exactly the files selected by the include/exclude patterns are touched; nothing outside the target.

R-FILESET-SOURCE   get_files_to_analyze derives only from context.find_and_fix_paths / context.filter_paths(...); _apply maps exactly that list
R-WRITE-TARGET     the path of every project write sink derives from file_context.file_path or the writer's store file
R-ENUM-SIBLINGS    both project-file enumerators filter symlinks
R-LINE-SUFFIX      a ':line' pattern never excludes a whole file (exclude branch drops it, include branch strips it)
R-PATTERN-ARGS     include/exclude pattern arguments reach the parameters of the same role (no swap)
R-LOST-UPDATE      liveness: a hook must not discard rewrites already made inside the node (see C18 for selected nested sites)
"""
from __future__ import annotations

import ast

from ..model import AnalysisError, FuncInfo, bind_args, call_name, last_attr, names_in, unparse, walk_no_nested
from ..prov import Prov
from ..sites import concrete_overrides, rw_sites, site_writes, apply_fn, worker_fn

BASE = "codemodder.codemods.base_codemod.BaseCodemod"
CTX = "codemodder.context.CodemodExecutionContext"


def _return_sources(ctx, fn: FuncInfo) -> list[ast.expr]:
    """Iterables the returned list draws its elements from."""
    out = []
    r = ctx.resolver(fn)

    def sources(e: ast.expr):
        e = r.expand(e)
        if isinstance(e, ast.IfExp):
            sources(e.body)
            sources(e.orelse)
        elif isinstance(e, (ast.ListComp, ast.GeneratorExp)):
            for g in e.generators:
                sources(g.iter)
        elif isinstance(e, ast.Call) and call_name(e) in ("list", "sorted", "tuple") and e.args:
            sources(e.args[0])
        else:
            out.append(e)

    for n in walk_no_nested(fn.node):
        if isinstance(n, ast.Return) and n.value is not None:
            sources(n.value)
    return out


def rule_fileset_source(ctx, rep):
    rep.rule(
        "R-FILESET-SOURCE",
        "every concrete get_files_to_analyze returns elements drawn only from context.find_and_fix_paths (find-and-fix) or from "
        "context.filter_paths(<subset of context.files_to_analyze>) (remediation); _apply processes exactly that list; both context "
        "helpers go through match_files with the user's patterns",
        min_instances=6,
    )
    gf = concrete_overrides(ctx, BASE, "get_files_to_analyze")
    if len(gf) < 2:
        raise AnalysisError("expected >= 2 concrete get_files_to_analyze implementations")
    for fn in gf:
        kind = "remediation" if "codemodder.codemods.base_codemod.RemediationCodemod" in ctx.prog.mro(fn.cls.qname) else "find-and-fix"
        from ..derive import ElemSources

        es = ElemSources(ctx, fn)
        rets = [n.value for n in walk_no_nested(fn.node) if isinstance(n, ast.Return) and n.value is not None]
        srcs = []
        bad = []
        for rv in rets:
            if kind == "find-and-fix":
                for leaf, _f in es.sources(rv):
                    srcs.append(leaf)
                    if not (isinstance(leaf, ast.Attribute) and leaf.attr == "find_and_fix_paths"):
                        bad.append(leaf)
            else:
                # every returned list is context.filter_paths(<elements of context.files_to_analyze>)
                alts = [rv.body, rv.orelse] if isinstance(rv, ast.IfExp) else [rv]
                for alt in alts:
                    alt = ctx.resolver(fn).expand(alt)
                    if isinstance(alt, (ast.List, ast.Tuple)) and not alt.elts:
                        continue
                    srcs.append(alt)
                    if not (isinstance(alt, ast.Call) and last_attr(alt.func) == "filter_paths" and alt.args):
                        bad.append(alt)
                        continue
                    for leaf, _f in es.sources(alt.args[0]):
                        if not (isinstance(leaf, ast.Attribute) and leaf.attr == "files_to_analyze"):
                            bad.append(leaf)
        rep.check("R-FILESET-SOURCE", fn.qname, fn.loc(), not bad and bool(srcs), f"{kind}:source",
                  "returned files are drawn from " + ", ".join(f"`{unparse(b)[:50]}`" for b in bad)
                  + (" instead of context.find_and_fix_paths" if kind == "find-and-fix" else " instead of context.filter_paths(<files_to_analyze subset>)")
                  + ": the user's include/exclude patterns (or default excludes) are bypassed")
    ap = apply_fn(ctx)
    r = ctx.resolver(ap)
    maps = [n for n in walk_no_nested(ap.node) if isinstance(n, ast.Call) and last_attr(n.func) == "map" and len(n.args) >= 2]
    ok = False
    if maps:
        lst = r.expand(maps[0].args[1])
        ok = isinstance(lst, ast.Call) and last_attr(lst.func) == "get_files_to_analyze"
    rep.check("R-FILESET-SOURCE", ap.qname, ap.loc(maps[0]) if maps else ap.loc(), ok, "apply:mapped-list",
              "_apply does not map the worker over exactly the list returned by get_files_to_analyze")
    # context helpers
    for name, want_ex, want_in in (("find_and_fix_paths", "path_exclude", "path_include"), ("filter_paths", "path_exclude", "included_paths")):
        fn = ctx.prog.func(f"{CTX}.{name}")
        from ..derive import calls_through

        calls = [c for c, _chain in calls_through(ctx, fn, "codemodder.code_directory.match_files")]
        mf = ctx.prog.func("codemodder.code_directory.match_files")
        ok = False
        if calls:
            b = bind_args(calls[0], mf, False)
            mp = mf.positional_params()  # match_files(parent_path, input_paths, exclude_paths, include_paths): by position
            if len(mp) < 4:
                raise AnalysisError("match_files(parent_path, input_paths, exclude_paths, include_paths) signature changed")
            ex, inc = b.get(mp[2]), b.get(mp[3])
            ok = ex is not None and inc is not None and want_ex in unparse(ex) and want_in in unparse(inc) and "directory" in unparse(b.get(mp[0], ast.Constant(value="")))
            # None is the sentinel for "use the default excludes": find-and-fix must be able to pass it, remediation never
            can_be_none = isinstance(ex, ast.BoolOp) and any(isinstance(v, ast.Constant) and v.value is None for v in ex.values)
            if name == "find_and_fix_paths":
                ok = ok and can_be_none
            else:
                ok = ok and not can_be_none and isinstance(ex, ast.Attribute)
        rep.check("R-FILESET-SOURCE", fn.qname, fn.loc(), ok, "match_files-args",
                  f"{name} does not call match_files(directory, ..., exclude_paths<-{want_ex}, include_paths<-{want_in})")
    fa = ctx.prog.func(f"{CTX}.files_to_analyze")
    ok = any(isinstance(n, ast.Call) and last_attr(n.func) == "files_for_directory" and n.args and unparse(n.args[0]) == "self.directory" for n in walk_no_nested(fa.node))
    rep.check("R-FILESET-SOURCE", fa.qname, fa.loc(), ok, "enumerates-target", "files_to_analyze does not enumerate self.directory")


def rule_write_target(ctx, rep):
    rep.rule(
        "R-WRITE-TARGET",
        "the path of every project write sink derives from file_context.file_path (an element of the selected list, bound in "
        "_process_file) or from the writer's dependency-store file; never from a finding's location or a constructed path",
        min_instances=8,
    )
    for fn in rw_sites(ctx):
        pv = Prov(ctx, fn)
        for w in site_writes(ctx, fn):
            root = pv.root(w["path"]) if w["path"] is not None else None
            t = unparse(root) if root is not None else "?"
            ok = t in ("file_context.file_path", "self.path")
            rep.check("R-WRITE-TARGET", fn.qname, fn.loc(w["call"]), ok, f"{w['kind']}",
                      f"writes to `{t}`, which is neither the selected file of this work item nor the manifest of the package store")
    # self.path of writers = Path(dependency_store.file)
    wi = ctx.prog.func("codemodder.dependency_management.base_dependency_writer.DependencyWriter.__init__")
    ok = any(
        isinstance(n, ast.Assign) and isinstance(n.targets[0], ast.Attribute) and n.targets[0].attr == "path"
        and unparse(n.value).replace(" ", "") in ("Path(dependency_store.file)", "dependency_store.file", "pathlib.Path(dependency_store.file)")
        for n in walk_no_nested(wi.node)
    )
    rep.check("R-WRITE-TARGET", wi.qname, wi.loc(), ok, "writer-path", "DependencyWriter.path is not derived from dependency_store.file")
    # file_context.file_path <- filename parameter of _process_file
    pf = worker_fn(ctx)
    fc = ctx.prog.cls("codemodder.file_context.FileContext")
    ok = False
    for n in walk_no_nested(pf.node):
        if isinstance(n, ast.Call) and ctx.resolver(pf).callee_qname(n) == fc.qname:
            fields = [k for k in fc.ann]
            args = {fields[i]: a for i, a in enumerate(n.args) if i < len(fields)}
            args.update({k.arg: k.value for k in n.keywords if k.arg})
            # the file is the worker's own work item (a parameter of the per-file function, whatever it is called), the base the context's target directory
            rr = ctx.resolver(pf)
            fp = rr.expand(args["file_path"]) if isinstance(args.get("file_path"), ast.Name) else args.get("file_path")
            bd = rr.expand(args["base_directory"]) if isinstance(args.get("base_directory"), ast.Name) else args.get("base_directory")
            ok = isinstance(fp, ast.Name) and fp.id in pf.params() and fp.id != "self" and isinstance(bd, ast.Attribute) and bd.attr == "directory"
    rep.check("R-WRITE-TARGET", pf.qname, pf.loc(), ok, "file_context-binding", "_process_file does not build FileContext(context.directory, filename, ...)")


def rule_enum_siblings(ctx, rep):
    rep.rule(
        "R-ENUM-SIBLINGS",
        "both enumerators of project files (code_directory.files_for_directory and BaseParser.find_file_locations) exclude symlinks, and "
        "neither walks into symlinked directories",
        min_instances=3,
    )
    for q in ("codemodder.code_directory.files_for_directory", "codemodder.project_analysis.file_parsers.base_parser.BaseParser.find_file_locations"):
        fn = ctx.prog.func(q)
        from ..derive import ElemSources

        es = ElemSources(ctx, fn)
        rets = [n.value for n in walk_no_nested(fn.node) if isinstance(n, ast.Return) and n.value is not None]
        leaves = [x for rv in rets for x in es.sources(rv)]
        ENUMS = ("rglob", "glob", "iglob", "iterdir", "walk", "scandir", "listdir")
        enum_leaves = [(leaf, f) for leaf, f in leaves if isinstance(leaf, ast.Call) and last_attr(leaf.func) in ENUMS]
        # the walk itself must not descend into symlinked directories: a file *below* a directory symlink is not a symlink, so the
        # per-element filter cannot catch it.  pathlib's rglob/glob and os.walk do not follow them unless asked to; glob.glob/iglob do.
        r_ = ctx.resolver(fn)
        follows = []
        for leaf in [x for x in ast.walk(fn.node) if isinstance(x, ast.Call) and last_attr(x.func) in ENUMS]:
            cq = r_.callee_qname(leaf) or ""
            kws = {k.arg: k.value for k in leaf.keywords}
            truthy = lambda v: not (isinstance(v, ast.Constant) and not v.value)  # noqa: E731
            if cq in ("glob.glob", "glob.iglob") and "recursive" in kws and truthy(kws["recursive"]):
                follows.append((leaf, "glob's recursive `**` descends into symlinked directories"))
            elif last_attr(leaf.func) == "walk" and any(k in kws and truthy(kws[k]) for k in ("followlinks", "follow_symlinks")):
                follows.append((leaf, "the walk is asked to follow directory symlinks"))
            elif last_attr(leaf.func) in ("rglob", "glob") and "recurse_symlinks" in kws and truthy(kws["recurse_symlinks"]):
                follows.append((leaf, "the glob is asked to recurse into symlinked directories"))
        rep.check("R-ENUM-SIBLINGS", q, fn.loc(follows[0][0]) if follows else fn.loc(), not follows, "no-symlinked-directories",
                  (f"`{unparse(follows[0][0])[:60]}`: {follows[0][1]}; files below a directory symlink that points outside the target are then "
                   "analysed / chosen as the manifest to write") if follows else "")
        if follows:
            continue
        if not enum_leaves:
            raise AnalysisError(f"{q}: no file-system enumeration found among the returned elements")
        # the kept elements must *all* be non-symlinks: a negative is_symlink fact on every element that is returned
        ok = all((False, "$E.is_symlink()") in f for _leaf, f in enum_leaves)
        rep.check("R-ENUM-SIBLINGS", q, fn.loc(), ok, "symlink-filter",
                  "enumerates project files without `not path.is_symlink()`: a symlink pointing outside the target is read/written through "
                  "(its sibling enumerator filters symlinks)")
        if q.endswith(".files_for_directory"):
            # the project listing keeps *every* regular file: what is left out by name or location is decided by match_files from the user's
            # patterns and the documented defaults (and the SAST codemods apply no default excludes at all).  A path-based condition in the
            # enumerator (hidden directories, cache directory names, size, suffix) silently takes files out of every selection -- and when it
            # looks at the absolute path, a project checked out below such a directory has no files at all.
            KIND_TESTS = ("$E.is_file()", "$E.is_symlink()", "$E.is_dir()", "$E.exists()", "os.path.isfile($E)", "os.path.islink($E)", "os.path.isdir($E)", "os.path.exists($E)")
            extra = sorted({txt for _leaf, f in enum_leaves for _pol, txt in f if txt not in KIND_TESTS})
            rep.check("R-ENUM-SIBLINGS", q, fn.loc(), not extra, "kind-tests-only",
                      f"the project enumeration also filters by {extra[:3]}: files the user's include patterns (or a tool's findings) select are never listed")


def rule_line_suffix(ctx, rep):
    rep.rule(
        "R-LINE-SUFFIX",
        "filter_files: for excludes, patterns containing ':' are dropped (a line exclude never excludes the file); for includes the "
        "':line' suffix is stripped before matching",
        min_instances=2,
    )
    from ..derive import Pipeline
    from ..logic import consistent_assignments

    fn = ctx.prog.func("codemodder.code_directory.filter_files")
    r = ctx.resolver(fn)
    matchers = []
    for n in ast.walk(fn.node):
        if isinstance(n, ast.Call):
            q = r.callee_qname(n) or ""
            if q in ("fnmatch.filter", "fnmatch.fnmatch", "fnmatch.fnmatchcase") and len(n.args) >= 2:
                matchers.append((n, n.args[1]))
            elif q.endswith("._wildcard_to_regex") or q in ("re.compile", "fnmatch.translate"):
                if n.args:
                    matchers.append((n, n.args[0]))
    if not matchers:
        raise AnalysisError("filter_files: no glob matcher call (fnmatch.*) found")
    # filter_files(names, patterns, exclude=False): the parameters are taken by position, not by what they are called
    pp = fn.positional_params()
    if len(pp) < 3:
        raise AnalysisError("filter_files(names, patterns, exclude) signature changed")
    P_PATTERNS, P_EXCLUDE = pp[1], pp[2]
    pl = Pipeline(ctx, fn, P_PATTERNS)

    def atom(e):
        return "EXCLUDE" if isinstance(e, ast.Name) and e.id == P_EXCLUDE else None

    exc_bad, inc_bad, unknown = [], [], []
    n_alt = 0
    for call, arg in matchers:
        for facts, kind in pl.matcher_arg(arg):
            n_alt += 1
            envs = consistent_assignments(facts, atom, ["EXCLUDE"])
            if kind.startswith("unknown"):
                unknown.append(kind)
                continue
            for env in envs:
                if env["EXCLUDE"] and kind != "dropped":
                    exc_bad.append(kind)
                if not env["EXCLUDE"] and kind != "stripped":
                    inc_bad.append(kind)
    if unknown:
        raise AnalysisError(f"filter_files: pattern derivation not understood ({unknown[0]})")
    if n_alt < 2:
        raise AnalysisError("filter_files: fewer than two pattern derivations found")
    rep.check("R-LINE-SUFFIX", fn.qname, fn.loc(), not exc_bad, "exclude-drops-line-patterns",
              f"with exclude=True the matcher receives {sorted(set(exc_bad))} patterns: `path:line` excludes are not dropped (a line exclude would exclude the whole file, or never match)")
    rep.check("R-LINE-SUFFIX", fn.qname, fn.loc(), not inc_bad, "include-strips-suffix",
              f"with exclude=False the matcher receives {sorted(set(inc_bad))} patterns: the ':line' suffix is not stripped (a `path:line` include would match no file / is discarded)")


def rule_glob_only(ctx, rep):
    rep.rule(
        "R-GLOB-ONLY",
        "every file name filter_files yields was selected by the glob matcher (fnmatch.filter / fnmatch.fnmatch with one of the patterns): a "
        "hand-written shortcut (prefix / first-component / set membership test) decides for some patterns in place of the pattern language, and "
        "its agreement with fnmatch for *all* patterns (nested literal directories, `**` in the middle) cannot be established",
        min_instances=1,
    )
    fn = ctx.prog.func("codemodder.code_directory.filter_files")
    r = ctx.resolver(fn)

    def is_matcher(e, _depth=3) -> bool:
        if isinstance(e, ast.Name) and _depth > 0:
            # a list built up in a loop: `acc = []` ... `acc.append(fnmatch.filter(names, glob))`: every element put into it is a matcher result
            fills = [c for c in walk_no_nested(fn.node) if isinstance(c, ast.Call) and isinstance(c.func, ast.Attribute) and c.func.attr in ("append", "extend")
                     and isinstance(c.func.value, ast.Name) and c.func.value.id == e.id and len(c.args) == 1]
            binds = [a for a in walk_no_nested(fn.node) if isinstance(a, (ast.Assign, ast.AnnAssign)) and any(isinstance(t, ast.Name) and t.id == e.id for t in (a.targets if isinstance(a, ast.Assign) else [a.target]))]
            if fills and all(isinstance(a.value, (ast.List, ast.Tuple)) and not a.value.elts for a in binds):
                return all(is_matcher(c.args[0], _depth - 1) for c in fills)
        e = r.expand(e)
        if isinstance(e, ast.Call):
            q = r.callee_qname(e) or ""
            if q in ("fnmatch.filter", "fnmatch.fnmatch", "fnmatch.fnmatchcase"):
                return True
            if call_name(e) in ("list", "set", "tuple", "sorted", "iter") and len(e.args) == 1:
                return is_matcher(e.args[0])
        if isinstance(e, (ast.ListComp, ast.GeneratorExp, ast.SetComp)):
            # [fnmatch.filter(names, p) for p in patterns]   or   (n for n in names if fnmatch.fnmatch(n, p))
            if is_matcher(e.elt):
                return True
            return any(isinstance(c, ast.Call) and (r.callee_qname(c) or "").startswith("fnmatch.") for g in e.generators for cond in g.ifs for c in ast.walk(cond)) and not any(
                isinstance(c, ast.Compare) and any(isinstance(o, (ast.In, ast.NotIn, ast.Eq)) for o in c.ops) for g in e.generators for cond in g.ifs for c in ast.walk(cond))
        if isinstance(e, ast.Starred):
            return is_matcher(e.value)
        return False

    rets = [n.value for n in walk_no_nested(fn.node) if isinstance(n, ast.Return) and n.value is not None]
    n = 0
    for rv in rets:
        v = r.expand(rv)
        parts = []
        if isinstance(v, ast.Call) and last_attr(v.func) in ("chain", "from_iterable"):
            parts = list(v.args)
        else:
            parts = [v]
        for p_ in parts:
            n += 1
            rep.check("R-GLOB-ONLY", fn.qname, fn.loc(p_), is_matcher(p_), f"source:{unparse(p_)[:40]}",
                      f"filter_files also yields `{unparse(p_)[:70]}`, names selected by something other than fnmatch on a pattern")
    if n == 0:
        raise AnalysisError("filter_files has no return")


ROLE_FAMILIES = [
    {"line_include", "line_exclude"},
    {"path_include", "path_exclude", "include_paths", "exclude_paths", "included_paths"},
    {"codemod_include", "codemod_exclude"},
]


def _role(name: str) -> str | None:
    n = name.lower()
    if "includ" in n:
        return "include"
    if "exclud" in n:
        return "exclude"
    return None


def rule_pattern_args(ctx, rep, rule_id="R-PATTERN-ARGS", families=(1, 2)):
    rep.rule(
        rule_id,
        "at every call whose callee has include/exclude parameters of one family, an argument that is itself an include (exclude) "
        "value binds to the include (exclude) parameter — the constructors take them in different orders and pass them positionally",
        min_instances=4,
    )
    fams = [ROLE_FAMILIES[i] for i in families]
    for fn in ctx.prog.live_functions():
        r = ctx.resolver(fn)
        for n in walk_no_nested(fn.node):
            if not isinstance(n, ast.Call):
                continue
            targets = list(r.resolve_call(n))
            # dataclass constructor: synthesise the parameter list from the annotated fields
            for t in list(targets):
                if isinstance(t, str) and t in ctx.prog.classes and any("dataclass" in unparse(d) for d in ctx.prog.classes[t].node.decorator_list):
                    ci = ctx.prog.classes[t]
                    fake = ast.parse("def __init__(self, " + ", ".join(ci.ann.keys()) + "): pass").body[0]
                    targets.append(FuncInfo(t + ".__init__", ci.module, fake, ci))
            for t in targets:
                if not isinstance(t, FuncInfo):
                    continue
                params = set(t.params())
                fam = next((f for f in fams if len(f & params) >= 2), None)
                if fam is None:
                    continue
                bound = t.cls is not None and not any("staticmethod" in d for d in t.decorators())
                if bound and isinstance(n.func, ast.Attribute):
                    rq = ctx.prog.resolve_expr_name(fn.module, n.func.value) if not isinstance(n.func.value, ast.Call) else None
                    if rq in ctx.prog.classes or (rq or "").split(".")[-1][:1].isupper() and rq not in (None,) and isinstance(n.func.value, (ast.Name, ast.Attribute)) and unparse(n.func.value) not in ("self", "cls") and (rq in ctx.prog.classes):
                        bound = False  # Class.method(self, ...): explicit receiver
                b = bind_args(n, t, bound)
                for p, a in b.items():
                    if p not in fam:
                        continue
                    arg_names = [last_attr(x) for x in ast.walk(a) if isinstance(x, (ast.Name, ast.Attribute))]
                    roles = {_role(x) for x in arg_names if x} - {None}
                    if len(roles) != 1:
                        continue
                    ok = roles == {_role(p)}
                    rep.check(rule_id, fn.qname, fn.loc(n), ok, f"{t.name}({p}=)",
                              f"`{unparse(a)[:40]}` is passed as `{p}` of {t.qname}: include and exclude are swapped")
                break


PATTERN_FLAGS = {"--path-include", "--path-exclude"}
# string methods that rewrite a pattern (after them it is no longer the pattern the user wrote)
REWRITES = {"strip", "lstrip", "rstrip", "removeprefix", "removesuffix", "replace", "lower", "upper", "casefold", "title", "translate",
            "swapcase", "capitalize", "expandtabs", "normpath", "normcase", "expanduser", "expandvars", "abspath", "realpath", "resolve"}


def rule_pattern_verbatim(ctx, rep, rule_id="R-PATTERN-VERBATIM"):
    rep.rule(
        rule_id,
        "a --path-include / --path-exclude pattern reaches the glob matcher as the user wrote it: the argparse action bound to the two flags "
        "and every function that takes the patterns (parameters named *include*/*exclude* of the path family) apply no string-rewriting "
        "method (strip/lstrip('./')/replace/lower/normpath ...) to a pattern; the `:line` suffix is handled by R-LINE-SUFFIX.  "
        "`'.venv/**'.lstrip('./')` is `'venv/**'`: excluded dot-directories get rewritten, their non-dot siblings are skipped",
        min_instances=3,
    )
    pa = ctx.prog.func("codemodder.cli.parse_args")
    mod = pa.module
    n = 0
    actions = {}
    from ..cli_model import options as cli_options

    for o in cli_options(ctx):  # the parser construction interpreted (loops over flag tables, helper functions, f-string flags)
        for fl in o.flags:
            if fl in PATTERN_FLAGS:
                act = o.kw.get("action")
                q = ctx.prog.resolve_expr_name(mod, act) if act is not None and not isinstance(act, ast.Constant) else None
                if q is None or q not in ctx.prog.classes:
                    raise AnalysisError(f"parse_args: the action of {fl} is not a class of the repository ({unparse(act) if act is not None else 'none'})")
                actions[fl] = q
    if set(actions) != PATTERN_FLAGS:
        raise AnalysisError(f"parse_args: flags {sorted(PATTERN_FLAGS - set(actions))} not found")
    scanned: list[FuncInfo] = []
    for flag, q in sorted(actions.items()):
        for ci in ctx.prog.mro_classes(q):
            for m in ci.methods.values():
                if m not in scanned:
                    scanned.append(m)
    fam = ROLE_FAMILIES[1]
    for fn in ctx.prog.live_functions():
        if set(fn.params()) & fam and fn not in scanned:
            scanned.append(fn)
    for fn in scanned:
        in_action = fn.cls is not None and any(fn.cls.qname in ctx.prog.mro(q) for q in actions.values())
        tainted = set(fn.params()) - {"self", "cls", "parser", "namespace", "option_string"} if in_action else (set(fn.params()) & fam)
        # names bound from tainted values (comprehension / loop variables, simple assignments), to a fixpoint
        changed = True
        while changed:
            changed = False
            for x in ast.walk(fn.node):
                src, tgt = None, None
                if isinstance(x, ast.comprehension):
                    src, tgt = x.iter, x.target
                elif isinstance(x, ast.For):
                    src, tgt = x.iter, x.target
                elif isinstance(x, ast.Assign) and len(x.targets) == 1:
                    src, tgt = x.value, x.targets[0]
                elif isinstance(x, ast.NamedExpr):
                    src, tgt = x.value, x.target
                if src is not None and names_in(src) & tainted:
                    for t in ast.walk(tgt):
                        if isinstance(t, ast.Name) and t.id not in tainted:
                            tainted.add(t.id)
                            changed = True
        bad = None
        for c in ast.walk(fn.node):
            if isinstance(c, ast.Call) and isinstance(c.func, ast.Attribute) and c.func.attr in REWRITES and names_in(c.func.value) & tainted:
                bad = c
            elif isinstance(c, ast.Call) and isinstance(c.func, ast.Attribute) and c.func.attr in REWRITES and unparse(c.func).startswith(("os.path.", "posixpath.", "path.")) \
                    and any(names_in(a) & tainted for a in c.args):
                bad = c  # os.path.normpath(pattern) and the like
        n += 1
        rep.check(rule_id, fn.qname, fn.loc(bad) if bad is not None else fn.loc(), bad is None, "rewrite",
                  f"`{unparse(bad)[:70]}` rewrites a path pattern before it is matched: the files selected are no longer the ones the user's pattern names" if bad is not None else "")
    if n < 3:
        raise AnalysisError(f"only {n} functions handle path patterns")


def check(ctx, rep):
    rep.explanation = (
        "File selection is followed from the CLI patterns through context.find_and_fix_paths / filter_paths into "
        "get_files_to_analyze and executor.map; every write sink's path is traced back (def-use roots) to the work item's file or the "
        "manifest store; sibling enumerators and the include/exclude argument roles are compared."
    )
    rule_fileset_source(ctx, rep)
    rule_write_target(ctx, rep)
    rule_enum_siblings(ctx, rep)
    rule_line_suffix(ctx, rep)
    rule_pattern_args(ctx, rep)
    rule_glob_only(ctx, rep)
    rule_pattern_verbatim(ctx, rep)
    from .c12 import rule_merge_op

    # findings lost while result sets are combined = selected files with a fixable construct that are never fixed
    rule_merge_op(ctx, rep)
    from .c18 import rule_scan_targets

    rule_scan_targets(ctx, rep)
    from .c12 import rule_location_file_verbatim

    # findings reach a file only under the very path the directory walk yields for it
    rule_location_file_verbatim(ctx, rep)
    from .c17 import rule_exec_order

    # SAST-driven codemods must not be skipped wholesale because no *find-and-fix* path is selected (default excludes do not apply to them)
    rule_exec_order(ctx, rep)
    from .c09 import rule_runwide_state

    # a selected, fixable file must be processed by every selected codemod: nothing one codemod recorded (its failed files) is read while another runs
    rule_runwide_state(ctx, rep)
    rep.not_covered += [
        "which paths match which glob (fnmatch semantics over trees x patterns)",
        "liveness 'every selected file with a fixable construct is fixed' beyond the lost-update rule evaluated under C18",
    ]
