"""C04 — --dry-run never touches the project and predicts the real run.

R-DRYRUN-GUARD       every project write sink reachable from codemodder.run executes only under DRY=false
R-DRYRUN-THREAD      every call of a callable with a `dry_run` parameter passes the flag
R-DRYRUN-ONLY-WRITES the flag is consulted only to guard write-only blocks (so the report is computed alike)
"""
from __future__ import annotations

import ast

from ..flow import cond_facts
from ..model import AnalysisError, FuncInfo, bind_args, call_name, dotted_name, last_attr, unparse, walk_no_nested
from ..roles import classify_sink, dry_fact, handle_writes, is_dry_expr

RUN = "codemodder.codemodder.run"

# sinks that are not project content are exempt by the *shape* that justifies it (never by the name of the function they sit in)
def reachable_sinks(ctx):
    reach = ctx.cg.reachable([RUN])
    out = []
    for q in sorted(reach):
        fn = ctx.prog.functions[q]
        r = ctx.resolver(fn)
        for n in walk_no_nested(fn.node):
            if isinstance(n, ast.Call):
                s = classify_sink(n, r)
                if s is not None:
                    out.append((fn, s))
    return reach, out


def exempt_reason(ctx, fn: FuncInfo, sink) -> str | None:
    if sink.kind == "fdopen-write":
        # a descriptor handed out by tempfile.mkstemp() in the same function: a fresh temporary file
        fd = sink.path
        if isinstance(fd, ast.Name):
            for n in walk_no_nested(fn.node):
                if isinstance(n, ast.Assign) and isinstance(n.value, ast.Call) and (ctx.resolver(fn).callee_qname(n.value) or call_name(n.value) or "").endswith("mkstemp"):
                    if fd.id in {x.id for x in ast.walk(n.targets[0]) if isinstance(x, ast.Name)}:
                        return "handle returned by tempfile.mkstemp(): temporary file, not project content"
        return None
    if sink.kind == "open-write":
        # the report: the path is a parameter and every caller passes the --output option value
        if isinstance(sink.path, ast.Name) and sink.path.id in fn.params():
            sites = ctx.cg.sites.get(fn.qname, [])
            if not sites:
                return None
            for caller, call in sites:
                bound = fn.cls is not None and isinstance(call.func, ast.Attribute)
                arg = bind_args(call, fn, bound).get(sink.path.id)
                arg = ctx.resolver(caller).expand(arg) if arg is not None else None
                if not (isinstance(arg, ast.Attribute) and arg.attr == "output"):
                    return None
            return "the report named by --output is not project content"
    return None


class GuardSummary:
    """fn is 'only called under DRY=false' (all call sites guarded, transitively)."""

    def __init__(self, ctx, reach):
        self.ctx = ctx
        self.reach = reach
        self.memo: dict[str, bool] = {}
        self.why: dict[str, str] = {}

    def site_guarded(self, caller: FuncInfo, call: ast.Call) -> bool:
        fa = self.ctx.flow(caller)
        if not fa.reachable(call):
            return True  # dead code
        return dry_fact(fa.must_at(call), self.ctx.resolver(caller)) is False

    def guarded(self, q: str, stack=()) -> bool:
        if q in self.memo:
            return self.memo[q]
        if q in stack:
            return False
        sites = [(c, n) for c, n in self.ctx.cg.sites.get(q, []) if c.qname in self.reach]
        sites += [(c, n) for c, n in self.ctx.cg.dispatch_sites.get(q, []) if c.qname in self.reach]
        if not sites:
            self.memo[q] = False
            self.why[q] = "no call site (entry point)"
            return False
        ok = True
        for caller, call in sites:
            if self.site_guarded(caller, call):
                continue
            if self.guarded(caller.qname, stack + (q,)):
                continue
            ok = False
            self.why[q] = f"unguarded call at {caller.loc(call)} in {caller.qname}"
            break
        self.memo[q] = ok
        return ok


def rule_guard(ctx, rep):
    rep.rule(
        "R-DRYRUN-GUARD",
        "every file-system write sink reachable from codemodder.run is executed only under DRY=false "
        "(locally, or in every caller chain); report/temp-file sinks exempt by name and shape",
        min_instances=9,
    )
    reach, sinks = reachable_sinks(ctx)
    gs = GuardSummary(ctx, reach)
    for fn, s in sinks:
        where = fn.loc(s.call)
        ex = exempt_reason(ctx, fn, s)
        fa = ctx.flow(fn)
        local = fa.reachable(s.call) and dry_fact(fa.must_at(s.call), ctx.resolver(fn)) is False
        dead = not fa.reachable(s.call)
        via = None
        ok = bool(ex) or local or dead
        if not ok and gs.guarded(fn.qname):
            ok = True
            via = "all callers guarded"
        path = ctx.cg.path(RUN, fn.qname)
        rep.check(
            "R-DRYRUN-GUARD",
            fn.qname,
            where,
            ok,
            detail=f"{s.kind}:{last_attr(s.call.func)}",
            message=(
                f"write sink `{unparse(s.call)[:90]}` can execute when dry_run is set "
                f"({gs.why.get(fn.qname, 'no dominating `not dry_run` test')})"
            ),
            path=path,
            sink=unparse(s.call)[:100],
            guard=("exempt: " + ex) if ex else ("local DRY=false" if local else via or ("unreachable" if dead else None)),
        )
    if sum(1 for fn, s in sinks if not exempt_reason(ctx, fn, s)) < 7:
        raise AnalysisError("fewer than 7 project write sinks found reachable from run(): model lost a pipeline or writer")


def funcs_with_dry_param(ctx):
    return [f for f in ctx.prog.live_functions() if "dry_run" in f.params()]


def rule_thread(ctx, rep):
    rep.rule(
        "R-DRYRUN-THREAD",
        "every call to a repo callable that has a `dry_run` parameter passes a dry-run-role argument for it",
        min_instances=4,
    )
    seen: set[int] = set()
    for f in funcs_with_dry_param(ctx):
        for caller, call in ctx.cg.sites.get(f.qname, []):
            if id(call) in seen:
                continue
            if last_attr(call.func) in ("partial", "map", "submit"):
                continue
            seen.add(id(call))
            bound = f.cls is not None and not any("staticmethod" in d for d in f.decorators())
            args = bind_args(call, f, bound)
            arg = args.get("dry_run")
            ok = arg is not None and is_dry_expr(arg, ctx.resolver(caller))
            rep.check(
                "R-DRYRUN-THREAD",
                caller.qname,
                caller.loc(call),
                ok,
                detail=f"->{f.cls.name + '.' if f.cls else ''}{f.name}",
                message=(
                    f"call `{unparse(call)[:90]}` "
                    + ("omits the dry_run argument (defaults to False: a real write)" if arg is None else f"passes `{unparse(arg)}`, not the dry-run flag")
                ),
                callee=f.qname,
                arg=unparse(arg) if arg is not None else None,
            )


def rule_flag_stored(ctx, rep):
    """Part of R-DRYRUN-THREAD: an object whose methods read `self.dry_run` got that attribute from its constructor's
    dry_run parameter on every path (otherwise the class-level default -- False, a real run -- is what the guards test)."""
    from ..flow import FlowAnalysis, has_event

    classes = set()
    for fn in ctx.prog.live_functions():
        if fn.cls is None:
            continue
        for n in walk_no_nested(fn.node):
            if isinstance(n, ast.Attribute) and n.attr == "dry_run" and isinstance(n.value, ast.Name) and n.value.id == "self" and isinstance(n.ctx, ast.Load):
                classes.add(fn.cls.qname)
    for cq in sorted(classes):
        init = ctx.prog.lookup_method(cq, "__init__")
        if init is None:
            rep.check("R-DRYRUN-THREAD", cq, ctx.prog.classes[cq].loc(), False, "flag-stored", "class reads self.dry_run but has no __init__ that sets it")
            continue
        r = ctx.resolver(init)
        stores = {id(n.value) for n in walk_no_nested(init.node) if isinstance(n, (ast.Assign, ast.AnnAssign)) and n.value is not None
                  and any(isinstance(t, ast.Attribute) and t.attr == "dry_run" and isinstance(t.value, ast.Name) and t.value.id == "self" for t in (n.targets if isinstance(n, ast.Assign) else [n.target]))
                  and is_dry_expr(n.value, r) and not isinstance(n.value, ast.Attribute)}
        # events are attached to calls; use the statement-level scan: every normal exit of __init__ must be preceded by the store
        store_stmts = [n for n in walk_no_nested(init.node) if isinstance(n, (ast.Assign, ast.AnnAssign)) and n.value is not None and id(n.value) in stores]
        ok = False
        if store_stmts:
            # the store dominates the exits iff it is a top-level statement of __init__ not preceded by a return
            body = init.node.body
            idx = [i for i, st in enumerate(body) if st in store_stmts]
            ok = bool(idx) and not any(isinstance(x, ast.Return) for st in body[: idx[0]] for x in ast.walk(st))
        rep.check("R-DRYRUN-THREAD", init.qname, init.loc(store_stmts[0]) if store_stmts else init.loc(), ok, "flag-stored",
                  "`self.dry_run` is read by this class's methods but __init__ does not store its dry_run parameter there on every path: "
                  "the guards would test the class-level default (False: a real run)")


def _is_logging(st: ast.stmt) -> bool:
    return isinstance(st, ast.Expr) and isinstance(st.value, ast.Call) and (dotted_name(st.value.func) or "").startswith(("logger.", "logging."))


def _ret_none(st: ast.stmt) -> bool:
    return isinstance(st, ast.Return) and (st.value is None or (isinstance(st.value, ast.Constant) and st.value.value is None))


_PURE_METHODS = {"join", "encode", "decode", "format", "strip", "rstrip", "lstrip", "replace", "splitlines", "split", "copy", "keys", "values", "items", "get"}
_PURE_FUNCS = {"str", "bytes", "len", "list", "tuple", "sorted", "dict", "set", "repr", "int", "bool", "Path", "min", "max", "sum", "enumerate", "zip", "map", "filter"}


def _pure_expr(e: ast.expr) -> bool:
    """An expression without effects of its own: literals, names, attribute reads, string/collection methods and builtins over such."""
    for x in ast.walk(e):
        if isinstance(x, ast.Call):
            f = x.func
            if isinstance(f, ast.Attribute) and f.attr in _PURE_METHODS:
                continue
            if isinstance(f, ast.Name) and f.id in _PURE_FUNCS:
                continue
            return False
        if isinstance(x, (ast.Await, ast.Yield, ast.YieldFrom, ast.NamedExpr, ast.Lambda)):
            return False
    return True


class Region:
    """Statements that execute in only one of the two modes (found by comparing the two assumption-pruned flow analyses)."""

    def __init__(self, ctx, fn: FuncInfo, stmts: list[ast.stmt]):
        self.ctx, self.fn, self.stmts = ctx, fn, stmts
        self.ids = {id(x) for st in stmts for x in ast.walk(st)}
        assigned = set()
        for st in stmts:
            for x in ast.walk(st):
                if isinstance(x, ast.Name) and isinstance(x.ctx, ast.Store):
                    assigned.add(x.id)
                elif isinstance(x, ast.ExceptHandler) and x.name:
                    assigned.add(x.name)
        leaked = {x.id for x in walk_no_nested(fn.node) if isinstance(x, ast.Name) and isinstance(x.ctx, ast.Load) and id(x) not in self.ids}
        self.local = assigned - leaked  # defined and consumed entirely inside the region

    def benign(self, stmts) -> bool:
        """Giving up / bookkeeping that cannot reach the report."""
        for st in stmts:
            if isinstance(st, ast.Pass) or _ret_none(st) or _is_logging(st):
                continue
            if isinstance(st, ast.Assign) and all(isinstance(t, ast.Name) and t.id in self.local for t in st.targets) and isinstance(st.value, (ast.Constant, ast.Name)):
                continue
            return False
        return True

    def write_only(self, stmts=None, fn: FuncInfo | None = None, depth: int = 2) -> tuple[bool, str]:
        ctx = self.ctx
        fn = fn or self.fn
        stmts = self.stmts if stmts is None else stmts
        r = ctx.resolver(fn)
        hw = {id(c) for c, _, _ in handle_writes(fn.node, r)}

        def is_write_call(c: ast.Call) -> bool:
            if classify_sink(c, r) is not None or id(c) in hw:
                return True
            targets = r.resolve_call(c)
            return bool(depth and targets and all(isinstance(t, FuncInfo) and Region(ctx, t, list(t.node.body)).write_only(fn=t, depth=depth - 1)[0] for t in targets))

        for st in stmts:
            if isinstance(st, ast.Pass) or _ret_none(st) or _is_logging(st):
                continue
            if isinstance(st, ast.Expr) and isinstance(st.value, ast.Constant):
                continue
            if isinstance(st, ast.Expr) and isinstance(st.value, ast.Call):
                if is_write_call(st.value):
                    continue
                return False, f"`{unparse(st)[:70]}` is not a write"
            if isinstance(st, ast.Assign) and all(isinstance(t, ast.Name) and t.id in self.local for t in st.targets):
                v = st.value
                if isinstance(v, (ast.Constant, ast.Name)) or (isinstance(v, ast.Call) and is_write_call(v)) or _pure_expr(v):
                    continue  # a value prepared for the write and used nowhere else
                return False, f"`{unparse(st)[:70]}` computes something that is not a write status"
            if isinstance(st, (ast.With, ast.AsyncWith)):
                for it in st.items:
                    ce = it.context_expr
                    if isinstance(ce, ast.Call) and (classify_sink(ce, r) is not None or last_attr(ce.func) == "measure"):
                        continue
                    return False, f"with-item `{unparse(ce)[:60]}` is neither a write handle nor a timer"
                ok, why = self.write_only(st.body, fn, depth)
                if not ok:
                    return ok, why
                continue
            if isinstance(st, ast.Try):
                ok, why = self.write_only(st.body, fn, depth)
                if not ok:
                    return ok, why
                if not all(self.benign(h.body) for h in st.handlers) or not self.benign(st.orelse):
                    return False, "try/except around the write does more than give up"
                if st.finalbody:
                    ok, why = self.write_only(st.finalbody, fn, depth)
                    if not ok:
                        return ok, why
                continue
            if isinstance(st, ast.If):
                reads = {x.id for x in ast.walk(st.test) if isinstance(x, ast.Name)}
                pure = not any(isinstance(x, (ast.Call, ast.Attribute, ast.Subscript)) for x in ast.walk(st.test))
                if pure and reads <= self.local:
                    for branch in (st.body, st.orelse):
                        if self.benign(branch):
                            continue
                        ok, why = self.write_only(branch, fn, depth)
                        if not ok:
                            return ok, why
                    continue
                return False, f"`if {unparse(st.test)[:50]}` inside the guarded block tests more than the write status"
            return False, f"`{unparse(st)[:70]}` is not a write"
        return True, ""


def _topmost(ctx, fn, nodes: list[ast.stmt]) -> list[ast.stmt]:
    ids = {id(n) for n in nodes}
    pm = ctx.parents(fn)
    out = []
    for n in nodes:
        cur = pm.get(id(n))
        inside = False
        while cur is not None and cur is not fn.node:
            if id(cur) in ids:
                inside = True
                break
            cur = pm.get(id(cur))
        if not inside:
            out.append(n)
    return out


def mode_regions(ctx, fn: FuncInfo):
    """(statements executed only when DRY is false, only when DRY is true), top-most statements each."""
    from ..flow import FlowAnalysis

    r = ctx.resolver(fn)
    texts = {unparse(n) for n in walk_no_nested(fn.node) if isinstance(n, (ast.Attribute, ast.Name)) and isinstance(getattr(n, "ctx", None), ast.Load) and is_dry_expr(n, r)}
    fa_t = FlowAnalysis(fn.node, entry={(True, t) for t in texts})
    fa_f = FlowAnalysis(fn.node, entry={(False, t) for t in texts})
    stmts = [n for n in walk_no_nested(fn.node) if isinstance(n, ast.stmt) and n is not fn.node]
    real_only = [s for s in stmts if fa_f.reachable(s) and not fa_t.reachable(s)]
    dry_only = [s for s in stmts if fa_t.reachable(s) and not fa_f.reachable(s)]
    real_returns = {unparse(s.value) if s.value is not None else "None" for s in stmts if isinstance(s, ast.Return) and fa_f.reachable(s)}
    return _topmost(ctx, fn, real_only), _topmost(ctx, fn, dry_only), real_returns


def modes_agree(ctx, fn: FuncInfo) -> tuple[bool, str]:
    """The two modes differ only by a write-only region executed when DRY is false."""
    real_only, dry_only, real_returns = mode_regions(ctx, fn)
    # the same plain binding made on both sides (`result = change_set` in the `if dry: ... else: write; ...` form an inlined early
    # return takes) is common to the two modes, not a difference between them
    def twin_key(st):
        if isinstance(st, ast.Assign) and len(st.targets) == 1 and isinstance(st.targets[0], ast.Name) and isinstance(st.value, (ast.Name, ast.Constant)):
            return unparse(st)
        # `if dry: return cs` ... write ... `return cs`: the same value is returned in both modes
        if isinstance(st, ast.Return) and (st.value is None or isinstance(st.value, (ast.Name, ast.Constant))):
            return unparse(st)
        return None

    dry_keys = [twin_key(st) for st in dry_only]
    stored_in_real = {x.id for st in real_only for x in ast.walk(st) if isinstance(x, ast.Name) and isinstance(x.ctx, ast.Store)}
    common = {k for st in real_only for k in [twin_key(st)] if k is not None and k in dry_keys
              and not (isinstance(st, ast.Return) and {x.id for x in ast.walk(st) if isinstance(x, ast.Name)} & stored_in_real)}
    if common:
        real_only = [st for st in real_only if twin_key(st) not in common]
        dry_only = [st for st in dry_only if twin_key(st) not in common]
    if not real_only and not dry_only:
        return True, ""
    reg = Region(ctx, fn, real_only)
    ok, why = reg.write_only()
    if not ok:
        return False, "the block executed only when the flag is false is not write-only: " + why
    assigned_real = {x.id for st in real_only for x in ast.walk(st) if isinstance(x, ast.Name) and isinstance(x.ctx, ast.Store)}
    for st in dry_only:
        if isinstance(st, ast.Pass) or _is_logging(st):
            continue
        if isinstance(st, ast.Return):
            v = unparse(st.value) if st.value is not None else "None"
            used = {x.id for x in ast.walk(st)if isinstance(x, ast.Name)}
            if v in real_returns and not (used & assigned_real):
                continue
            return False, f"`{unparse(st)[:60]}` is returned only in dry-run mode (a real run returns something else)"
        return False, f"`{unparse(st)[:60]}` executes only in dry-run mode (the modes diverge beyond the write)"
    return True, ""


def rule_only_writes(ctx, rep):
    rep.rule(
        "R-DRYRUN-ONLY-WRITES",
        "the dry-run flag is only stored, threaded to a dry_run parameter, or tested; in every function that tests it, the "
        "statements executed in only one mode (difference of the two assumption-pruned flow analyses) are a write-only block "
        "in real mode and nothing (or the same return) in dry-run mode — so everything that feeds the report is computed "
        "identically in both modes",
        min_instances=12,
    )
    agree_cache: dict[str, tuple[bool, str]] = {}
    for fn in ctx.prog.live_functions():
        if fn.module.name == "codemodder.cli" or fn.absorbed:
            continue
        pm = None
        r = ctx.resolver(fn)
        for n in walk_no_nested(fn.node):
            direct = (isinstance(n, ast.Attribute) and n.attr == "dry_run") or (isinstance(n, ast.Name) and n.id == "dry_run")
            if not direct or not isinstance(getattr(n, "ctx", None), ast.Load):
                continue
            pm = pm or ctx.parents(fn)
            parent = pm.get(id(n))
            use = None
            ok = False
            why = ""
            # climb through `not` and boolean connectives up to the statement that tests the value
            node = n
            while (isinstance(parent, ast.UnaryOp) and isinstance(parent.op, ast.Not)) or isinstance(parent, ast.BoolOp):
                node, parent = parent, pm.get(id(parent))
            if isinstance(parent, ast.keyword):
                node, parent = parent, pm.get(id(parent))
            if isinstance(parent, ast.Call) and (node in parent.args or node in parent.keywords) and node is not n and not isinstance(node, ast.keyword):
                use = "other"
                why = f"used in `{unparse(parent)[:70]}`"
            elif isinstance(parent, ast.Call) and (node in parent.args or node in parent.keywords):
                targets = r.resolve_call(parent)
                fts = [t for t in targets if isinstance(t, FuncInfo)]
                if fts and all("dry_run" in t.params() for t in fts):
                    t0 = fts[0]
                    b = bind_args(parent, t0, t0.cls is not None)
                    ok = b.get("dry_run") is n
                    use = "threaded"
                    why = "passed to a parameter other than dry_run"
                else:
                    use = "argument"
                    why = f"passed to `{unparse(parent.func)}` which has no dry_run parameter"
            elif isinstance(parent, (ast.Assign, ast.AnnAssign)) and parent.value is node and node is n:
                tgts = parent.targets if isinstance(parent, ast.Assign) else [parent.target]
                ok = all(isinstance(t, ast.Attribute) and t.attr == "dry_run" or isinstance(t, ast.Name) for t in tgts)
                use = "stored"
                why = "stored under another name"
            elif isinstance(parent, ast.If) and parent.test is node:
                use = "guard"
                if fn.qname not in agree_cache:
                    agree_cache[fn.qname] = modes_agree(ctx, fn)
                ok, why = agree_cache[fn.qname]
            else:
                use = "other"
                why = f"used in `{unparse(parent)[:70] if parent is not None else '?'}`"
            rep.check(
                "R-DRYRUN-ONLY-WRITES",
                fn.qname,
                fn.loc(n),
                ok,
                detail=f"{use}:{unparse(n)}",
                message=f"dry-run flag `{unparse(n)}` {why}",
                use=use,
            )


SPAWNERS = {"subprocess.run", "subprocess.call", "subprocess.check_call", "subprocess.check_output", "subprocess.Popen", "os.system", "os.popen",
            "os.execv", "os.execve", "os.execvp", "os.spawnv", "os.spawnl", "os.startfile", "subprocess.getoutput", "subprocess.getstatusoutput"}


def _command_head(ctx, fn: FuncInfo, call: ast.Call) -> list[str]:
    """Leading constant words of the command a spawn call runs (list literal, possibly built up in a local)."""
    arg = call.args[0] if call.args else next((k.value for k in call.keywords if k.arg == "args"), None)
    # the list the command starts as: follow plain assignments of the name (later `+=` / extend only append to it)
    for _ in range(4):
        if not isinstance(arg, ast.Name):
            break
        plain = [a.value for a in walk_no_nested(fn.node) if isinstance(a, ast.Assign) and any(isinstance(t, ast.Name) and t.id == arg.id for t in a.targets)]
        plain += [a.value for a in walk_no_nested(fn.node) if isinstance(a, ast.AnnAssign) and a.value is not None and isinstance(a.target, ast.Name) and a.target.id == arg.id]
        if len(plain) != 1:
            break
        arg = plain[0]
    words = []
    if isinstance(arg, (ast.List, ast.Tuple)):
        for e in arg.elts:
            if isinstance(e, ast.Constant) and isinstance(e.value, str):
                words.append(e.value)
            else:
                break
    elif isinstance(arg, ast.Constant) and isinstance(arg.value, str):
        words = arg.value.split()
    return words


def rule_no_foreign_process(ctx, rep):
    rep.rule(
        "R-NO-FOREIGN-PROCESS",
        "a child process started on the way from codemodder.run can write wherever it likes, so each spawn reachable from run() is either "
        "executed only under DRY=false or is the one confirmed read-only tool invocation (`semgrep scan ... --output <temporary file>`); "
        "anything else pointed at the project (e.g. `git status`, which refreshes .git/index) may modify the tree during a dry run",
        min_instances=1,
    )
    reach = ctx.cg.reachable([RUN])
    gs = GuardSummary(ctx, reach)
    n = 0
    for q in sorted(reach):
        fn = ctx.prog.functions[q]
        r = ctx.resolver(fn)
        for c in walk_no_nested(fn.node):
            if not isinstance(c, ast.Call):
                continue
            cq = r.callee_qname(c) if isinstance(c.func, (ast.Name, ast.Attribute)) else None
            if cq not in SPAWNERS:
                continue
            n += 1
            head = _command_head(ctx, fn, c)
            ex = None
            if head[:2] == ["semgrep", "scan"]:
                ex = "semgrep scan: reads its targets, writes only the --output file (a NamedTemporaryFile)"
            fa = ctx.flow(fn)
            local = fa.reachable(c) and dry_fact(fa.must_at(c), r) is False
            ok = bool(ex) or local or not fa.reachable(c) or gs.guarded(fn.qname)
            rep.check("R-NO-FOREIGN-PROCESS", fn.qname, fn.loc(c), ok, f"spawn:{' '.join(head[:2]) or unparse(c.func)}",
                      f"`{unparse(c)[:80]}` starts `{' '.join(head[:3]) or 'a process'}` also when dry_run is set: what that program writes under the target "
                      "directory is outside every dry-run guard", exempt=ex)
    if n < 1:
        raise AnalysisError("no process spawn reachable from run() (the semgrep invocation was confirmed by hand)")


def check(ctx, rep):
    rep.explanation = (
        "Whole-program static analysis: call graph from codemodder.run (libcst hook dispatch included) -> every "
        "file-system write sink; per-function must-dataflow of branch facts decides that each sink executes only "
        "when the dry-run flag is false; every binding of a dry_run parameter and every read of the flag is "
        "enumerated and classified."
    )
    rule_guard(ctx, rep)
    rule_thread(ctx, rep)
    rule_flag_stored(ctx, rep)
    rule_only_writes(ctx, rep)
    rule_no_foreign_process(ctx, rep)
    from .c17 import rule_select_unique

    # a codemod selected twice runs twice: the second execution sees the rewritten files in a real run but the originals in a dry run,
    # so the dry-run report lists every changeset twice and no longer predicts the real one
    rule_select_unique(ctx, rep)
    rep.not_covered += [
        "equality of dry and real reports beyond 'the flag influences nothing but writes' (I/O failures during the real write)",
    ]
