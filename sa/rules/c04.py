"""C04 — --dry-run never touches the project and predicts the real run.

R-DRYRUN-GUARD       every project write sink reachable from codemodder.run executes only under DRY=false
R-DRYRUN-THREAD      every call of a callable with a `dry_run` parameter passes the flag
R-DRYRUN-ONLY-WRITES the flag is consulted only to guard write-only blocks (so the report is computed alike)
"""
from __future__ import annotations

import ast

from ..flow import cond_facts
from ..model import AnalysisError, FuncInfo, bind_args, call_name, dotted_name, last_attr, unparse, walk_no_nested
from ..roles import classify_sink, dry_fact, handle_writes, is_dry_expr

RUN = "codemodder.codemodder.run"

# sinks that are not project content are exempt by the *shape* that justifies it (never by the name of the function they sit in)
def reachable_sinks(ctx):
    reach = ctx.cg.reachable([RUN])
    out = []
    for q in sorted(reach):
        fn = ctx.prog.functions[q]
        r = ctx.resolver(fn)
        for n in walk_no_nested(fn.node):
            if isinstance(n, ast.Call):
                s = classify_sink(n, r)
                if s is not None:
                    out.append((fn, s))
    return reach, out


def exempt_reason(ctx, fn: FuncInfo, sink) -> str | None:
    if sink.kind == "fdopen-write":
        # a descriptor handed out by tempfile.mkstemp() in the same function: a fresh temporary file
        fd = sink.path
        if isinstance(fd, ast.Name):
            for n in walk_no_nested(fn.node):
                if isinstance(n, ast.Assign) and isinstance(n.value, ast.Call) and (ctx.resolver(fn).callee_qname(n.value) or call_name(n.value) or "").endswith("mkstemp"):
                    if fd.id in {x.id for x in ast.walk(n.targets[0]) if isinstance(x, ast.Name)}:
                        return "handle returned by tempfile.mkstemp(): temporary file, not project content"
        return None
    if sink.kind == "open-write":
        # the report: the path is a parameter and every caller passes the --output option value
        if isinstance(sink.path, ast.Name) and sink.path.id in fn.params():
            sites = ctx.cg.sites.get(fn.qname, [])
            if not sites:
                return None
            for caller, call in sites:
                bound = fn.cls is not None and isinstance(call.func, ast.Attribute)
                arg = bind_args(call, fn, bound).get(sink.path.id)
                arg = ctx.resolver(caller).expand(arg) if arg is not None else None
                if not (isinstance(arg, ast.Attribute) and arg.attr == "output"):
                    return None
            return "the report named by --output is not project content"
    return None


class GuardSummary:
    """fn is 'only called under DRY=false' (all call sites guarded, transitively)."""

    def __init__(self, ctx, reach):
        self.ctx = ctx
        self.reach = reach
        self.memo: dict[str, bool] = {}
        self.why: dict[str, str] = {}

    def site_guarded(self, caller: FuncInfo, call: ast.Call) -> bool:
        fa = self.ctx.flow(caller)
        if not fa.reachable(call):
            return True  # dead code
        return dry_fact(fa.must_at(call), self.ctx.resolver(caller)) is False

    def guarded(self, q: str, stack=()) -> bool:
        if q in self.memo:
            return self.memo[q]
        if q in stack:
            return False
        sites = [(c, n) for c, n in self.ctx.cg.sites.get(q, []) if c.qname in self.reach]
        sites += [(c, n) for c, n in self.ctx.cg.dispatch_sites.get(q, []) if c.qname in self.reach]
        if not sites:
            self.memo[q] = False
            self.why[q] = "no call site (entry point)"
            return False
        ok = True
        for caller, call in sites:
            if self.site_guarded(caller, call):
                continue
            if self.guarded(caller.qname, stack + (q,)):
                continue
            ok = False
            self.why[q] = f"unguarded call at {caller.loc(call)} in {caller.qname}"
            break
        self.memo[q] = ok
        return ok


def rule_guard(ctx, rep):
    rep.rule(
        "R-DRYRUN-GUARD",
        "every file-system write sink reachable from codemodder.run is executed only under DRY=false "
        "(locally, or in every caller chain); report/temp-file sinks exempt by name and shape",
        min_instances=9,
    )
    reach, sinks = reachable_sinks(ctx)
    gs = GuardSummary(ctx, reach)
    for fn, s in sinks:
        where = fn.loc(s.call)
        ex = exempt_reason(ctx, fn, s)
        fa = ctx.flow(fn)
        local = fa.reachable(s.call) and dry_fact(fa.must_at(s.call), ctx.resolver(fn)) is False
        dead = not fa.reachable(s.call)
        via = None
        ok = bool(ex) or local or dead
        if not ok and gs.guarded(fn.qname):
            ok = True
            via = "all callers guarded"
        path = ctx.cg.path(RUN, fn.qname)
        rep.check(
            "R-DRYRUN-GUARD",
            fn.qname,
            where,
            ok,
            detail=f"{s.kind}:{last_attr(s.call.func)}",
            message=(
                f"write sink `{unparse(s.call)[:90]}` can execute when dry_run is set "
                f"({gs.why.get(fn.qname, 'no dominating `not dry_run` test')})"
            ),
            path=path,
            sink=unparse(s.call)[:100],
            guard=("exempt: " + ex) if ex else ("local DRY=false" if local else via or ("unreachable" if dead else None)),
        )
    if sum(1 for fn, s in sinks if not exempt_reason(ctx, fn, s)) < 7:
        raise AnalysisError("fewer than 7 project write sinks found reachable from run(): model lost a pipeline or writer")


def funcs_with_dry_param(ctx):
    return [f for f in ctx.prog.functions.values() if "dry_run" in f.params()]


def rule_thread(ctx, rep):
    rep.rule(
        "R-DRYRUN-THREAD",
        "every call to a repo callable that has a `dry_run` parameter passes a dry-run-role argument for it",
        min_instances=4,
    )
    seen: set[int] = set()
    for f in funcs_with_dry_param(ctx):
        for caller, call in ctx.cg.sites.get(f.qname, []):
            if id(call) in seen:
                continue
            if last_attr(call.func) in ("partial", "map", "submit"):
                continue
            seen.add(id(call))
            bound = f.cls is not None and not any("staticmethod" in d for d in f.decorators())
            args = bind_args(call, f, bound)
            arg = args.get("dry_run")
            ok = arg is not None and is_dry_expr(arg, ctx.resolver(caller))
            rep.check(
                "R-DRYRUN-THREAD",
                caller.qname,
                caller.loc(call),
                ok,
                detail=f"->{f.cls.name + '.' if f.cls else ''}{f.name}",
                message=(
                    f"call `{unparse(call)[:90]}` "
                    + ("omits the dry_run argument (defaults to False: a real write)" if arg is None else f"passes `{unparse(arg)}`, not the dry-run flag")
                ),
                callee=f.qname,
                arg=unparse(arg) if arg is not None else None,
            )


def _is_benign_handler(h: ast.ExceptHandler) -> bool:
    for st in h.body:
        if isinstance(st, ast.Return) and (st.value is None or (isinstance(st.value, ast.Constant) and st.value.value is None)):
            continue
        if isinstance(st, ast.Pass):
            continue
        if isinstance(st, ast.Expr) and isinstance(st.value, ast.Call) and (dotted_name(st.value.func) or "").startswith(("logger.", "logging.")):
            continue
        return False
    return True


def write_only(ctx, fn: FuncInfo, stmts: list[ast.stmt], depth: int = 2) -> tuple[bool, str]:
    r = ctx.resolver(fn)
    hw = {id(c) for c, _, _ in handle_writes(fn.node, r)}
    for st in stmts:
        if isinstance(st, ast.Pass):
            continue
        if isinstance(st, ast.Expr) and isinstance(st.value, ast.Constant):
            continue
        if isinstance(st, ast.Expr) and isinstance(st.value, ast.Call):
            c = st.value
            if classify_sink(c, r) is not None or id(c) in hw:
                continue
            targets = r.resolve_call(c)
            if depth and targets and all(isinstance(t, FuncInfo) and write_only(ctx, t, t.node.body, depth - 1)[0] for t in targets):
                continue
            return False, f"`{unparse(st)[:70]}` is not a write"
        if isinstance(st, (ast.With, ast.AsyncWith)):
            for it in st.items:
                ce = it.context_expr
                if isinstance(ce, ast.Call) and (classify_sink(ce, r) is not None or last_attr(ce.func) == "measure"):
                    continue
                return False, f"with-item `{unparse(ce)[:60]}` is neither a write handle nor a timer"
            ok, why = write_only(ctx, fn, st.body, depth)
            if not ok:
                return ok, why
            continue
        if isinstance(st, ast.Try):
            ok, why = write_only(ctx, fn, st.body, depth)
            if not ok:
                return ok, why
            if st.orelse or st.finalbody or not all(_is_benign_handler(h) for h in st.handlers):
                return False, "try/except around the write does more than give up"
            continue
        return False, f"`{unparse(st)[:70]}` is not a write"
    return True, ""


def rule_only_writes(ctx, rep):
    rep.rule(
        "R-DRYRUN-ONLY-WRITES",
        "the dry-run flag is only stored, threaded to a dry_run parameter, or tested as `if not DRY:` around a "
        "write-only block without else — so everything that feeds the report is computed identically in both modes",
        min_instances=12,
    )
    dry_params = {f.qname for f in funcs_with_dry_param(ctx)}
    for fn in ctx.prog.functions.values():
        if fn.module.name == "codemodder.cli":
            continue
        pm = None
        r = ctx.resolver(fn)
        for n in walk_no_nested(fn.node):
            direct = (isinstance(n, ast.Attribute) and n.attr == "dry_run") or (isinstance(n, ast.Name) and n.id == "dry_run")
            if not direct or not isinstance(getattr(n, "ctx", None), ast.Load):
                continue
            pm = pm or ctx.parents(fn)
            parent = pm.get(id(n))
            use = None
            ok = False
            why = ""
            # climb through `not`
            node = n
            while isinstance(parent, ast.UnaryOp) and isinstance(parent.op, ast.Not):
                node, parent = parent, pm.get(id(parent))
            if isinstance(parent, ast.Call) and (node in parent.args or any(k.value is node for k in parent.keywords)):
                targets = r.resolve_call(parent)
                fts = [t for t in targets if isinstance(t, FuncInfo)]
                if fts and all("dry_run" in t.params() for t in fts):
                    t0 = fts[0]
                    b = bind_args(parent, t0, t0.cls is not None)
                    ok = b.get("dry_run") is node
                    use = "threaded"
                    why = "passed to a parameter other than dry_run"
                else:
                    use = "argument"
                    why = f"passed to `{unparse(parent.func)}` which has no dry_run parameter"
            elif isinstance(parent, (ast.Assign, ast.AnnAssign)) and parent.value is node:
                tgts = parent.targets if isinstance(parent, ast.Assign) else [parent.target]
                ok = all(isinstance(t, ast.Attribute) and t.attr == "dry_run" or isinstance(t, ast.Name) for t in tgts)
                use = "stored"
                why = "stored under another name"
            elif isinstance(parent, ast.If) and parent.test is node:
                use = "guard"
                facts = cond_facts(parent.test, True)
                if len(facts) == 1 and next(iter(facts))[0] is False and not parent.orelse:
                    ok, why = write_only(ctx, fn, parent.body)
                    why = "guarded block is not write-only: " + why
                else:
                    why = "tested in a form other than `if not dry_run:` without else (the modes would diverge beyond the write)"
            else:
                use = "other"
                why = f"used in `{unparse(parent)[:70] if parent is not None else '?'}`"
            rep.check(
                "R-DRYRUN-ONLY-WRITES",
                fn.qname,
                fn.loc(n),
                ok,
                detail=f"{use}:{unparse(n)}",
                message=f"dry-run flag `{unparse(n)}` {why}",
                use=use,
            )


def check(ctx, rep):
    rep.explanation = (
        "Whole-program static analysis: call graph from codemodder.run (libcst hook dispatch included) -> every "
        "file-system write sink; per-function must-dataflow of branch facts decides that each sink executes only "
        "when the dry-run flag is false; every binding of a dry_run parameter and every read of the flag is "
        "enumerated and classified."
    )
    rule_guard(ctx, rep)
    rule_thread(ctx, rep)
    rule_only_writes(ctx, rep)
    rep.not_covered += [
        "equality of dry and real reports beyond 'the flag influences nothing but writes' (I/O failures during the real write)",
    ]
