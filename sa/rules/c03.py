"""C03 — the reported diff is the change made on disk.

R-DIFF-WRITE-AGREE        diff 'after' operand and written payload are the same value; 'before' derives from a read of the written path
R-CHANGESET-IFF-WRITE     (path-sensitive) returns a ChangeSet <=> wrote (when not dry); returns None => wrote nothing
R-EMPTY-DIFF-NO-CHANGESET libcst pipeline builds a ChangeSet only with non-empty changes and a non-empty diff
R-NEWLINE-LOSSLESS        read-modify-write of one path uses bytes or newline='' on both sides
R-NO-CONTENT-CACHE        no memoised function on the path that reads target file content
"""
from __future__ import annotations

import ast

from ..flow import FlowAnalysis, has_event, may_event
from ..model import AnalysisError, FuncInfo, call_name, last_attr, names_in, unparse, walk_no_nested
from ..prov import Prov, is_cached
from ..roles import classify_sink, is_dry_expr, open_mode
from ..sites import changeset_calls, diff_calls, kwarg, pipeline_applies, rw_sites, site_writes, writer_adds

LIBCST_PIPELINE = "codemodder.codemods.libcst_transformer.LibcstTransformerPipeline.apply"


def _assigned_after(fn: FuncInfo, name: str, after_line: int) -> bool:
    for n in walk_no_nested(fn.node):
        if isinstance(n, (ast.Assign, ast.AugAssign, ast.AnnAssign)) and n.lineno > after_line:
            tg = n.targets if isinstance(n, ast.Assign) else [n.target]
            for t in tg:
                if name in names_in(t):
                    return True
    return False


def rule_diff_write(ctx, rep):
    rep.rule(
        "R-DIFF-WRITE-AGREE",
        "in each read->diff->write site the diff's after-operand and the written payload have the same root value, "
        "and the before-operand derives from a read of the very path that is written",
        min_instances=7,
    )
    for fn in rw_sites(ctx):
        pv = Prov(ctx, fn)
        diffs = diff_calls(ctx, fn)
        writes = site_writes(ctx, fn)
        where = fn.loc()
        if len(diffs) != 1 or not writes:
            rep.check("R-DIFF-WRITE-AGREE", fn.qname, where, False, "anchors",
                      f"expected exactly one diff computation and at least one write, found {len(diffs)} / {len(writes)}")
            continue
        dcall, before, after = diffs[0]
        a_root = pv.root(after)
        b_root = pv.root(before)
        # the before-operand is what was read: every local list on its way from the read to the diff keeps its elements
        # (terminating the last line, `x[-1] += "\n"`, is judged by R-NEWLINE-LOSSLESS; dropping / inserting / reordering lines
        # makes "before + diff" differ from the file that was on disk)
        chain = []
        cur_e = before
        for _ in range(6):
            if isinstance(cur_e, ast.Name):
                chain.append(cur_e.id)
                nxt = ctx.resolver(fn).single_assignments().get(cur_e.id)
                if nxt is None:
                    break
                cur_e = nxt
                while isinstance(cur_e, ast.Call) and isinstance(cur_e.func, ast.Attribute) and cur_e.func.attr in ("copy",) and not cur_e.args:
                    cur_e = cur_e.func.value
                if isinstance(cur_e, ast.NamedExpr):
                    cur_e = cur_e.value
            else:
                break
        shrunk = []
        for n in walk_no_nested(fn.node):
            if isinstance(n, ast.Call) and isinstance(n.func, ast.Attribute) and isinstance(n.func.value, ast.Name) and n.func.value.id in chain \
                    and n.func.attr in ("pop", "remove", "clear", "insert", "sort", "reverse", "append", "extend") and n.lineno < dcall.lineno:
                shrunk.append(n)
            elif isinstance(n, ast.Delete) and any(isinstance(t, ast.Subscript) and isinstance(t.value, ast.Name) and t.value.id in chain for t in n.targets) and n.lineno < dcall.lineno:
                shrunk.append(n)
            elif isinstance(n, ast.Assign) and n.lineno < dcall.lineno and any(isinstance(t, ast.Subscript) and isinstance(t.slice, ast.Slice) and isinstance(t.value, ast.Name) and t.value.id in chain for t in n.targets):
                shrunk.append(n)
        rep.check("R-DIFF-WRITE-AGREE", fn.qname, fn.loc(shrunk[0]) if shrunk else fn.loc(dcall), not shrunk, "before-intact",
                  "the list used as the diff's before-operand is restructured before the diff (" + ", ".join(f"`{unparse(x)[:40]}`" for x in shrunk[:3])
                  + "): the reported hunks no longer start from the file that was on disk")
        for w in writes:
            detail = f"{w['kind']}"
            if w["payload"] is None:
                rep.check("R-DIFF-WRITE-AGREE", fn.qname, fn.loc(w["call"]), False, detail + ":payload",
                          f"cannot identify what `{unparse(w['call'])[:70]}` writes")
                continue
            p_root = pv.root(w["payload"])
            same = unparse(p_root) == unparse(a_root)
            redefined = isinstance(a_root, ast.Name) and _assigned_after(fn, a_root.id, min(dcall.lineno, w["call"].lineno))
            path_root = pv.root(w["path"]) if w["path"] is not None else None
            before_ok = path_root is not None and unparse(path_root) == unparse(b_root)
            ok = same and not redefined and before_ok
            msg = []
            if not same:
                msg.append(f"the diff is computed from `{unparse(a_root)}` but `{unparse(p_root)}` is written")
            if redefined:
                msg.append(f"`{unparse(a_root)}` is re-assigned between the diff and the write")
            if not before_ok:
                msg.append(
                    f"the diff's before-operand derives from `{unparse(b_root)}`, not from a read of the written path "
                    f"`{unparse(path_root) if path_root is not None else '?'}`"
                )
            rep.check("R-DIFF-WRITE-AGREE", fn.qname, fn.loc(w["call"]), ok, detail, "; ".join(msg),
                      after=unparse(a_root), payload=unparse(p_root), before=unparse(b_root),
                      written_path=unparse(path_root) if path_root is not None else None)


def _ret_kind(ctx, fn, value: ast.expr | None, must: frozenset = frozenset()) -> str:
    """'none' | 'changeset' | 'other' for a returned expression, given the facts of the alternative it is returned under."""
    if value is None or (isinstance(value, ast.Constant) and value.value is None):
        return "none"
    r = ctx.resolver(fn)
    if isinstance(value, ast.Name) and (True, f"{value.id} is None") in must:
        return "none"  # the sentinel assignment is the one that reaches this alternative
    v = r.expand(value)
    if isinstance(v, ast.Call) and r.callee_qname(v) == "codemodder.codetf.ChangeSet":
        return "changeset"
    if isinstance(v, ast.Name):
        if (True, f"{v.id} is None") in must:
            return "none"
        vals = [a.value for a in walk_no_nested(fn.node) if isinstance(a, ast.Assign) and any(isinstance(t, ast.Name) and t.id == v.id for t in a.targets)]
        real = [x for x in vals if not (isinstance(x, ast.Constant) and x.value is None)]
        def is_cs(x):
            x = r.expand(x) if isinstance(x, ast.Name) else x
            return isinstance(x, ast.Call) and r.callee_qname(x) == "codemodder.codetf.ChangeSet"

        if real and all(is_cs(x) for x in real) and (False, f"{v.id} is None") in must:
            return "changeset"
    return "other"


def _dry_texts(ctx, fn) -> set[str]:
    r = ctx.resolver(fn)
    out = set()
    for n in walk_no_nested(fn.node):
        if isinstance(n, (ast.Attribute, ast.Name)) and is_dry_expr(n) and isinstance(n.ctx, ast.Load):
            out.add(unparse(n))
    return out


def _in_handler_after_write(ctx, fn, node, write_calls) -> bool:
    pm = ctx.parents(fn)
    cur = node
    while cur is not None:
        par = pm.get(id(cur))
        if isinstance(par, ast.ExceptHandler):
            tr = pm.get(id(par))
            if isinstance(tr, ast.Try):
                body_nodes = {id(x) for st in tr.body for x in ast.walk(st)}
                if any(id(w) in body_nodes for w in write_calls):
                    return True
        cur = par
    return False


def rule_changeset_iff_write(ctx, rep):
    rep.rule(
        "R-CHANGESET-IFF-WRITE",
        "assumption-pruned path analysis per site: with DRY=false every exit returning a ChangeSet has executed the write "
        "on all paths and every exit returning None has executed no write (I/O-failure handlers excepted); with DRY=true "
        "no exit has executed a write",
        min_instances=14,
    )
    for fn in rw_sites(ctx):
        writes = site_writes(ctx, fn)
        wids = {id(w["call"]) for w in writes}
        texts = _dry_texts(ctx, fn)
        if not texts or not writes:
            rep.check("R-CHANGESET-IFF-WRITE", fn.qname, fn.loc(), False, "anchors",
                      "site has no dry-run test or no write: a real run cannot produce the change it reports")
            continue

        def ev(call):
            return "EV:write" if id(call) in wids else None

        # handlers of a try whose body contains the write: entering one means the write may have failed (I/O failure)
        wfail_handlers = set()
        for tr in walk_no_nested(fn.node):
            if isinstance(tr, ast.Try):
                body_nodes = {id(x) for st in tr.body for x in ast.walk(st)}
                if any(i in body_nodes for i in wids):
                    wfail_handlers |= {id(h) for h in tr.handlers}

        def hev(node):
            return "EV:write-failed" if id(node) in wfail_handlers else None

        for dry in (False, True):
            entry = {(dry, t) for t in texts}
            fa = FlowAnalysis(fn.node, ev, entry, node_event=hev)
            n_cs = 0
            for ex in fa.exits:
                if ex.kind == "raise":
                    continue
                where = fn.loc(ex.node) if ex.node is not None else fn.loc()
                # one verdict per alternative of the exit state (the same `return x` can be the failure exit and the success exit)
                verdicts = {}
                for must, may in ex.state.parts:
                    kind = _ret_kind(ctx, fn, ex.value, must) if ex.kind == "return" else "none"
                    wrote_all = (True, "EV:write") in must
                    wrote_some = "EV:write" in may
                    if dry:
                        ok = not wrote_some
                        msg = "a write is reachable on a path where the dry-run flag is set"
                    elif kind == "changeset":
                        ok = wrote_all
                        msg = "a ChangeSet is returned on a path that has not written the file (report names a change that was not made)"
                    elif kind == "none":
                        # this alternative either wrote nothing or went through the write's failure handler
                        ok = (not wrote_some) or (True, "EV:write-failed") in must
                        msg = "returns None (no changeset) on a path that has written the file (a changed file without a changeset)"
                    else:
                        ok = True
                        msg = ""
                    prev = verdicts.get(kind)
                    verdicts[kind] = (ok and (prev[0] if prev else True), msg if not ok else (prev[1] if prev else msg), wrote_all and (prev[2] if prev else True), wrote_some or (prev[3] if prev else False))
                for kind, (ok, msg, wrote_all, wrote_some) in sorted(verdicts.items()):
                    if kind == "changeset" and not dry:
                        n_cs += 1
                    label = f"DRY={dry}:{kind}:{unparse(ex.node)[:40] if ex.node is not None else 'end'}"
                    rep.check("R-CHANGESET-IFF-WRITE", fn.qname, where, ok, label, msg,
                              wrote_on_all_paths=wrote_all, wrote_on_some_path=wrote_some)
            if not dry and n_cs == 0:
                rep.check("R-CHANGESET-IFF-WRITE", fn.qname, fn.loc(), False, "no-changeset-exit",
                          "no exit returns a ChangeSet when not in dry-run mode")


def rule_empty_diff(ctx, rep):
    rep.rule(
        "R-EMPTY-DIFF-NO-CHANGESET",
        "the libcst pipeline constructs its ChangeSet only under facts NONEMPTY(changes) and NONEMPTY(diff)",
        min_instances=2,
    )
    fn = ctx.prog.func(LIBCST_PIPELINE)
    fa = ctx.flow(fn)
    cs = changeset_calls(ctx, fn)
    if not cs:
        raise AnalysisError("libcst pipeline no longer constructs a ChangeSet")
    for c in cs:
        must = fa.must_at(c)
        for argname in ("changes", "diff"):
            a = kwarg(c, argname)
            ok = a is not None and (True, unparse(a)) in must
            rep.check("R-EMPTY-DIFF-NO-CHANGESET", fn.qname, fn.loc(c), ok, argname,
                      f"ChangeSet is built without a dominating non-emptiness test of `{unparse(a) if a is not None else argname}` "
                      "(a run that changes nothing would still report a changeset)")


def rule_strict_decode(ctx, rep, rule_id="R-STRICT-DECODE"):
    """Shared by C03 / C14: a manifest or source that cannot be decoded must fail (file left alone, failure / failed notice reported),
    not be 'carried through' a lossy or escaping error handler into a rewrite."""
    rep.rule(
        rule_id,
        "in every read-modify-write site (3 pipelines, 4 manifest writers and their private helpers) text is decoded and encoded strictly: "
        "no `errors=` handler other than 'strict' on open() / read_text / write_text / decode / encode -- with surrogateescape / ignore / "
        "replace a file in another encoding (UTF-16 requirements.txt) is 'read', appended to and written back as garbage while the report "
        "says it was updated",
        min_instances=7,
    )
    for fn in rw_sites(ctx):
        r = ctx.resolver(fn)
        fns = [fn]
        if fn.cls is not None:
            for n in walk_no_nested(fn.node):
                if isinstance(n, ast.Call):
                    for t in r.resolve_call(n):
                        if isinstance(t, FuncInfo) and t.cls is not None and t.name.startswith("_") and t not in fns:
                            fns.append(t)
        bad = []
        n_io = 0
        for f in fns:
            rr = ctx.resolver(f)
            for n in walk_no_nested(f.node):
                if not isinstance(n, ast.Call):
                    continue
                q = rr.callee_qname(n) if isinstance(n.func, (ast.Name, ast.Attribute)) else None
                la = last_attr(n.func)
                if q in ("open", "io.open", "codecs.open") or la in ("read_text", "write_text", "decode", "encode"):
                    n_io += 1
                    e = kwarg(n, "errors")
                    if e is None and la in ("decode", "encode") and len(n.args) >= 2:
                        e = n.args[1]
                    if e is not None:
                        ev = rr.expand(e)
                        if isinstance(ev, ast.Name) and ev.id in f.module.constants:
                            ev = f.module.constants[ev.id]
                        if not (isinstance(ev, ast.Constant) and ev.value in ("strict", None)):
                            bad.append((f, n, unparse(ev)[:30]))
        rep.check(rule_id, fn.qname, fn.loc(bad[0][1]) if bad else fn.loc(), not bad, "errors-handler",
                  "; ".join(f"`{unparse(n)[:50]}` in {f.name} uses errors={v}" for f, n, v in bad[:3])
                  + ": undecodable input is altered / escaped instead of failing", io_calls=n_io)


def rule_newline(ctx, rep):
    rep.rule(
        "R-NEWLINE-LOSSLESS",
        "a function that reads a path and writes the same path back does both in binary mode or with newline='' "
        "(otherwise universal-newline translation rewrites every CRLF line while the diff shows only the edit)",
        min_instances=7,
    )
    for fn in rw_sites(ctx):
        r = ctx.resolver(fn)
        pv = Prov(ctx, fn)
        # text-mode opens (read or write) of the written path, in the site and in its inlined self-helpers
        bad = []
        n_io = 0
        fns = [fn]
        if fn.cls is not None:
            for n in walk_no_nested(fn.node):
                if isinstance(n, ast.Call):
                    for t in r.resolve_call(n):
                        if isinstance(t, FuncInfo) and t.cls is not None and t.name.startswith("_") and t not in fns:
                            fns.append(t)
        for f in fns:
            rr = ctx.resolver(f)
            for n in walk_no_nested(f.node):
                if not isinstance(n, ast.Call):
                    continue
                q = rr.callee_qname(n) if isinstance(n.func, (ast.Name, ast.Attribute)) else None
                if q in ("open", "io.open"):
                    n_io += 1
                    mode = open_mode(n) or ""
                    newline = kwarg(n, "newline")
                    lossless = "b" in mode or (isinstance(newline, ast.Constant) and newline.value == "")
                    if not lossless:
                        bad.append((f, n, f"open(..., {mode!r}) in text mode without newline=''"))
                elif last_attr(n.func) in ("read_bytes", "write_bytes"):
                    n_io += 1
                elif last_attr(n.func) in ("read_text", "write_text"):
                    n_io += 1
                    newline = kwarg(n, "newline")
                    if not (isinstance(newline, ast.Constant) and newline.value == ""):
                        bad.append((f, n, f"{last_attr(n.func)}() translates newlines"))
                elif last_attr(n.func) == "read" and q and q.startswith("configparser"):
                    pass
        if n_io == 0:
            rep.check("R-NEWLINE-LOSSLESS", fn.qname, fn.loc(), False, "anchors", "no file I/O found in a read-modify-write site")
            continue
        rep.check(
            "R-NEWLINE-LOSSLESS", fn.qname, fn.loc(bad[0][1]) if bad else fn.loc(), not bad, "text-mode-io",
            "read-modify-write in text mode: " + "; ".join(f"{f.name}: {why}" for f, _, why in bad)
            + " - every CRLF line ending is rewritten to LF while the reported diff shows only the edit",
            io_calls=n_io,
        )


def rule_no_content_cache(ctx, rep):
    rep.rule(
        "R-NO-CONTENT-CACHE",
        "no functools.cache/lru_cache/cached_property function reachable from a pipeline's apply reads file content "
        "(each codemod of a run must re-read what the previous one wrote)",
        min_instances=3,
    )
    for fn in pipeline_applies(ctx):
        reach = ctx.cg.reachable([fn.qname])
        offenders = []
        for q in sorted(reach):
            f = ctx.prog.functions[q]
            if not is_cached(f):
                continue
            sub = ctx.cg.reachable([q])
            for sq in sub:
                sf = ctx.prog.functions[sq]
                for n in walk_no_nested(sf.node):
                    if isinstance(n, ast.Call) and (
                        last_attr(n.func) in ("read_bytes", "read_text", "readlines", "parse_module")
                        or call_name(n) in ("open",)
                    ):
                        offenders.append((f, sf, n))
        rep.check(
            "R-NO-CONTENT-CACHE", fn.qname, fn.loc(), not offenders, "cached-read",
            "memoised function reads file content on the transform path: "
            + "; ".join(f"{f.qname} -> {sf.qname}:{n.lineno}" for f, sf, n in offenders[:3]),
            cached_on_path=[q for q in sorted(reach) if is_cached(ctx.prog.functions[q])],
        )
    # the run-wide listings of target files (memoised members of the execution context) are taken once, before any codemod has rewritten
    # anything: they may depend on names and kinds of files, never on content, size or modification time -- those change as the run goes
    # on, so a later codemod of a batch would see a selection its own single run would not
    CONTENT_DEPENDENT = ("stat", "lstat", "getsize", "getmtime", "getctime", "read_bytes", "read_text", "readlines", "read", "parse_module")
    cx = ctx.prog.cls("codemodder.context.CodemodExecutionContext")
    for m in cx.methods.values():
        if not is_cached(m):
            continue
        offenders = []
        for sq in sorted(ctx.cg.reachable([m.qname])):
            sf = ctx.prog.functions[sq]
            if sf.qname != m.qname and is_cached(sf) and sf.cls is None:
                continue  # a module-level memo keyed by its arguments is judged where it is defined
            for n in walk_no_nested(sf.node):
                if isinstance(n, ast.Call) and (last_attr(n.func) in CONTENT_DEPENDENT and isinstance(n.func, ast.Attribute) or call_name(n) in ("open", "os.stat", "os.path.getsize", "os.path.getmtime")):
                    offenders.append((sf, n))
        rep.check("R-NO-CONTENT-CACHE", m.qname, m.loc(), not offenders, "listing-independent-of-content",
                  "the memoised listing depends on file content / size / time: " + "; ".join(f"{sf.qname}:{n.lineno} `{unparse(n)[:40]}`" for sf, n in offenders[:3]))


def _codec_calls(ctx, fn, which: str):
    out = []
    for c in walk_no_nested(fn.node):
        if isinstance(c, ast.Call) and isinstance(c.func, ast.Attribute) and c.func.attr == which and not isinstance(c.func.value, ast.Constant):
            codec = c.args[0].value if c.args and isinstance(c.args[0], ast.Constant) else next((k.value.value for k in c.keywords if k.arg == "encoding" and isinstance(k.value, ast.Constant)), "utf-8" if not c.args else None)
            errors = next((k.value for k in c.keywords if k.arg == "errors"), c.args[1] if len(c.args) > 1 else None)
            out.append((c, codec, errors))
    return out


def rule_codec_agree(ctx, rep):
    rep.rule(
        "R-CODEC-AGREE",
        "each pipeline decodes the bytes it reads with an explicit constant codec, strictly (no errors= handler), hands the parser text "
        "(never the raw bytes, which would let the parser pick another encoding), and encodes what it writes with the same codec — "
        "otherwise bytes outside the reported hunks change on disk, or undecodable input is rewritten instead of failing",
        min_instances=3,
    )
    from ..sites import write_wrappers

    for fn in pipeline_applies(ctx):
        fns = [fn]
        r = ctx.resolver(fn)
        for c in walk_no_nested(fn.node):
            if isinstance(c, ast.Call):
                for t in r.resolve_call(c):
                    if isinstance(t, FuncInfo) and t.module.name.startswith("codemodder") and t.cls is None and t not in fns:
                        fns.append(t)
        decs, encs = [], []
        for f in fns:
            decs += [(f, *x) for x in _codec_calls(ctx, f, "decode")]
            encs += [(f, *x) for x in _codec_calls(ctx, f, "encode")]
        problems = []
        if not decs:
            problems.append("no explicit .decode(...) of the bytes read (the parser decides the encoding)")
        if not encs:
            problems.append("no explicit .encode(...) of the text written")
        for f, c, codec, errors in decs:
            if errors is not None and not (isinstance(errors, ast.Constant) and errors.value == "strict"):
                problems.append(f"`{unparse(c)[:50]}` decodes with an error handler: undecodable input is altered instead of failing")
            if codec is None:
                problems.append(f"`{unparse(c)[:50]}` decodes with a non-constant codec")
        codecs = {str(codec).lower().replace("_", "-") for _, _, codec, _ in decs + encs if codec is not None}
        if len(codecs) > 1:
            problems.append(f"read and write use different codecs {sorted(codecs)}")
        # parser input must be text
        for c in walk_no_nested(fn.node):
            if isinstance(c, ast.Call) and last_attr(c.func) == "parse_module" and c.args:
                chain = unparse(c.args[0])
                v = r.expand(c.args[0])
                if "read_bytes" in unparse(v) and ".decode(" not in unparse(v):
                    problems.append(f"`{unparse(c)[:60]}` hands raw bytes to the parser")
        rep.check("R-CODEC-AGREE", fn.qname, fn.loc(), not problems, "decode/encode", "; ".join(problems), codecs=sorted(codecs))


def rule_line_unit(ctx, rep, rule_id="R-LINE-UNIT"):
    rep.rule(
        rule_id,
        "text that is diffed or whose lines are numbered (diff.py, the 3 pipelines, the 4 writers) is never split with str.splitlines, "
        "which also breaks at form feeds, NEL, U+2028/9 ...: hunks and line numbers would not correspond to the file's lines (a ^L page "
        "break in a source file makes the reported diff inapplicable)",
        min_instances=8,
    )
    mods = {"codemodder.diff"}
    fns = [f for f in ctx.prog.live_functions() if f.module.name in mods] + rw_sites(ctx)
    extra = []
    for fn in rw_sites(ctx):
        r = ctx.resolver(fn)
        for c in walk_no_nested(fn.node):
            if isinstance(c, ast.Call):
                for t in r.resolve_call(c):
                    if isinstance(t, FuncInfo) and t.cls is not None and t.name.startswith("_") and t not in fns and t not in extra:
                        extra.append(t)
    for fn in fns + extra:
        bad = [c for c in walk_no_nested(fn.node) if isinstance(c, ast.Call) and isinstance(c.func, ast.Attribute) and c.func.attr == "splitlines"]
        rep.check(rule_id, fn.qname, fn.loc(bad[0]) if bad else fn.loc(), not bad, "splitlines",
                  f"`{unparse(bad[0])[:60]}` splits on more than line feeds: line numbers / diff hunks disagree with the file for text containing "
                  "form feeds or Unicode line separators" if bad else "")


NEWLINEISH = {10, 11, 12, 13, 0x1C, 0x1D, 0x1E, 0x85, 0x2028, 0x2029}


def regex_line_terminators(pattern: str) -> list[tuple[int, ...]]:
    """The runs of newline-like literals a regular expression can match as a unit (`\\r\\n`, `\\n`, `\\r`, a class `[\\r\\n]` member ...), read
    off the regex syntax tree (re._parser); negated classes are not terminators."""
    import re._parser as rp  # regex *syntax tree* of a literal of the analysed source; nothing of the repository is executed
    from re._constants import BRANCH, IN, LITERAL, MAX_REPEAT, MIN_REPEAT, NEGATE, SUBPATTERN

    out: list[tuple[int, ...]] = []

    def lit(op, av):
        if op is LITERAL and av in NEWLINEISH:
            return av
        if op in (MAX_REPEAT, MIN_REPEAT) and len(av[2]) == 1 and av[2][0][0] is LITERAL and av[2][0][1] in NEWLINEISH:
            return av[2][0][1]
        return None

    def seq(items):
        run: list[int] = []
        for op, av in items:
            c = lit(op, av)
            if c is not None:
                run.append(c)
                continue
            if run:
                out.append(tuple(run))
                run = []
            if op is IN:
                if not any(o is NEGATE for o, _ in av):
                    for o, a in av:
                        if o is LITERAL and a in NEWLINEISH:
                            out.append((a,))
            elif op is BRANCH:
                for alt in av[1]:
                    seq(list(alt))
            elif op is SUBPATTERN:
                seq(list(av[3]))
            elif op in (MAX_REPEAT, MIN_REPEAT):
                seq(list(av[2]))
        if run:
            out.append(tuple(run))

    seq(list(rp.parse(pattern)))
    return out


def rule_line_terminator(ctx, rep, rule_id="R-LINE-UNIT"):
    """second clause of R-LINE-UNIT: a regular expression used to cut text into diff lines ends a line at a line feed only"""
    mod = ctx.prog.module("codemodder.diff")
    n = 0
    SPLITTERS = ("findall", "finditer", "split")
    compiled_used_to_split = set()
    for c in ast.walk(mod.tree):
        if isinstance(c, ast.Call) and isinstance(c.func, ast.Attribute) and c.func.attr in SPLITTERS and isinstance(c.func.value, ast.Name) and c.func.value.id != "re":
            compiled_used_to_split.add(c.func.value.id)
    compiled_names = {}
    for st in ast.walk(mod.tree):
        if isinstance(st, ast.Assign) and isinstance(st.value, ast.Call) and unparse(st.value.func) == "re.compile":
            for t in st.targets:
                if isinstance(t, ast.Name):
                    compiled_names[id(st.value)] = t.id
    for c in ast.walk(mod.tree):
        if isinstance(c, ast.Call) and isinstance(c.func, ast.Attribute) and isinstance(c.func.value, ast.Name) and c.func.value.id == "re" and c.args \
                and isinstance(c.args[0], ast.Constant) and isinstance(c.args[0].value, str):
            # only expressions that cut text into pieces (split / findall / finditer, directly or through a compiled pattern)
            if not (c.func.attr in SPLITTERS or (c.func.attr == "compile" and compiled_names.get(id(c)) in compiled_used_to_split)):
                continue
            n += 1
            try:
                terms = regex_line_terminators(c.args[0].value)
            except Exception as e:
                raise AnalysisError(f"codemodder.diff: regular expression {c.args[0].value!r} not parsed: {e}")
            bad = [t for t in terms if t[-1] != 10]
            rep.check(rule_id, "codemodder.diff", f"src/codemodder/diff.py:{c.lineno}", not bad, f"regex:{c.args[0].value[:30]}",
                      f"the pattern {c.args[0].value!r} lets a line end at {[''.join(f'\\x{x:02x}' for x in t) for t in bad]} (not a line feed): difflib then gets "
                      "'lines' without a final LF, the hunk arithmetic counts them as lines of the file and the reported diff no longer applies")
    rep.instance(rule_id, "codemodder.diff", "src/codemodder/diff.py:1", True, detail=f"{n} regular expressions in the diff module examined")


def check(ctx, rep):
    rep.explanation = (
        "The 3 transformer pipelines' apply() and the 4 manifest writers' add_to_file() are enumerated from the class "
        "hierarchy; provenance (def-use roots) ties the diff operands to the written payload and path; an "
        "assumption-pruned must/may event analysis over every exit decides 'ChangeSet returned <=> file written'."
    )
    rule_diff_write(ctx, rep)
    rule_changeset_iff_write(ctx, rep)
    rule_empty_diff(ctx, rep)
    rule_newline(ctx, rep)
    rule_no_content_cache(ctx, rep)
    rule_codec_agree(ctx, rep)
    rule_line_unit(ctx, rep)
    rule_line_terminator(ctx, rep)
    from .c17 import rule_exec_order

    rule_exec_order(ctx, rep)
    rule_strict_decode(ctx, rep)
    from .c10 import rule_accumulate_all

    # a changeset that is produced but never reaches the run-wide record is an on-disk change without a reported diff
    rule_accumulate_all(ctx, rep)
    from .c10 import rule_iter_no_resume

    # every file a worker has rewritten has its changeset in the report: the merge loop must see every element of the map iterator
    rule_iter_no_resume(ctx, rep)
    from .c14 import rule_insert_after_terminated

    # the diff shows a separate added line; on disk the new requirement must not be glued to an unterminated last line
    rule_insert_after_terminated(ctx, rep)
    from .c15 import rule_model_faithful, rule_relative_path, rule_report_complete

    # 'a file without a changeset is unchanged, every changeset names a file that did change': what the pipelines record must reach the
    # report whole and under the path that was written
    rule_report_complete(ctx, rep)
    rule_relative_path(ctx, rep)
    rule_model_faithful(ctx, rep)
    rep.not_covered += [
        "byte-level applicability of difflib output (BOM, encodings, final newline arithmetic)",
        "lossless round-trip of libcst parse/emit (trusted)",
        "composition of diffs across codemods beyond 'each codemod re-reads the file and writes what it diffed'",
    ]
