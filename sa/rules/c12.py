"""C12 — no finding is lost or altered between the tool result files and the codemods.

R-MERGE-OP           every `acc |= X` / `acc | X` on a ResultSet dispatches to a merging method of the ResultSet hierarchy
R-TOTAL-LOOKUP       inside the merge, no `d[k]` with k ranging over a key union and d one of the operands
R-OR-PRECEDENCE      no `a or [] + b or []` (a `+` with a literal-empty operand inside an `or` chain)
R-READER-SHAPE       the four readers pass rule_id / locations / finding_id / finding; Location start<-start keys, end<-end keys
R-ADD-ALL-LOCATIONS  ResultSet.add_result inserts under (rule_id, loc.file) for every location
"""
from __future__ import annotations

import ast
import re

from ..model import AnalysisError, FuncInfo, call_name, dotted_name, last_attr, names_in, unparse, walk_no_nested

RESULTSET = "codemodder.result.ResultSet"


def _is_resultset(ctx, t: str | None) -> bool:
    return bool(t) and t in ctx.prog.classes and RESULTSET in ctx.prog.mro(t)


def _merging(ctx, m: FuncInfo) -> tuple[bool, str]:
    """A merge method must combine per-key values of both operands (calls the list-dict merge or concatenates lists)."""
    calls = {call_name(n) or last_attr(n.func) for n in walk_no_nested(m.node) if isinstance(n, ast.Call)}
    loops = any(isinstance(n, (ast.For, ast.comprehension)) for n in ast.walk(m.node))
    if not loops and not any(c and ("list_dict_or" in c or c.endswith("__or__")) for c in calls):
        return False, "does not iterate over the keys of its operands"
    return True, ""


def rule_merge_op(ctx, rep):
    rep.rule(
        "R-MERGE-OP",
        "accumulation `acc |= X` (or `acc = acc | X`) whose accumulator is a ResultSet must resolve to a merging method "
        "defined in the ResultSet hierarchy; dict.__ior__ is a plain update that drops the earlier file's findings per rule id",
        min_instances=1,
    )
    for fn in ctx.prog.live_functions():
        r = ctx.resolver(fn)
        for n in walk_no_nested(fn.node):
            if isinstance(n, ast.AugAssign) and isinstance(n.op, ast.BitOr):
                t = r.type_of(n.target) if isinstance(n.target, (ast.Name, ast.Attribute)) else None
                if not _is_resultset(ctx, t):
                    continue
                m = ctx.prog.lookup_method(t, "__ior__")
                if m is None:
                    # Python falls back to __or__ only if the class (incl. dict) has no __ior__; dict has one
                    ext = ctx.prog.external_bases(t)
                    ok = not any(e.split("[")[0] in ("dict", "builtins.dict") or e.startswith("dict") for e in ext)
                    why = "ResultSet inherits dict.__ior__ (plain update): for a rule id present in both files the later file overwrites the earlier one"
                    if ok:
                        m = ctx.prog.lookup_method(t, "__or__")
                        ok = m is not None and _merging(ctx, m)[0]
                        why = "no merging __or__ either"
                else:
                    ok, why = _merging(ctx, m)
                    why = f"{m.qname} {why}"
                rep.check("R-MERGE-OP", fn.qname, fn.loc(n), ok, f"|= on {t.split('.')[-1]}", f"`{unparse(n)}`: {why}")
            elif isinstance(n, ast.BinOp) and isinstance(n.op, ast.BitOr):
                t = r.type_of(n.left)
                if not _is_resultset(ctx, t):
                    continue
                m = ctx.prog.lookup_method(t, "__or__")
                ok = m is not None and _merging(ctx, m)[0]
                rep.check("R-MERGE-OP", fn.qname, fn.loc(n), ok, f"| on {t.split('.')[-1]}", f"`{unparse(n)}` does not dispatch to a merging __or__")
            elif isinstance(n, ast.Call) and isinstance(n.func, ast.Attribute) and n.func.attr == "update":
                # dict.update on a result set: the inherited, shallow one (a rule id present on both sides keeps only the argument's files)
                t = r.type_of(n.func.value) if isinstance(n.func.value, (ast.Name, ast.Attribute, ast.Call)) else None
                if not _is_resultset(ctx, t):
                    continue
                own = ctx.prog.lookup_method(t, "update")
                ok = own is not None and _merging(ctx, own)[0]
                rep.check("R-MERGE-OP", fn.qname, fn.loc(n), ok, f"update on {t.split('.')[-1]}",
                          f"`{unparse(n)[:70]}` combines result sets with dict.update: for a rule id found in both, the files of the earlier one are "
                          "replaced wholesale (findings of whole files vanish); the hierarchy's merging operators are `|` / `|=`")


def _keys_operand(side: ast.expr) -> str | None:
    """The mapping whose keys `side` enumerates: m.keys() / set(m) / list(m) / m itself (iterating a dict yields its keys)."""
    if isinstance(side, ast.Call) and last_attr(side.func) == "keys" and isinstance(side.func, ast.Attribute):
        return unparse(side.func.value)
    if isinstance(side, ast.Call) and call_name(side) in ("set", "list", "tuple", "sorted", "iter") and side.args:
        return _keys_operand(side.args[0]) or unparse(side.args[0])
    if isinstance(side, (ast.Name, ast.Attribute)):
        return unparse(side)
    return None


def _key_union_loops(fn: FuncInfo):
    """loops whose variable ranges over the keys of two mappings:  for k in a.keys() | b.keys()  /  chain(a, b)  /  [*a, *b]  /
    {**a, **b}   -> (loop, key var, operand names)"""
    for n in walk_no_nested(fn.node):
        if not (isinstance(n, ast.For) and isinstance(n.target, ast.Name)):
            continue
        it = n.iter
        sides = None
        if isinstance(it, ast.BinOp) and isinstance(it.op, ast.BitOr):
            sides = [it.left, it.right]
        elif isinstance(it, ast.Call) and (last_attr(it.func) in ("chain", "union")) and len(it.args) >= 2:
            sides = list(it.args)
        elif isinstance(it, ast.Call) and last_attr(it.func) == "union" and isinstance(it.func, ast.Attribute) and len(it.args) == 1:
            sides = [it.func.value, it.args[0]]
        elif isinstance(it, (ast.List, ast.Tuple, ast.Set)) and len(it.elts) >= 2 and all(isinstance(e, ast.Starred) for e in it.elts):
            sides = [e.value for e in it.elts]
        elif isinstance(it, ast.Dict) and len(it.values) >= 2 and all(k is None for k in it.keys):
            sides = list(it.values)
        if not sides:
            continue
        ops = [_keys_operand(x) for x in sides]
        if len(ops) >= 2 and all(ops):
            yield n, n.target.id, ops


def rule_total_lookup(ctx, rep):
    rep.rule(
        "R-TOTAL-LOOKUP",
        "in the ResultSet merge (`__or__`, `__ior__`, list_dict_or) a key ranging over the union of two key sets must not be "
        "used to subscript one operand directly (KeyError for keys present on one side only)",
        min_instances=1,
    )
    mod = ctx.prog.module("codemodder.result")
    fns = [f for f in ctx.prog.live_functions() if f.module is mod]
    n_loops = 0
    for fn in fns:
        for loop, key, ops in _key_union_loops(fn):
            n_loops += 1
            bad = []
            for x in ast.walk(loop):
                if (
                    isinstance(x, ast.Subscript)
                    and isinstance(x.ctx, ast.Load)
                    and isinstance(x.slice, ast.Name)
                    and x.slice.id == key
                    and unparse(x.value) in ops
                ):
                    bad.append(x)
            rep.check("R-TOTAL-LOOKUP", fn.qname, fn.loc(bad[0] if bad else loop), not bad, f"for {key} in union",
                      "partial lookup(s) " + ", ".join(f"`{unparse(b)}`" for b in bad)
                      + f" with `{key}` ranging over the union of both operands' keys: KeyError when a key exists on one side only")
    # a merge written without any key-union loop (e.g. `for k, v in other.items()`) has no partial-lookup hazard; the rule is
    # vacuous then, which is reported as such rather than as an error -- the merge functions themselves are anchored by R-MERGE-OP
    if n_loops == 0:
        rep.instance("R-TOTAL-LOOKUP", mod.name, f"src/{mod.relpath}:1", True, detail="no loop over a union of key sets")


def rule_or_precedence(ctx, rep):
    rep.rule(
        "R-OR-PRECEDENCE",
        "no `x or [] + y or []`: a `+` whose operand is an empty literal directly inside an `or` chain makes the right operand dead "
        "whenever the left one is truthy",
        min_instances=1,
    )
    n_or = 0
    for fn in ctx.prog.live_functions():
        for n in walk_no_nested(fn.node):
            if isinstance(n, ast.BoolOp) and isinstance(n.op, ast.Or):
                n_or += 1
                for v in n.values:
                    if isinstance(v, ast.BinOp) and isinstance(v.op, ast.Add):
                        empties = [s for s in (v.left, v.right) if isinstance(s, (ast.List, ast.Tuple, ast.Dict)) and not getattr(s, "elts", getattr(s, "keys", None))]
                        if empties:
                            rep.check("R-OR-PRECEDENCE", fn.qname, fn.loc(n), False, "or-plus-empty",
                                      f"`{unparse(n)}` parses as `a or ([] + b) or []`: the second collection is ignored whenever the first is non-empty")
    fj = ctx.prog.func("core_codemods.sonar.results.SonarResultSet.from_json")
    # the anchor: issues and hotspots are both consumed
    keys = {n.args[0].value for n in ast.walk(fj.node) if isinstance(n, ast.Call) and last_attr(n.func) == "get" and n.args and isinstance(n.args[0], ast.Constant)}
    rep.check("R-OR-PRECEDENCE", fj.qname, fj.loc(), {"issues", "hotspots"} <= keys, "reads issues+hotspots",
              "SonarResultSet.from_json no longer reads both `issues` and `hotspots`")


READERS = {
    "core_codemods.sonar.results.SonarResult.from_result": ("rule_id", "locations", "finding_id", "finding"),
    "codemodder.semgrep.SemgrepResult.from_sarif": ("rule_id", "locations", "finding_id", "finding"),
    "codemodder.codeql.CodeQLResult.from_sarif": ("rule_id", "locations", "finding_id", "finding"),
    "core_codemods.defectdojo.results.DefectDojoResult.from_result": ("rule_id", "locations", "finding_id", "finding"),
}


def _str_consts(e: ast.AST) -> list[str]:
    return [n.value for n in ast.walk(e) if isinstance(n, ast.Constant) and isinstance(n.value, str)]


def rule_reader_shape(ctx, rep):
    rep.rule(
        "R-READER-SHAPE",
        "each of the four readers passes rule_id, locations, finding_id and finding to cls(...); in every Location construction "
        "`start` is built from start-keys and `end` from end-keys (or from the start value as fallback), `file` from the path key",
        min_instances=8,
    )
    for q, fields in READERS.items():
        fn = ctx.prog.func(q)
        ctor = [n for n in walk_no_nested(fn.node) if isinstance(n, ast.Call) and isinstance(n.func, ast.Name) and n.func.id == "cls"]
        if not ctor:
            rep.check("R-READER-SHAPE", q, fn.loc(), False, "cls(...)", "reader no longer constructs its result through cls(...)")
            continue
        kws = {k.arg for k in ctor[0].keywords}
        missing = [f for f in fields if f not in kws]
        rep.check("R-READER-SHAPE", q, fn.loc(ctor[0]), not missing, "fields", f"reader drops field(s) {missing} of the result")
    # Location constructions: cls(file=..., start=..., end=...)
    loc_base = "codemodder.result.Location"
    for cq in sorted(ctx.prog.all_subclasses(loc_base)):
        c = ctx.prog.classes[cq]
        for m in c.methods.values():
            r = ctx.resolver(m)
            for n in walk_no_nested(m.node):
                if isinstance(n, ast.Call) and isinstance(n.func, ast.Name) and n.func.id == "cls":
                    kw = {k.arg: k.value for k in n.keywords}
                    if not {"start", "end", "file"} <= set(kw):
                        continue
                    s_keys = [s.lower() for s in _str_consts(r.expand(kw["start"]))]
                    e_val = r.expand(kw["end"])
                    e_keys = [s.lower() for s in _str_consts(e_val)]
                    start_ok = bool(s_keys) and all("end" not in k for k in s_keys) or unparse(kw["start"]) == unparse(kw["end"])
                    # end: keys mention 'end' (fallbacks to the start value allowed), never only start-keys
                    same = unparse(kw["start"]) == unparse(kw["end"])
                    end_ok = same or (any("end" in k for k in e_keys) and not any("start" in k for k in e_keys))
                    if not s_keys and not e_keys:
                        start_ok = end_ok = same or (unparse(kw["start"]) != unparse(kw["end"]))
                    rep.check("R-READER-SHAPE", m.qname, m.loc(n), start_ok and end_ok, "start/end",
                              f"Location built with start from {s_keys} and end from {e_keys}: start/end keys swapped or mixed",
                              start_keys=s_keys, end_keys=e_keys)


def _verbatim_doc_value(ctx, fn, e: ast.expr, params: set[str], depth: int = 16):
    """Is `e` a value read from the result document (subscript / .get chain on a parameter), wrapped at most in Path()/str()?
    Returns (ok, offending node)."""
    from ..derive import expand_predicate

    r = ctx.resolver(fn)
    while depth > 0:
        depth -= 1
        if isinstance(e, ast.Name) and e.id not in params:
            x = r.expand(e)
            if x is e:
                return False, e
            e = x
            continue
        if isinstance(e, ast.Call):
            cn = call_name(e) or ""
            if cn.split(".")[-1] in ("Path", "PurePath", "PurePosixPath", "str") and len(e.args) == 1 and not e.keywords:
                e = e.args[0]
                continue
            if isinstance(e.func, ast.Attribute) and e.func.attr == "get" and e.args:
                e = e.func.value
                continue
            x = expand_predicate(ctx, fn, e, 2)
            if x is not e:
                e = x
                continue
            return False, e
        if isinstance(e, ast.Subscript) and not isinstance(e.slice, ast.Slice):
            e = e.value
            continue
        if isinstance(e, ast.Name) and e.id in params:
            return True, None
        return False, e
    return False, e


def rule_location_file_verbatim(ctx, rep, rule_id="R-LOCATION-FILE-VERBATIM"):
    """Shared by C05 / C06 / C12 / C18."""
    rep.rule(
        rule_id,
        "the SARIF and DefectDojo readers take a finding's file from the document as it is written there -- `Path(<document value>)`, no "
        "decoding, unquoting, prefix stripping or normalisation in between: the result set is keyed by that path and looked up with the path "
        "the directory walk yields, and the run's own semgrep scans write file names verbatim, so any rewriting (percent-decoding `%20`, "
        "case folding, resolve()) makes the findings of files whose names it alters unreachable",
        min_instances=3,
    )
    n = 0
    for cq in sorted(ctx.prog.all_subclasses("codemodder.result.Location")):
        c = ctx.prog.classes[cq]
        if cq.startswith("core_codemods.sonar."):
            continue  # `<project key>:<path>`: judged by R-SONAR-COMPONENT
        for m in c.methods.values():
            if m.absorbed:
                continue
            params = set(m.positional_params()[1:])
            for call in walk_no_nested(m.node):
                if isinstance(call, ast.Call) and isinstance(call.func, ast.Name) and call.func.id == "cls":
                    fv = next((k.value for k in call.keywords if k.arg == "file"), None)
                    if fv is None:
                        continue
                    n += 1
                    ok, bad = _verbatim_doc_value(ctx, m, fv, params)
                    rep.check(rule_id, m.qname, m.loc(call), ok, "file-from-document",
                              f"the file of the location goes through `{unparse(bad)[:60]}` instead of being the document's value: findings of files "
                              "whose names that rewriting changes are keyed under a path no analysed file has" if not ok else "")
    if n < 3:
        raise AnalysisError(f"only {n} Location constructions with file= found in the SARIF / DefectDojo readers")


def rule_results_all_added(ctx, rep, rule_id="R-RESULTS-ALL-ADDED"):
    """Shared by C06 / C12."""
    rep.rule(
        rule_id,
        "in the SARIF and DefectDojo result-set readers every element of the document's result list reaches add_result: the call is not under "
        "a condition on the individual result (only on the run it belongs to: the tool detector).  A per-result filter (`suppressions` present, "
        "a level, a kind) drops findings the file reports as open -- SARIF has no such notion short of an *accepted* suppression -- and the "
        "sites they name are silently left unfixed.  (Sonar's status filter is the one documented per-result condition: R-OPEN-STATUS.)",
        min_instances=2,
    )
    n = 0
    fam = ctx.prog.all_subclasses("codemodder.result.ResultSet")
    for cq in sorted(fam):
        c = ctx.prog.classes[cq]
        if cq.startswith("core_codemods.sonar."):
            continue
        for m in c.methods.values():
            if m.absorbed or m.name not in ("from_sarif", "from_json"):
                continue
            fa = ctx.flow(m)
            adds = [x for x in walk_no_nested(m.node) if isinstance(x, ast.Call) and last_attr(x.func) == "add_result"]
            if not adds:
                continue
            pm = ctx.parents(m)
            for a in adds:
                # the loop variable of the innermost enclosing loop is the per-result element
                cur, loop = pm.get(id(a)), None
                while cur is not None and cur is not m.node:
                    if isinstance(cur, ast.For):
                        loop = cur
                        break
                    cur = pm.get(id(cur))
                if loop is None:
                    continue
                n += 1
                elem = {x.id for x in ast.walk(loop.target) if isinstance(x, ast.Name)}
                # names derived from the element inside the loop body (sarif_result = Result.from_sarif(result, ...))
                changed = True
                while changed:
                    changed = False
                    for st in ast.walk(loop):
                        if isinstance(st, ast.Assign) and names_in(st.value) & elem:
                            for t in st.targets:
                                if isinstance(t, ast.Name) and t.id not in elem:
                                    elem.add(t.id)
                                    changed = True
                # conditions established inside the loop body on the way to the call
                inner = fa.must_at(a) - fa.must_at(loop)
                cond = [txt for _pol, txt in inner if not txt.startswith(("EV:", "ITER:", "MATCH:")) and any(re.search(rf"(?<![A-Za-z0-9_]){re.escape(v)}(?![A-Za-z0-9_])", txt) for v in elem)]
                # ...and skipped iterations: a `continue` inside the loop under a condition on the element
                skips = [x for x in ast.walk(loop) if isinstance(x, ast.Continue)]
                for sk in skips:
                    st = fa.must_at(sk) - fa.must_at(loop) if fa.state_at(sk) is not None else frozenset()
                    cond += [txt for _pol, txt in st if not txt.startswith(("EV:", "ITER:", "MATCH:")) and any(re.search(rf"(?<![A-Za-z0-9_]){re.escape(v)}(?![A-Za-z0-9_])", txt) for v in elem)]
                rep.check(rule_id, m.qname, m.loc(a), not cond, "every-result-added",
                          f"add_result is reached only under `{cond[0][:60]}`: results of the file that do not satisfy it never reach any codemod" if cond else "")
    if n < 2:  # three readers today; two of them may legitimately share one loop in a common base class
        raise AnalysisError(f"only {n} result-list loops with add_result found in the SARIF / DefectDojo readers")


def rule_option_files_reach(ctx, rep):
    from ..derive import subst

    rep.rule(
        "R-OPTION-FILES-REACH",
        "every command-line option that names result files (--sarif, --sonar-issues-json, --sonar-hotspots-json, --defectdojo-findings-json) "
        "is read where the tool -> result-files map is assembled, and where two options feed the same tool key the later one adds to the list "
        "(extend / +=) instead of assigning it: an assignment replaces the files the earlier option contributed, and all their findings are lost",
        min_instances=4,
    )
    cli = ctx.prog.func("codemodder.cli.parse_args")
    dests = []
    from ..cli_model import options as cli_options

    for o in cli_options(ctx):
        for flag in o.flags:
            if flag.startswith("--") and (flag.endswith("-json") or flag == "--sarif"):
                dests.append(o.dest)
    if len(dests) < 4:
        raise AnalysisError(f"only {len(dests)} result-file options found in the CLI")
    mod = ctx.prog.module("codemodder.codemodder")
    stores: list[tuple[str, str, str, ast.AST, object]] = []  # (key, kind assign|add, source text, node, fn)
    seen_text = ""
    for fn in [f for f in ctx.prog.live_functions() if f.module is mod]:
        body_nodes: list[tuple[ast.AST, dict]] = []
        # the map is whatever local receives the result of detect_sarif_tools(...) (its name is free to change)
        r0 = ctx.resolver(fn)
        map_names = set()
        for a in walk_no_nested(fn.node):
            if isinstance(a, (ast.Assign, ast.AnnAssign)) and isinstance(a.value, ast.Call) and (r0.callee_qname(a.value) or "").endswith("detect_sarif_tools"):
                tg0 = a.targets[0] if isinstance(a, ast.Assign) else a.target
                if isinstance(tg0, ast.Name):
                    map_names.add(tg0.id)
                    seen_text += " " + unparse(a.value)
                    for nm in names_in(a.value):
                        x = r0.single_assignments().get(nm)
                        if x is not None:
                            seen_text += " " + unparse(x)
        # expand `for a, b in TABLE:` over a module-level literal table
        def expand(stmts, env):
            for st in stmts:
                if isinstance(st, ast.For):
                    rows = None
                    it = st.iter
                    if isinstance(it, ast.Name) and it.id in mod.constants and isinstance(mod.constants[it.id], (ast.Tuple, ast.List)):
                        rows = mod.constants[it.id].elts
                    elif isinstance(it, (ast.Tuple, ast.List)):
                        rows = it.elts
                    if rows is not None:
                        for row in rows:
                            e2 = dict(env)
                            if isinstance(st.target, ast.Tuple) and isinstance(row, (ast.Tuple, ast.List)) and len(row.elts) == len(st.target.elts):
                                for t, v in zip(st.target.elts, row.elts):
                                    if isinstance(t, ast.Name):
                                        e2[t.id] = v
                            elif isinstance(st.target, ast.Name):
                                e2[st.target.id] = row
                            expand(st.body, e2)
                        continue
                body_nodes.append((st, env))
                for fld in ("body", "orelse", "finalbody"):
                    sub = getattr(st, fld, None)
                    if isinstance(sub, list) and sub and isinstance(sub[0], ast.stmt) and not isinstance(st, (ast.FunctionDef, ast.ClassDef)):
                        expand(sub, env)
                if isinstance(st, ast.Try):
                    for h in st.handlers:
                        expand(h.body, env)

        expand(fn.node.body, {})
        for st, env in body_nodes:
            def S(e):
                e = subst(e, env) if env else e
                # getattr(argv, "x") -> argv.x
                class G(ast.NodeTransformer):
                    def visit_Call(self, c):
                        self.generic_visit(c)
                        if isinstance(c.func, ast.Name) and c.func.id == "getattr" and len(c.args) >= 2 and isinstance(c.args[1], ast.Constant) and isinstance(c.args[1].value, str):
                            return ast.Attribute(value=c.args[0], attr=c.args[1].value, ctx=ast.Load())
                        return c
                import copy
                return G().visit(copy.deepcopy(e))
            # walrus sources used by this very statement's test (if names := getattr(...): map[k] = list(names))
            tgt = val = None
            kind = None
            if isinstance(st, ast.Assign) and isinstance(st.targets[0], ast.Subscript):
                tgt, val, kind = st.targets[0], st.value, "assign"
            elif isinstance(st, ast.AugAssign) and isinstance(st.target, ast.Subscript):
                tgt, val, kind = st.target, st.value, "add"
            elif isinstance(st, ast.Expr) and isinstance(st.value, ast.Call) and isinstance(st.value.func, ast.Attribute) and st.value.func.attr in ("extend", "append") and st.value.args:
                recv = st.value.func.value
                if isinstance(recv, ast.Call) and isinstance(recv.func, ast.Attribute) and recv.func.attr == "setdefault" and recv.args:
                    tgt = ast.Subscript(value=recv.func.value, slice=recv.args[0], ctx=ast.Load())
                elif isinstance(recv, ast.Subscript):
                    tgt = recv
                val, kind = st.value.args[0], "add"
            if tgt is None or not (isinstance(tgt.value, ast.Name) and tgt.value.id in map_names):
                continue
            key = S(tgt.slice)
            src = unparse(S(val))
            # a walrus / local bound just before: resolve names through the function's single assignments and enclosing `if (n := ...)`
            for w in ast.walk(fn.node):
                if isinstance(w, ast.NamedExpr) and isinstance(w.target, ast.Name) and w.target.id in names_in(val):
                    src += " " + unparse(S(w.value))
            r = ctx.resolver(fn)
            for nm in list(names_in(val)):
                x = r.single_assignments().get(nm)
                if x is not None:
                    src += " " + unparse(S(x))
            stores.append((key.value if isinstance(key, ast.Constant) else unparse(key), kind, src, st, fn))
    if not stores:
        raise AnalysisError("codemodder.codemodder: no store into the tool -> result-files map found")
    all_src = seen_text + " " + " ".join(s_[2] for s_ in stores)
    for d in dests:
        rep.check("R-OPTION-FILES-REACH", "codemodder.cli.parse_args", cli.loc(), re.search(rf"\.{re.escape(d)}(?![A-Za-z0-9_])", all_src) is not None, f"option:{d}",
                  f"the files given with --{d.replace('_', '-')} never reach the tool -> result-files map: their findings are ignored")
    by_key: dict[str, list] = {}
    for key, kind, src, st, fn in stores:
        by_key.setdefault(key, []).append((kind, src, st, fn))
    for key, lst in by_key.items():
        later_assign = [x for x in lst[1:] if x[0] == "assign"]
        rep.check("R-OPTION-FILES-REACH", lst[0][3].qname, lst[0][3].loc((later_assign or lst)[0][2]), not later_assign, f"key:{key}:accumulates",
                  f"the map entry `{key}` is assigned again (`{unparse(later_assign[0][2])[:60]}`) after an earlier option already contributed files to it: "
                  "those files are dropped" if later_assign else "")


def rule_add_all_locations(ctx, rep):
    rep.rule(
        "R-ADD-ALL-LOCATIONS",
        "ResultSet.add_result files the result under (rule_id, loc.file) for every location (loop without early exit)",
        min_instances=1,
    )
    fn = ctx.prog.func("codemodder.result.ResultSet.add_result")
    loops = [n for n in walk_no_nested(fn.node) if isinstance(n, ast.For)]
    ok = False
    if loops:
        lp = loops[0]
        iter_ok = last_attr(lp.iter) == "locations"
        early = any(isinstance(x, (ast.Break, ast.Return, ast.Continue)) for x in ast.walk(lp))
        txt = unparse(lp)
        # the per-rule container may be looked up once before the loop (`by_file = self.setdefault(result.rule_id, {})`)
        keyed = "rule_id" in unparse(fn.node) and ".file" in txt and ("append" in txt or "extend" in txt)
        ok = iter_ok and not early and keyed
    rep.check("R-ADD-ALL-LOCATIONS", fn.qname, fn.loc(), ok, "loop", "add_result does not file the result under every (rule_id, location.file)")


def rule_merge_no_alias(ctx, rep):
    rep.rule(
        "R-MERGE-NO-ALIAS",
        "the ResultSet merge stores freshly built containers (the result of list_dict_or / a new list) and never mutates or adopts an "
        "operand's inner dict or list: result sets returned by the memoised from_json loaders would otherwise be changed by a later merge",
        min_instances=3,
    )
    mod = ctx.prog.module("codemodder.result")
    for q in ("codemodder.result.ResultSet.__or__", "codemodder.result.ResultSet.__ior__", "codemodder.result.list_dict_or"):
        fn = ctx.prog.functions.get(q)
        if fn is None:
            continue
        params = [p_ for p_ in fn.params() if p_ != "self"]
        problems = []
        for n in walk_no_nested(fn.node):
            # adopting an operand's value by reference: self[k] = v  where v iterates other.items()
            if isinstance(n, ast.Assign) and isinstance(n.targets[0], ast.Subscript):
                v = n.value
                fresh = isinstance(v, ast.Call) or isinstance(v, ast.BinOp) or isinstance(v, (ast.List, ast.Dict, ast.ListComp, ast.DictComp))
                if not fresh:
                    problems.append(f"`{unparse(n)[:50]}` stores an operand's container by reference")
            # in-place mutation of something reachable from an operand
            if isinstance(n, ast.Call) and isinstance(n.func, ast.Attribute) and n.func.attr in ("extend", "append", "update", "setdefault", "insert"):
                base = n.func.value
                root = base
                while isinstance(root, (ast.Attribute, ast.Subscript, ast.Call)):
                    root = root.value if not isinstance(root, ast.Call) else root.func
                # result containers created in this function are fine
                created = {t.id for a in walk_no_nested(fn.node) if isinstance(a, ast.Assign) for t in a.targets if isinstance(t, ast.Name)}
                if isinstance(root, ast.Name) and root.id not in created:
                    problems.append(f"`{unparse(n)[:50]}` mutates a container of an operand in place")
        rep.check("R-MERGE-NO-ALIAS", q, fn.loc(), not problems, "fresh-containers", "; ".join(problems))


def rule_sonar_component(ctx, rep):
    rep.rule(
        "R-SONAR-COMPONENT",
        "SonarLocation takes the file from the Sonar `component` (`<project key>:<path>`) as what follows the LAST colon: project keys "
        "may themselves contain ':' (Sonar allows it, e.g. `org:project`), so a first-colon split yields `project:path` and every "
        "finding of the file is silently lost (no such file is ever analysed)",
        min_instances=1,
    )
    fn = ctx.prog.func("core_codemods.sonar.results.SonarLocation.from_json_location")
    r = ctx.resolver(fn)
    found = 0
    for n in walk_no_nested(fn.node):
        if not (isinstance(n, ast.Subscript) and isinstance(n.value, ast.Call) and isinstance(n.value.func, ast.Attribute)):
            continue
        c = n.value
        meth = c.func.attr
        if meth not in ("split", "rsplit", "partition", "rpartition"):
            continue
        recv = r.expand(c.func.value)
        if "component" not in unparse(recv):
            continue
        sep = c.args[0] if c.args else None
        if not (isinstance(sep, ast.Constant) and sep.value == ":"):
            continue
        found += 1
        idx = n.slice.value if isinstance(n.slice, ast.Constant) else (-n.slice.operand.value if isinstance(n.slice, ast.UnaryOp) and isinstance(n.slice.op, ast.USub) and isinstance(n.slice.operand, ast.Constant) else None)
        maxsplit = c.args[1].value if len(c.args) > 1 and isinstance(c.args[1], ast.Constant) else next((k.value.value for k in c.keywords if k.arg == "maxsplit" and isinstance(k.value, ast.Constant)), None)
        if meth == "split":
            last = idx == -1 and maxsplit in (None, -1)
        elif meth == "rsplit":
            last = idx == -1
        elif meth == "rpartition":
            last = idx in (2, -1)
        else:  # partition: first colon
            last = False
        rep.check("R-SONAR-COMPONENT", fn.qname, fn.loc(n), last, "last-colon",
                  f"`{unparse(n)[:60]}` does not take what follows the last ':' of the component: with a project key containing ':' the path keeps a "
                  "piece of the key and matches no analysed file")
    if found == 0:
        raise AnalysisError("SonarLocation.from_json_location: no ':'-split of the component found (shape not understood)")


READER_MODULES = ("codemodder.sarifs", "codemodder.semgrep", "codemodder.codeql", "core_codemods.sonar.api", "core_codemods.sonar.results",
                  "core_codemods.defectdojo.api", "core_codemods.defectdojo.results", "core_codemods.semgrep.api", "codemodder.codemodder")
# the same two clauses hold for the loops that read the project's dependency manifests (one unreadable manifest must not hide the others)
MANIFEST_MODULES = ("codemodder.project_analysis.file_parsers.base_parser", "codemodder.project_analysis.python_repo_manager")


def rule_every_input_read(ctx, rep, modules=None, min_loops: int = 3):
    modules = modules or READER_MODULES
    rep.rule(
        "R-EVERY-INPUT-READ",
        "in the result readers and accumulation loops: (a) a loop that merges per-file / per-run findings into an accumulator (`acc |= x`, "
        "`acc[k].append(x)`, add_result) neither breaks nor returns from inside (one empty or odd input must not end the reading of the "
        "rest); (b) an exception handler that swallows silently (no re-raise, nothing logged at warning level or above) does not enclose a "
        "whole loop over runs / files / findings -- the error of one element would silently drop all that follow it",
        min_instances=2 * min_loops if min_loops < 3 else 3,
    )
    n = 0
    for fn in ctx.prog.live_functions():
        if fn.module.name not in modules:
            continue
        pm = ctx.parents(fn)
        for lp in walk_no_nested(fn.node):
            if not isinstance(lp, (ast.For, ast.AsyncFor)):
                continue
            merges = [x for x in ast.walk(lp) if (isinstance(x, ast.AugAssign) and isinstance(x.op, (ast.BitOr, ast.Add)))
                      or (isinstance(x, ast.Call) and last_attr(x.func) in ("append", "extend", "add_result", "update", "setdefault"))]
            if not merges:
                continue
            n += 1
            # (a) early exits that belong to this loop
            def own_exits(stmts):
                out = []
                for st in stmts:
                    if isinstance(st, (ast.Break, ast.Return)):
                        out.append(st)
                    elif isinstance(st, (ast.For, ast.While, ast.FunctionDef, ast.AsyncFunctionDef, ast.ClassDef)):
                        # a nested loop's break is its own; a return inside it still leaves the outer loop
                        out += [x for x in ast.walk(st) if isinstance(x, ast.Return)] if isinstance(st, (ast.For, ast.While)) else []
                    else:
                        for field in ("body", "orelse", "finalbody"):
                            sub = getattr(st, field, None)
                            if isinstance(sub, list) and sub and isinstance(sub[0], ast.stmt):
                                out += own_exits(sub)
                        if isinstance(st, ast.Try):
                            for h in st.handlers:
                                out += own_exits(h.body)
                        if isinstance(st, ast.Match):
                            for c in st.cases:
                                out += own_exits(c.body)
                return out

            exits = own_exits(lp.body)
            rep.check("R-EVERY-INPUT-READ", fn.qname, fn.loc(exits[0]) if exits else fn.loc(lp), not exits, f"loop over {unparse(lp.iter)[:30]}:no-early-exit",
                      f"the loop over `{unparse(lp.iter)[:40]}` that accumulates findings can be left early (`{unparse(exits[0])[:30] if exits else ''}`): "
                      "the inputs after that point are never read")
            # (b) swallowing handler around the whole loop
            cur = pm.get(id(lp))
            encl = None
            while cur is not None and cur is not fn.node:
                if isinstance(cur, ast.Try) and any(x is lp for st in cur.body for x in ast.walk(st)):
                    # silent: neither re-raised nor reported at warning level or above (a reader that gives up on a whole
                    # unparseable file and says so loudly is a stated policy, not a silent loss)
                    swallowing = [
                        h for h in cur.handlers
                        if not any(isinstance(x, ast.Raise) for st in h.body for x in ast.walk(st))
                        and not any(isinstance(x, ast.Call) and last_attr(x.func) in ("exception", "error", "warning", "warn", "critical") for st in h.body for x in ast.walk(st))
                    ]
                    if swallowing:
                        encl = (cur, swallowing[0])
                        break
                if isinstance(cur, (ast.For, ast.While)):
                    break  # a try around an *outer* loop's body is per outer element
                cur = pm.get(id(cur))
            rep.check("R-EVERY-INPUT-READ", fn.qname, fn.loc(encl[0]) if encl else fn.loc(lp), encl is None, f"loop over {unparse(lp.iter)[:30]}:handler-scope",
                      f"`except {unparse(encl[1].type) if encl and encl[1].type is not None else ''}` swallows errors around the whole loop over `{unparse(lp.iter)[:40]}`: "
                      "one element the reader cannot handle ends the loop and every later element is silently dropped")
    if n < min_loops:
        raise AnalysisError(f"only {n} accumulating loops found in the result / manifest readers")


LAZY_CALLS = {"map", "filter", "zip", "iter", "chain", "reversed", "enumerate", "islice", "from_iterable", "finditer", "iglob", "rglob", "glob", "scandir", "iterdir", "takewhile", "dropwhile"}


def rule_result_equality(ctx, rep):
    rep.rule(
        "R-RESULT-EQUALITY",
        "two-site rule: results are compared by all of their fields (the dataclass equality) wherever the readers or the merge de-duplicate by "
        "value.  While no class of the Result / Location hierarchy defines `__eq__` / `__hash__` of its own, a `dict.fromkeys(results)` / "
        "`set(results)` can only drop exact copies; once one does (equality by finding id, by rule, ...) every value-based de-duplication in the "
        "result path merges *different* findings that agree on that key (ids are unique per export, not across exports) and one of them never "
        "reaches its codemod",
        min_instances=1,
    )
    roots = ("codemodder.result.Result", "codemodder.result.Location")
    own_eq = []
    for cq, c in ctx.prog.classes.items():
        if any(rt in ctx.prog.mro(cq) for rt in roots):
            for m in ("__eq__", "__hash__"):
                if m in c.methods:
                    own_eq.append(c.methods[m])
    dedups = []
    for fn in ctx.prog.live_functions():
        # the modules that build, merge and hand out Result lists (run()'s own sets are over failed files / changed paths, not results)
        if fn.module.name == "codemodder.codemodder" or fn.module.name not in READER_MODULES + ("codemodder.result", "core_codemods.sonar.results", "core_codemods.defectdojo.results", "codemodder.codemods.base_codemod"):
            continue
        for c in walk_no_nested(fn.node):
            if isinstance(c, ast.Call) and ((call_name(c) or "") in ("dict.fromkeys", "set", "frozenset", "collections.OrderedDict.fromkeys", "OrderedDict.fromkeys")) and c.args:
                dedups.append((fn, c))
    if not own_eq:
        rep.instance("R-RESULT-EQUALITY", "codemodder.result.Result", ctx.prog.cls("codemodder.result.Result").loc(), True,
                     detail=f"no class of the Result / Location hierarchy defines its own equality ({len(dedups)} value-based de-duplications in the result path can only drop exact copies)")
        return
    if not dedups:
        rep.instance("R-RESULT-EQUALITY", own_eq[0].qname, own_eq[0].loc(), True, detail="own equality defined, but nothing in the result path de-duplicates by value")
        return
    for fn, c in dedups:
        rep.check("R-RESULT-EQUALITY", fn.qname, fn.loc(c), False, f"dedup:{unparse(c)[:40]}",
                  f"`{unparse(c)[:60]}` de-duplicates by value while {own_eq[0].qname} makes results equal on part of their fields: different findings "
                  "that agree on it collapse into one")


def rule_one_shot_iter(ctx, rep, rule_id="R-ONE-SHOT-ITER"):
    rep.rule(
        rule_id,
        "a name bound once to a one-shot iterator (generator expression, map/filter/zip/chain/finditer/rglob ...) is consumed at most once on "
        "any path: a second consumer (the loop that files the findings, after a logging helper has walked the generator) sees nothing, "
        "silently.  Uses in mutually exclusive branches count once",
        min_instances=3,
    )
    n = 0
    for fn in ctx.prog.live_functions():
        binds: dict[str, list[ast.Assign]] = {}
        for a in walk_no_nested(fn.node):
            if isinstance(a, ast.Assign) and len(a.targets) == 1 and isinstance(a.targets[0], ast.Name):
                binds.setdefault(a.targets[0].id, []).append(a)
            elif isinstance(a, (ast.AugAssign, ast.AnnAssign, ast.NamedExpr, ast.For)) and isinstance(getattr(a, "target", None), ast.Name):
                binds.setdefault(a.target.id, []).append(a)
        pm = None
        for name, defs in binds.items():
            if len(defs) != 1 or not isinstance(defs[0], ast.Assign):
                continue
            v = defs[0].value
            lazy = isinstance(v, ast.GeneratorExp) or (isinstance(v, ast.Call) and (last_attr(v.func) or "") in LAZY_CALLS)
            if not lazy:
                continue
            n += 1
            uses = [x for x in walk_no_nested(fn.node) if isinstance(x, ast.Name) and x.id == name and isinstance(x.ctx, ast.Load)]
            bad = None
            if len(uses) >= 2:
                if pm is None:
                    pm = {}
                    for p_ in ast.walk(fn.node):
                        for fld in ("body", "orelse", "finalbody"):
                            blk = getattr(p_, fld, None)
                            for c in (blk if isinstance(blk, list) else []):
                                pm[id(c)] = (p_, fld)
                        for c in ast.iter_child_nodes(p_):
                            pm.setdefault(id(c), (p_, "expr"))

                def branches(x):
                    out = {}
                    cur = x
                    while id(cur) in pm:
                        par, fld = pm[id(cur)]
                        if isinstance(par, ast.If) and fld in ("body", "orelse"):
                            out[id(par)] = fld
                        cur = par
                    return out

                for i, a_ in enumerate(uses):
                    for b_ in uses[i + 1:]:
                        ba, bb = branches(a_), branches(b_)
                        if any(k in bb and bb[k] != f for k, f in ba.items()):
                            continue
                        bad = (a_, b_)
            rep.check(rule_id, fn.qname, fn.loc(bad[1]) if bad else fn.loc(defs[0]), bad is None, f"iter:{name}",
                      f"`{name}` is a one-shot iterator (`{unparse(v)[:50]}`) and is consumed at line {fn.loc(bad[0]).split(':')[-1]} and again here: the second consumer gets nothing" if bad else "")
    if n < 3:
        raise AnalysisError(f"only {n} names bound to one-shot iterators found")


INDEX_READER_MODULES = ("codemodder.result", "codemodder.sarifs", "codemodder.semgrep", "codemodder.codemods.semgrep", "codemodder.codeql", "codemodder.codemods.codeql",
                  "core_codemods.sonar.results", "core_codemods.defectdojo.results", "core_codemods.semgrep.api")


def rule_index_zero(ctx, rep, rule_id="R-INDEX-ZERO"):
    rep.rule(
        rule_id,
        "in the result readers a SARIF *index* (`toolComponent.index`, `rule.index`, `ruleIndex`: zero-based, 0 is the first extension / rule) is "
        "never tested by truthiness (`if idx`, `idx or d`, `a if idx else b`): absence is tested with `is None` / `in`.  `if tool_index` sends a "
        "reference to extension 0 to the driver's rules, and the finding is filed under a foreign rule id",
        min_instances=2,
    )
    n = 0
    for fn in ctx.prog.live_functions():
        if not fn.module.name.startswith(INDEX_READER_MODULES):
            continue
        idx_names = set()
        idx_exprs = []
        for a in walk_no_nested(fn.node):
            v = getattr(a, "value", None) if isinstance(a, (ast.Assign, ast.AnnAssign, ast.NamedExpr)) else None
            if v is None:
                continue
            keyed = any(isinstance(c, ast.Constant) and isinstance(c.value, str) and c.value.lower().endswith("index") for c in ast.walk(v)
                        if isinstance(c, ast.Constant))
            last_key = None
            e = v
            while isinstance(e, ast.Call) and isinstance(e.func, ast.Attribute) and e.func.attr == "get" and e.args:
                last_key = e.args[0]
                break
            if isinstance(v, ast.Subscript):
                last_key = v.slice
            is_index = isinstance(last_key, ast.Constant) and isinstance(last_key.value, str) and last_key.value.lower().endswith("index")
            if is_index and keyed:
                tg = a.targets if isinstance(a, ast.Assign) else [a.target]
                for t in tg:
                    if isinstance(t, ast.Name):
                        idx_names.add(t.id)
        if not idx_names:
            continue
        for name in sorted(idx_names):
            n += 1
            bad = None
            for x in walk_no_nested(fn.node):
                tests = []
                if isinstance(x, (ast.If, ast.While, ast.IfExp)):
                    tests.append(x.test)
                elif isinstance(x, ast.BoolOp):
                    tests += x.values[:-1] if isinstance(x.op, ast.Or) else x.values
                elif isinstance(x, ast.UnaryOp) and isinstance(x.op, ast.Not):
                    tests.append(x.operand)
                elif isinstance(x, ast.Assert):
                    tests.append(x.test)
                for t in tests:
                    if isinstance(t, ast.Name) and t.id == name:
                        bad = x
                    elif isinstance(t, ast.BoolOp):
                        for v_ in t.values:
                            if isinstance(v_, ast.Name) and v_.id == name:
                                bad = x
            rep.check(rule_id, fn.qname, fn.loc(bad) if bad is not None else fn.loc(), bad is None, f"index:{name}",
                      f"`{unparse(bad)[:70].splitlines()[0] if bad is not None else ''}` decides by the truthiness of the zero-based index `{name}`: index 0 is treated as missing")
    if n < 2:
        raise AnalysisError(f"only {n} SARIF index lookups found in the readers (2 confirmed by hand in SarifResult.extract_rule_id)")


def check(ctx, rep):
    rep.explanation = (
        "The operator each accumulation loop actually dispatches to is resolved through the ResultSet MRO (including the "
        "external `dict` base); the merge bodies are inspected for partial lookups over key unions; the four readers' "
        "constructor calls and Location constructions are compared field by field."
    )
    rule_merge_op(ctx, rep)
    rule_total_lookup(ctx, rep)
    rule_or_precedence(ctx, rep)
    rule_reader_shape(ctx, rep)
    rule_location_file_verbatim(ctx, rep)
    rule_results_all_added(ctx, rep)
    rule_option_files_reach(ctx, rep)
    rule_add_all_locations(ctx, rep)
    rule_merge_no_alias(ctx, rep)
    rule_sonar_component(ctx, rep)
    rule_every_input_read(ctx, rep)
    rule_one_shot_iter(ctx, rep)
    rule_result_equality(ctx, rep)
    # a finding whose file the project listing leaves out by its name or location is read into the result set and never reaches its codemod
    from .c05 import rule_enum_siblings

    rule_enum_siblings(ctx, rep)
    rule_index_zero(ctx, rep)
    from .c09 import rule_finding_owns_rule

    # a finding's own identity (rule id, name, url) reaches the report unaltered by other findings / codemods
    rule_finding_owns_rule(ctx, rep)
    rep.not_covered += ["equality of parsed findings with a reference extraction for arbitrary documents", "SARIF tool detection per run"]
