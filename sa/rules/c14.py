"""C14 — adding a dependency keeps the manifest valid, complete and duplicate-free.

R-FIRST-WINS     in process_dependencies the branch that records a changeset leaves the store loop (at most one manifest updated)
R-FILTERED-ADD   add_to_file is only called with the non-empty result of self.add(); add() tests has_requirement and registers the new one
R-FAILED-NOTICE  add_description has both branches (added notice / failed notice) keyed by the codemod id
+ shared: R-NEWLINE-LOSSLESS (C03), R-DRYRUN-THREAD (C04), R-ENUM-SIBLINGS (C05), manifest enumeration order (C11)
"""
from __future__ import annotations

import ast

from ..flow import FlowAnalysis, fact_exprs, has_event
from ..model import AnalysisError, call_name, dotted_name, last_attr, names_in, unparse, walk_no_nested

CTX = "codemodder.context.CodemodExecutionContext"
WRITER = "codemodder.dependency_management.base_dependency_writer.DependencyWriter"


def rule_first_wins(ctx, rep):
    rep.rule(
        "R-FIRST-WINS",
        "in process_dependencies every path that records a dependency changeset leaves the loop over package stores before the next store",
        min_instances=1,
    )
    fn = ctx.prog.func(CTX + ".process_dependencies")
    loops = [n for n in walk_no_nested(fn.node) if isinstance(n, ast.For) and "store" in unparse(n.iter)]
    if not loops:
        raise AnalysisError("process_dependencies no longer loops over the package stores")
    lp = loops[0]

    def ev(call):
        return "EV:recorded" if last_attr(call.func) == "add_changesets" else None

    fa = FlowAnalysis(lp, ev, body=lp.body)
    # an iteration that recorded must not fall through to the next iteration: normal end / continue with EV:recorded possible is a violation
    ends = [e.state for e in fa.exits if e.kind == "end"] + [fa.state_at(s) for s in ast.walk(lp) if isinstance(s, ast.Continue) and fa.state_at(s) is not None]
    leaks = [s for s in ends if "EV:recorded" in s.may]
    n_rec = sum(1 for c in walk_no_nested(lp) if isinstance(c, ast.Call) and ev(c))
    rep.check("R-FIRST-WINS", fn.qname, fn.loc(lp), n_rec >= 1 and not leaks, "break-after-record",
              "after a manifest was updated the loop can continue with the next package store: the requirement is added to several manifests")
    # the recorded changeset comes from DependencyManager.write of this store and is tested for None
    calls = [c for c in walk_no_nested(lp) if isinstance(c, ast.Call) and last_attr(c.func) == "write"]
    rep.check("R-FIRST-WINS", fn.qname, fn.loc(calls[0]) if calls else fn.loc(lp), len(calls) == 1, "one-write-per-store", "each store is not written exactly once per iteration")


def rule_filtered_add(ctx, rep):
    rep.rule(
        "R-FILTERED-ADD",
        "DependencyWriter.write passes add_to_file only the non-empty result of self.add(dependencies); add() appends a dependency only "
        "under `not has_requirement` and registers it in the store (so a second codemod or run does not add it again)",
        min_instances=3,
    )
    w = ctx.prog.func(WRITER + ".write")
    fa = ctx.flow(w)
    r = ctx.resolver(w)
    calls = [n for n in walk_no_nested(w.node) if isinstance(n, ast.Call) and last_attr(n.func) == "add_to_file"]
    ok = bool(calls)
    for c in calls:
        a = c.args[0] if c.args else None
        v = r.expand(a) if a is not None else None
        from_add = isinstance(v, ast.Call) and last_attr(v.func) == "add"
        nonempty = a is not None and (True, unparse(a)) in fa.must_at(c)
        ok = ok and from_add and nonempty
    rep.check("R-FILTERED-ADD", w.qname, w.loc(), ok, "write->add_to_file", "add_to_file is not called with the non-empty result of self.add(...)")
    add = ctx.prog.func(WRITER + ".add")
    fa2 = ctx.flow(add)
    appends = [n for n in walk_no_nested(add.node) if isinstance(n, ast.Call) and last_attr(n.func) == "append"]
    ok = bool(appends) and all(
        any((not pol) and isinstance(e, ast.Call) and last_attr(e.func) == "has_requirement" for pol, e in fact_exprs(fa2.must_at(c))) for c in appends
    )
    rep.check("R-FILTERED-ADD", add.qname, add.loc(), ok, "append-under-not-has_requirement", "add() can append a dependency that the store already declares (duplicate requirement)")
    regs = [n for n in walk_no_nested(add.node) if isinstance(n, ast.Call) and last_attr(n.func) == "add" and "dependencies" in unparse(n.func)]
    ok = bool(regs) and all(
        any((not pol) and isinstance(e, ast.Call) and last_attr(e.func) == "has_requirement" for pol, e in fact_exprs(fa2.must_at(c))) for c in regs
    )
    rep.check("R-FILTERED-ADD", add.qname, add.loc(), ok, "registers-in-store", "add() does not register the new requirement in the package store (the next codemod of the run adds it again)")


def rule_failed_notice(ctx, rep):
    rep.rule(
        "R-FAILED-NOTICE",
        "add_description appends the dependency notice when the codemod's dependency update is recorded and the failed notice "
        "otherwise, both looked up with the codemod's id",
        min_instances=2,
    )
    from ..logic import consistent_assignments_state

    fn = ctx.prog.func(CTX + ".add_description")
    fa = ctx.flow(fn)
    r = ctx.resolver(fn)
    pp = fn.positional_params()
    P = pp[1] if len(pp) > 1 else "codemod"

    def keyed_lookup(e, attr):
        """self.<attr>.get(<codemod>.id[, default]) / self.<attr>[<codemod>.id], possibly wrapped in list()/set()/sorted()"""
        while isinstance(e, ast.Call) and isinstance(e.func, ast.Name) and e.func.id in ("list", "tuple", "set", "sorted") and len(e.args) == 1:
            e = e.args[0]
        key = None
        if isinstance(e, ast.Call) and isinstance(e.func, ast.Attribute) and e.func.attr == "get" and e.args:
            recv, key = e.func.value, e.args[0]
        elif isinstance(e, ast.Subscript):
            recv, key = e.value, e.slice
        else:
            return False
        return isinstance(recv, ast.Attribute) and recv.attr == attr and unparse(recv.value) == "self" and unparse(key) == f"{P}.id"

    def atom(e):
        if isinstance(e, ast.Name):
            x = r.expand(e)
            if x is not e and not isinstance(x, ast.Name):
                return x
        if isinstance(e, ast.NamedExpr):
            return e.value
        if keyed_lookup(e, "dependencies"):
            return "DEPS"
        if keyed_lookup(e, "_dependency_update_by_codemod"):
            return "UPDATED"
        if isinstance(e, ast.Compare) and len(e.ops) == 1 and isinstance(e.comparators[0], ast.Constant) and e.comparators[0].value is None:
            inner = atom(e.left)
            if isinstance(inner, ast.AST):
                inner = atom(inner)
            if isinstance(inner, str):
                return ("!" + inner) if isinstance(e.ops[0], ast.Is) else inner
        return None

    names = {"build_dependency_notification": True, "build_failed_dependency_notification": False}
    for cname, pol_want in names.items():
        calls = [n for n in walk_no_nested(fn.node) if isinstance(n, ast.Call) and last_attr(n.func) == cname]
        ok = bool(calls)
        for c in calls:
            envs = consistent_assignments_state(fa.state_at(c), atom, ["DEPS", "UPDATED"])
            ok = ok and envs == [{"DEPS": True, "UPDATED": pol_want}]
        rep.check("R-FAILED-NOTICE", fn.qname, fn.loc(calls[0]) if calls else fn.loc(), ok, cname,
                  f"{cname} is not issued under the {'recorded' if pol_want else 'missing'} dependency update of this codemod id")
    # completeness: whenever the codemod has dependencies, one of the two notices is issued on every path -- the plain notice iff the
    # update was recorded, the failed notice otherwise (a further condition that suppresses the failed notice hides a dependency that
    # was neither added nor announced)
    from ..flow import FlowAnalysis
    from ..logic import consistent_assignments

    def ev(call):
        la = last_attr(call.func)
        return "EV:notice" if la == "build_dependency_notification" else ("EV:failed-notice" if la == "build_failed_dependency_notification" else None)

    fa2 = FlowAnalysis(fn.node, ev)
    silent = []
    for ex in fa2.exits:
        if ex.kind == "raise":
            continue
        for must, may in ex.state.parts:
            for env in consistent_assignments(must, atom, ["DEPS", "UPDATED"]):
                if env["DEPS"] and not env["UPDATED"] and (True, "EV:failed-notice") not in must:
                    silent.append((ex, "failed notice missing although the update was not recorded"))
                if env["DEPS"] and env["UPDATED"] and (True, "EV:notice") not in must:
                    silent.append((ex, "dependency notice missing although the update was recorded"))
    rep.check("R-FAILED-NOTICE", fn.qname, fn.loc(silent[0][0].node) if silent and silent[0][0].node is not None else fn.loc(), not silent, "every-dependency-announced",
              "add_description can finish for a codemod with dependencies without either notice: " + (silent[0][1] if silent else ""))
    pd = ctx.prog.func(CTX + ".process_dependencies")
    stores_none = any(
        isinstance(n, ast.Assign) and isinstance(n.targets[0], ast.Subscript) and "_dependency_update_by_codemod" in unparse(n.targets[0]) and isinstance(n.value, ast.Constant) and n.value.value is None
        for n in walk_no_nested(pd.node)
    )
    rep.check("R-FAILED-NOTICE", pd.qname, pd.loc(), stores_none, "records-no-store", "process_dependencies does not record `None` when no manifest exists")


def rule_store_coherent(ctx, rep):
    rep.rule(
        "R-STORE-COHERENT",
        "PackageStore.has_requirement decides from the very container DependencyWriter.add registers new requirements in "
        "(self.dependencies), with no memoised copy in between — otherwise the second codemod of a run (or a second dependency with the "
        "same name) is added again",
        min_instances=2,
    )
    from ..prov import is_cached

    hr = ctx.prog.func("codemodder.project_analysis.file_parsers.package_store.PackageStore.has_requirement")
    attrs = {n.attr for n in walk_no_nested(hr.node) if isinstance(n, ast.Attribute) and isinstance(n.value, ast.Name) and n.value.id == "self"}
    cached_reads = []
    cls = hr.cls
    for a in attrs:
        m = cls.methods.get(a)
        if m is not None and is_cached(m):
            cached_reads.append(a)
    ok = "dependencies" in attrs and not cached_reads and not is_cached(hr)
    rep.check("R-STORE-COHERENT", hr.qname, hr.loc(), ok, "reads-live-container",
              f"has_requirement answers from {sorted(attrs)} (memoised: {cached_reads or is_cached(hr)}) rather than directly from self.dependencies")
    add = ctx.prog.func(WRITER + ".add")
    regs = [n for n in walk_no_nested(add.node) if isinstance(n, ast.Call) and last_attr(n.func) in ("add", "append") and unparse(n.func.value).endswith("dependency_store.dependencies")]
    rep.check("R-STORE-COHERENT", add.qname, add.loc(), bool(regs), "registers-in-same-container",
              "DependencyWriter.add does not register the new requirement in dependency_store.dependencies (the container has_requirement reads)")
    # name comparison is by requirement name (any version)
    t = unparse(hr.node)
    rep.check("R-STORE-COHERENT", hr.qname, hr.loc(), ".name" in t, "by-name", "has_requirement no longer compares requirement names (a package already declared in another version would be added again)")


MANIFEST_PAIRS = {
    "setup.cfg": ("codemodder.project_analysis.file_parsers.setup_cfg_file_parser", "codemodder.dependency_management.setupcfg_writer"),
    "setup.py": ("codemodder.project_analysis.file_parsers.setup_py_file_parser", "codemodder.dependency_management.setup_py_writer"),
    "pyproject.toml": ("codemodder.project_analysis.file_parsers.pyproject_toml_file_parser", "codemodder.dependency_management.pyproject_writer"),
    "requirements.txt": ("codemodder.project_analysis.file_parsers.requirements_txt_file_parser", "codemodder.dependency_management.requirements_txt_writer"),
}
PARSER_LIBS = ("configparser.ConfigParser", "configparser.RawConfigParser", "configparser.SafeConfigParser", "tomlkit.parse", "tomlkit.load", "tomlkit.loads",
               "toml.load", "toml.loads", "tomllib.load", "tomllib.loads", "libcst.parse_module")
NAME_RESOLVERS = ("resolve_expression", "resolve_list_literal", "resolve_dict", "resolve_keyword_args", "find_assignments", "find_single_assignment")


def rule_manifest_siblings(ctx, rep):
    rep.rule(
        "R-MANIFEST-SIBLINGS",
        "for each kind of manifest the parser (which decides what is `already declared` and whether the file is a usable store at all) and the "
        "writer (which edits it) read the file the same way: (a) a parsing-library constructor / loader used by both is given the same options "
        "(a lenient parser next to a strict writer accepts a file as a store that the writer then fails on, with an exception nothing catches); "
        "(b) the writer follows names to the requirement list (resolve_expression & co) only if the parser does -- otherwise it edits lists "
        "whose entries has_requirement cannot see, and declared packages are added again",
        min_instances=4,
    )
    n = 0
    for kind, (pq, wq) in MANIFEST_PAIRS.items():
        pm, wm = ctx.prog.module(pq), ctx.prog.module(wq)

        def lib_calls(mod):
            out: dict[str, list[tuple[ast.Call, object]]] = {}
            for fn in [f for f in ctx.prog.live_functions() if f.module is mod]:
                r = ctx.resolver(fn)
                for c in walk_no_nested(fn.node):
                    if isinstance(c, ast.Call):
                        q = r.callee_qname(c) or ""
                        if q in PARSER_LIBS:
                            out.setdefault(q, []).append((c, fn))
            return out

        def opts(c: ast.Call):
            return tuple(sorted((k.arg or "**", unparse(k.value)) for k in c.keywords if k.arg not in ("encoding",)))

        pc, wc = lib_calls(pm), lib_calls(wm)
        for q in sorted(set(pc) & set(wc)):
            n += 1
            po = {opts(c) for c, _ in pc[q]}
            wo = {opts(c) for c, _ in wc[q]}
            c0, f0 = pc[q][0]
            rep.check("R-MANIFEST-SIBLINGS", f0.qname, f0.loc(c0), po == wo, f"{kind}:{q}:same-options",
                      f"{kind}: the parser calls {q} with {sorted(po)} but the writer with {sorted(wo)}: the two accept different files")

        def resolver_calls(mod):
            out = []
            for fn in [f for f in ctx.prog.live_functions() if f.module is mod]:
                for c in walk_no_nested(fn.node):
                    if isinstance(c, ast.Call) and isinstance(c.func, ast.Attribute) and c.func.attr in NAME_RESOLVERS:
                        out.append((c, fn))
            return out

        wres, pres = resolver_calls(wm), resolver_calls(pm)
        n += 1
        ok = not wres or bool(pres)
        rep.check("R-MANIFEST-SIBLINGS", wm.name, (wres[0][1].loc(wres[0][0]) if wres else f"src/{wm.relpath}:1"), ok, f"{kind}:name-resolution-agrees",
                  f"{kind}: the writer follows names (`{unparse(wres[0][0])[:50]}`) to find the requirement list, the parser reads only what is written "
                  "in place: entries of a named list are invisible to has_requirement and are added again" if not ok else "")
    if n < 4:
        raise AnalysisError(f"only {n} parser/writer sibling obligations found")


def rule_manifest_no_overwrite(ctx, rep):
    rep.rule(
        "R-MANIFEST-NO-OVERWRITE",
        "the writers never assign over an entry of the parsed manifest: in the dependency-management modules a store "
        "`<table>[<computed key>] = value` (the key being a requirement's name, not a constant) is dominated by a `not in` test of that key. "
        "tomlkit's `Table.append` refuses an existing key (KeyAlreadyPresent), an item assignment replaces it silently -- an existing "
        "`name = \"^3.1\"` or `{git = ...}` declaration would be rewritten to the codemodder pin",
        min_instances=1,
    )
    n = 0
    for fn in ctx.prog.live_functions():
        if not fn.module.name.startswith("codemodder.dependency_management."):
            continue
        fa = None
        for a in walk_no_nested(fn.node):
            tgts = a.targets if isinstance(a, ast.Assign) else ([a.target] if isinstance(a, (ast.AugAssign, ast.AnnAssign)) and getattr(a, "value", None) is not None else [])
            for t in tgts:
                if not isinstance(t, ast.Subscript) or isinstance(t.slice, (ast.Constant, ast.Slice)):
                    continue
                # the rule speaks of stores keyed by a requirement's *name* (a value of the run, not of the document): the key expression,
                # after expanding once-bound locals, reads a `.name` attribute.  Positional stores into line buffers, caches keyed by path, ...
                # are not its subject.
                kx = ctx.resolver(fn).expand(t.slice) if isinstance(t.slice, ast.Name) else t.slice
                if not any(isinstance(x, ast.Attribute) and x.attr == "name" for x in ast.walk(kx)):
                    continue
                n += 1
                fa = fa or ctx.flow(fn)
                key = unparse(t.slice)
                guarded = any((not pol and txt.startswith(f"{key} in ")) or (pol and txt.startswith(f"{key} not in ")) for pol, txt in fa.must_at(a))
                rep.check("R-MANIFEST-NO-OVERWRITE", fn.qname, fn.loc(a), guarded, f"store[{key[:30]}]",
                          f"`{unparse(a)[:70]}` assigns under a computed key without knowing that the key is absent: a requirement the manifest already declares "
                          "(in whatever form) is silently replaced")
    if n == 0:
        rep.instance("R-MANIFEST-NO-OVERWRITE", "codemodder.dependency_management", "src/codemodder/dependency_management/pyproject_writer.py:1", True,
                     detail="no computed-key store into a parsed manifest (entries are appended)")


DECODE_CATCHERS = {"Exception", "BaseException", "ValueError", "UnicodeError", "UnicodeDecodeError"}


def rule_decode_handled(ctx, rep):
    rep.rule(
        "R-DECODE-HANDLED",
        "contradiction rule over the manifest code (dependency writers and file parsers): where a `try` encloses a *text-mode read* of a "
        "manifest and has handlers at all -- the author holds that reading it can fail, and answers by giving the manifest up -- one of the "
        "handlers also catches a decoding error (Exception / ValueError / UnicodeError / UnicodeDecodeError).  UnicodeDecodeError is not an "
        "OSError: a handler list narrowed to OSError lets a UTF-16 requirements.txt end the whole run with a traceback (status 1, no report) "
        "where `no manifest can be updated` must leave the run successful",
        min_instances=1,
    )

    def text_read(call: ast.Call) -> bool:
        la = last_attr(call.func) or ""
        if la == "read_text":
            return True
        if (call_name(call) or "") in ("open", "io.open", "codecs.open") or la == "open":
            mode = next((k.value for k in call.keywords if k.arg == "mode"), call.args[1] if len(call.args) > 1 and (call_name(call) or "").endswith("open") and not isinstance(call.func, ast.Attribute) else (call.args[0] if isinstance(call.func, ast.Attribute) and la == "open" and call.args else None))
            m = mode.value if isinstance(mode, ast.Constant) and isinstance(mode.value, str) else "r"
            return "b" not in m and not any(ch in m for ch in "wax")
        return False

    n = 0
    for fn in ctx.prog.live_functions():
        if not fn.module.name.startswith(("codemodder.dependency_management.", "codemodder.project_analysis.")):
            continue
        for t in walk_no_nested(fn.node):
            if not isinstance(t, ast.Try) or not t.handlers:
                continue
            reads = [c for st in t.body for c in ast.walk(st) if isinstance(c, ast.Call) and text_read(c)]
            if not reads:
                continue
            n += 1
            caught = set()
            broad = False
            for h in t.handlers:
                if h.type is None:
                    broad = True
                for x in ([h.type] if h.type is not None and not isinstance(h.type, ast.Tuple) else (h.type.elts if h.type is not None else [])):
                    caught.add((dotted_name(x) or "").split(".")[-1])
            ok = broad or bool(caught & DECODE_CATCHERS)
            rep.check("R-DECODE-HANDLED", fn.qname, fn.loc(t), ok, "read-under-try",
                      f"`{unparse(reads[0])[:50]}` decodes the manifest inside a try that only catches {sorted(caught)}: a file in another encoding raises "
                      "UnicodeDecodeError (a ValueError, not an OSError) straight through the run")
    if n == 0:
        raise AnalysisError("no guarded text-mode manifest read found in the dependency writers / file parsers")


def rule_insert_after_terminated(ctx, rep, rule_id="R-INSERT-AFTER-TERMINATED"):
    """Shared by C03 / C14."""
    rep.rule(
        rule_id,
        "sibling rule over the line-surgery writers (requirements.txt, setup.cfg): where new lines are placed *after* existing lines of the "
        "manifest (`lines + new`, `lines[:k + 1] + new + lines[k + 1:]`: nothing is dropped between the two slices, so the preceding line may "
        "be the last line of the file), the line before the insertion is first given a line ending if it has none "
        "(`if not head[-1].endswith(\"\\n\"): head[-1] += eol`).  A manifest without a final newline otherwise gets `flask    new-package` on "
        "one line: an invalid requirement, the old one lost, and a diff that shows a separate added line",
        min_instances=1,
    )
    n = 0
    for fn in ctx.prog.live_functions():
        if not fn.module.name.startswith("codemodder.dependency_management."):
            continue
        r = ctx.resolver(fn)

        def root_list(e):
            """(list name, upper bound text or None) when e is `X`, `X[:u]` or a once-bound local holding one of them"""
            e = r.expand(e) if isinstance(e, ast.Name) and e.id in r.single_assignments() and isinstance(r.single_assignments()[e.id], (ast.Subscript, ast.Name)) else e
            if isinstance(e, ast.Name):
                return e.id, None
            if isinstance(e, ast.Subscript) and isinstance(e.slice, ast.Slice) and e.slice.lower is None and isinstance(e.value, ast.Name):
                return e.value.id, unparse(e.slice.upper) if e.slice.upper is not None else None
            return None

        def tail_of(e, name):
            """lower bound text when e is `name[l:]`"""
            if isinstance(e, ast.Subscript) and isinstance(e.slice, ast.Slice) and e.slice.upper is None and isinstance(e.value, ast.Name) and e.value.id == name and e.slice.lower is not None:
                return unparse(e.slice.lower)
            return None

        line_lists = {a.targets[0].id for a in walk_no_nested(fn.node) if isinstance(a, ast.Assign) and len(a.targets) == 1 and isinstance(a.targets[0], ast.Name)
                      and isinstance(a.value, ast.Call) and (last_attr(a.value.func) or "") in ("readlines", "copy", "splitlines")}
        line_lists |= {p_ for p_ in fn.params() if "lines" in p_}
        for b in walk_no_nested(fn.node):
            if not (isinstance(b, ast.BinOp) and isinstance(b.op, ast.Add)):
                continue
            par = ctx.parents(fn).get(id(b))
            if isinstance(par, ast.BinOp) and isinstance(par.op, ast.Add) and par.left is b:
                continue  # not the top of the chain
            ops = []
            cur = b
            while isinstance(cur, ast.BinOp) and isinstance(cur.op, ast.Add):
                ops.insert(0, cur.right)
                cur = cur.left
            ops.insert(0, cur)
            head = root_list(ops[0])
            if head is None or len(ops) < 2:
                continue
            name, upper = head
            local = ops[0].id if isinstance(ops[0], ast.Name) else name  # the name the head is known by in this function
            src = name if name in line_lists else None
            if src is None:
                # a local bound to a slice / copy of a line list
                v = r.single_assignments().get(name)
                inner = root_list(v) if v is not None else None
                if inner is not None and inner[0] in line_lists:
                    src, upper = inner[0], inner[1]
            if src is None:
                continue
            tail = tail_of(ops[-1], src) if len(ops) >= 3 else None
            if len(ops) >= 3 and tail is None:
                continue
            if tail is not None and tail != upper:
                continue  # `X[:k] + new + X[k + 1:]` replaces line k: the line before it is followed by another line, hence terminated
            n += 1
            # the ensure: `if not <elem>.endswith("\n")` whose body extends that element
            ensured = False
            for t in walk_no_nested(fn.node):
                if isinstance(t, ast.If) and isinstance(t.test, ast.UnaryOp) and isinstance(t.test.op, ast.Not) and isinstance(t.test.operand, ast.Call) \
                        and last_attr(t.test.operand.func) == "endswith" and t.test.operand.args and isinstance(t.test.operand.args[0], ast.Constant) and t.test.operand.args[0].value == "\n":
                    subj = t.test.operand.func.value
                    if isinstance(subj, ast.Subscript) and isinstance(subj.value, ast.Name) and subj.value.id in (name, src, local):
                        if any(isinstance(x, (ast.AugAssign, ast.Assign)) and unparse(x.target if isinstance(x, ast.AugAssign) else x.targets[0]) == unparse(subj) for st in t.body for x in ast.walk(st)):
                            ensured = True
            rep.check(rule_id, fn.qname, fn.loc(b), ensured, f"insert-after:{src}",
                      f"`{unparse(b)[:70]}` places new lines after existing lines of `{src}` without making sure the line before them ends with a newline: "
                      "in a manifest without a final newline the new requirement is glued to the last one")
    if n < 1:
        raise AnalysisError(f"only {n} line insertions found in the line-surgery writers (requirements.txt, setup.cfg)")


def rule_requirement_constants(ctx, rep):
    from .c01 import QUOTES

    rep.rule("R-REQ-CONSTANTS", "the requirement strings the writers interpolate into manifests (codemodder/dependency.py) contain no quote characters or newlines (setup.py wraps them in a fixed double quote)", 1)
    dep = ctx.prog.module("codemodder.dependency")
    bad, n = [], 0
    for node in ast.walk(dep.tree):
        if isinstance(node, ast.Call) and last_attr(node.func) == "Requirement" and node.args and isinstance(node.args[0], ast.Constant):
            n += 1
            if any(ch in str(node.args[0].value) for ch in QUOTES + ("\n",)):
                bad.append(node.args[0].value)
    rep.check("R-REQ-CONSTANTS", "codemodder.dependency", "src/codemodder/dependency.py:1", not bad and n >= 3, "no-quotes",
              f"requirement constants {bad} contain quote characters: SetupPyWriter emits them inside a fixed \" and produces an unparseable setup.py", count=n)


def rule_shared(ctx, rep):
    from ..report import Report
    from . import c03, c04, c05, c11

    sub = Report(rep.prop, rep.tier, quiet=True)
    c03.rule_newline(ctx, sub)
    c03.rule_strict_decode(ctx, sub)
    c03.rule_diff_write(ctx, sub)
    c04.rule_thread(ctx, sub)
    c05.rule_enum_siblings(ctx, sub)
    for i in sub.instances:
        if "dependency_management" in i["construct"] or "file_parsers" in i["construct"] or "process_dependencies" in i["construct"]:
            rep.instances.append(i)
            rr = rep.rules_run.setdefault(i["rule"], {"statement": sub.rules_run[i["rule"]]["statement"], "instances": 0, "violations": 0})
            rr["instances"] += 1
    for f in sub.findings:
        if "dependency_management" in f.construct or "file_parsers" in f.construct or "process_dependencies" in f.construct:
            rep.violation(f.rule, f.construct, f.detail, f.where, f.message, f.path)
    fn = ctx.prog.func("codemodder.project_analysis.file_parsers.base_parser.BaseParser.find_file_locations")
    bad = c11.unordered_iterations(ctx, fn)
    rep.rule("R-MANIFEST-ORDER", "the manifest enumeration that decides which store wins is ordered", 1)
    rep.check("R-MANIFEST-ORDER", fn.qname, fn.loc(), not bad, "sorted", "manifest candidates are enumerated in raw directory order: which manifest is updated depends on the file system")


def check(ctx, rep):
    rep.explanation = (
        "The framework part of dependency handling is decided: first-store-wins (may-event must not leak to the next iteration), "
        "the already-declared filter dominating every append, both notices, plus the shared write-discipline rules for the four writers."
    )
    rule_first_wins(ctx, rep)
    rule_filtered_add(ctx, rep)
    rule_failed_notice(ctx, rep)
    rule_store_coherent(ctx, rep)
    from .c09 import rule_memo_coherent

    rule_memo_coherent(ctx, rep)
    rule_requirement_constants(ctx, rep)
    rule_manifest_siblings(ctx, rep)
    rule_manifest_no_overwrite(ctx, rep)
    rule_decode_handled(ctx, rep)
    rule_insert_after_terminated(ctx, rep)
    rule_shared(ctx, rep)
    from .c12 import MANIFEST_MODULES, rule_every_input_read

    # one unreadable dependency manifest must not end the discovery of the others (they decide which store is written)
    rule_every_input_read(ctx, rep, modules=MANIFEST_MODULES, min_loops=1)
    rep.not_covered += ["validity / preservation of arbitrary manifest texts under the writers' text surgery", "name canonicalisation in has_requirement"]
